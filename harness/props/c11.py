"""C11 — Results depend only on the input, not on what was processed before.

Deciding method (MANIFEST category "other" = proof of the protocol + exploration of real histories):
* Lean theorems ESV.C11.* about the memo-table machine (lean/ESV/Cache/Model.lean) under ALL histories, and about the small
  object models (parameter `indent`, compiler object).
* Tie (trace validation): real convert() runs with the graph_utils cache functions, the lock and the graph mutators wrapped
  from outside (harness/impl_cache.py); the recorded history is replayed through the Lean machine (outputs must agree
  section by section) and judged Disciplined / Isolated / Tidy by the Lean predicates; every real query is also re-run
  uncached (real-code staleness oracle).  The compiler-object model is tied by reading the `self.x = …` statements of the
  current source; the `indent` model by running the real writer method on real parameter objects.
* Property oracle on the real code: byte-for-byte equality (canonical JSON) of the result of a call run alone in a FRESH
  process and the same call after a generated history in a long-lived process; the caller's routine set before/after
  convert(); fresh processes with different hash seeds against each other.  A difference is shrunk (calls dropped while it
  persists), diagnosed (does it vanish when the memo tables are emptied / the CLI counter is reset before the call?) and
  reported with the shrunk history as replay.
"""
from __future__ import annotations

import copy
import json
import os
import random
from collections import Counter
from typing import Any

from .. import cachehist, core, escommon, fresh, shared_inventory
from ..gen.programs import Cfg

MODULES = ["ESV.Props.C11"]
THEOREMS = [
    "ESV.C11.cache_fresh", "ESV.C11.query_always_answers", "ESV.C11.call_independent_of_memo",
    "ESV.C11.tidy_prefix_then_fresh", "ESV.C11.tidy_prefix_then_fresh_queries", "ESV.C11.outputs_of_call_after_tidy_prefix",
    "ESV.C11.sequential_no_keyerror", "ESV.C11.cache_stale_counterexample", "ESV.C11.call_depends_on_memo_counterexample",
    "ESV.C11.print_indent_only", "ESV.C11.compile_reset", "ESV.C11.compile_ctor", "ESV.C11.compile_reset_after_history",
    "ESV.C11.compile_order_reset_pinned", "ESV.C11.history_state_inventory_pinned",
]
SESSION = "harness.impl_cache:run_session"


# ----------------------------------------------------------------------------------------------------------------------
# inputs
# ----------------------------------------------------------------------------------------------------------------------
def op(off: int, name: str, params: Any = ()) -> dict:
    return {"off": off, "name": name, "params": list(params)}


def rsn(routines: list) -> dict:
    return {"infos": [{"type": "GENERIC", "linked_to": -1, "linked_to_name": None} for _ in routines], "coros": [None for _ in routines], "ops": routines}


def rs_abort(k: int, pre: int) -> dict:
    """k routines [p*pre, Branch whose arms never join (the join search answers None), End …] and a last routine whose
    only op is a Branch to itself: one out-edge -> `assert else_edge != if_edge` in build_branches -> the structured
    decompilation is abandoned (SsbScript fallback) while the tables of the k graphs still hold their entry"""
    rts, off = [], 0
    for _ in range(k):
        n = off + pre
        rts.append([op(off + i, "p") for i in range(pre)] +
                   [op(n, "Branch", [{"c": "$X"}, 1, n + 3]), op(n + 1, "a"), op(n + 2, "End"), op(n + 3, "b"), op(n + 4, "End")])
        off = n + 5
    rts.append([op(off, "Branch", [{"c": "$X"}, 1, off])])
    return rsn(rts)


def rs_loops(k: int, tag: str) -> dict:
    """k routines compiled from `while ($X == 1) { a(); if (debug) { break_loop; } b(); } c(); end;` (ops named after `tag`), which
    decompile to `forever { if … { a(); if (debug) { break_loop; } else { b(); continue; } } else { break_loop; } }`: the loop
    writers keep a stack of open loops while they write the body; a break_loop asks the innermost one where the loop ends"""
    rts, off = [], 0
    for i in range(k):
        n = off
        rts.append([op(n, "Jump", [n + 4]), op(n + 1, "a_" + tag, [i]), op(n + 2, "BranchDebug", [1, n + 5]), op(n + 3, "b_" + tag),
                    op(n + 4, "Branch", [{"c": "$X"}, 1, n + 1]), op(n + 5, "c_" + tag), op(n + 6, "End")])
        off = n + 7
    return rsn(rts)


def rs_switch(k: int, pre: int) -> dict:
    """k routines [p*pre, Switch, Case -> next op, c, End]: no Branch op, so build_and_group_switch_cases queries the join
    of the switch's out-edges before any clear of the new graph"""
    rts, off = [], 0
    for _ in range(k):
        n = off + pre
        rts.append([op(off + i, "p") for i in range(pre)] +
                   [op(n, "Switch", [{"c": "$X"}]), op(n + 1, "Case", [1, n + 2]), op(n + 2, "c"), op(n + 3, "End")])
        off = n + 4
    return rsn(rts)


MACRO_TEXTS = [
    "macro m($a) {\n    se_Play($a);\n    if ($X == 1) {\n        return;\n    }\n    b($a, 'x');\n}\ndef 0 {\n    ~m(5);\n    ~m(CONST);\n    end;\n}\n",
    "macro leaf() {\n    l();\n}\nmacro mid($v) {\n    ~leaf();\n    x($v);\n}\ndef 0 {\n    ~mid(1);\n    hold;\n}\ndef 1 for_actor(2) {\n    ~leaf();\n    return;\n}\n",
    "macro w($n) {\n    while ($n < 3) {\n        a();\n    }\n    switch ($n) {\n        case 1:\n            b();\n            break;\n        default:\n            c();\n    }\n}\ncoro C {\n    ~w($Y);\n    end;\n}\n",
]
SSBS_TEXT = "//?: is-ssb-script: true\ndef 0 {\n    a(1, 'x');\n    @l;\n    Jump(@l);\n}\n"
# SsbScript sources whose label names overlap (the listener numbers labels per compilation: an earlier source that used
# @label_0 must not decide what @label_0 / @label_1 mean in a later one)
SSBS_TEXTS = [
    "//?: is-ssb-script: true\ndef 0 {\n    @label_0;\n    a(1);\n    BranchDebug(1, @label_0);\n    Return();\n}\n",
    "//?: is-ssb-script: true\ndef 0 {\n    BranchDebug(1, @label_1);\n    @label_0;\n    a(2);\n    Jump(@label_0);\n    @label_1;\n    b();\n    Return();\n}\n",
    "//?: is-ssb-script: true\ndef 0 {\n    Jump(@z);\n    @label_0;\n    x();\n    @z;\n    End();\n}\ndef 1 for_actor(2) {\n    Call(@label_0);\n    BranchEdit(0, @label_1);\n    y();\n    @label_1;\n    Hold();\n}\n",
]
BAD_TEXTS = [
    "def 0 {\n    a(;\n}\n",
    "def 0 {\n    ~nope(1);\n    end;\n}\n",
    "def 0 {\n    jump @missing;\n}\n",
    "macro m() {\n    a();\n}\nmacro m() {\n    b();\n}\ndef 0 {\n    end;\n}\n",
    "import \"nowhere.exps\";\ndef 0 {\n    end;\n}\n",
    "def 0 {\n    switch ($X) {\n        case 1:\n            a();\n",
]


PROJECTS = [
    {"files": {
        "lib/util.exps": "macro u($a) {\n    se_Play($a);\n    if ($X == 1) {\n        return;\n    }\n    b($a);\n}\n",
        "lib/mid.exps": "import \"./util.exps\";\nmacro mid($v) {\n    ~u($v);\n    m($v, Position<'p', 1, 2.5>);\n}\n",
        "main.exps": "import \"./lib/mid.exps\";\nimport \"./lib/util.exps\";\ndef 0 {\n    ~mid(1);\n    ~u(2);\n    end;\n}\n",
        "other.exps": "import \"./lib/util.exps\";\ndef 0 {\n    ~u('x');\n    hold;\n}\ndef 1 for_actor(3) {\n    ~u(4);\n    return;\n}\n",
        "deep/top.exps": "import \"../main_lib.exps\";\ndef 0 {\n    ~top(7);\n    end;\n}\n",
        "main_lib.exps": "import \"./lib/mid.exps\";\nmacro top($q) {\n    ~mid($q);\n    t();\n}\n",
     }, "lookup": []},
    {"files": {
        "inc/common.exps": "macro c($a) {\n    cc($a, 'two\nlines');\n}\n",
        "inc/more.exps": "import \"common.exps\";\nmacro d() {\n    ~c(1);\n}\n",
        "scripts/a.exps": "import \"common.exps\";\ndef 0 {\n    ~c(5);\n    end;\n}\n",
        "scripts/b.exps": "import \"more.exps\";\nimport \"common.exps\";\ncoro K {\n    ~d();\n    ~c(2);\n    hold;\n}\n",
     }, "lookup": ["inc"]},
    # two or more imports define the SAME macro name with different bodies (the later import statement wins); imports in both orders
    {"files": {
        "dup/lib_one.exps": "macro greet() {\n    first_variant(1);\n}\n",
        "dup/lib_two.exps": "macro greet() {\n    second_variant(2);\n    second_variant(3);\n}\nmacro only_two() {\n    t();\n}\n",
        "dup/lib_three.exps": "macro greet() {\n    third(Position<'g', 1, 2>);\n}\nmacro other() {\n    ~greet();\n    o();\n}\n",
        "dup_a.exps": "import \"./dup/lib_one.exps\";\nimport \"./dup/lib_two.exps\";\ndef 0 {\n    before(0);\n    ~greet();\n    end;\n}\n",
        "dup_b.exps": "import \"./dup/lib_two.exps\";\nimport \"./dup/lib_one.exps\";\ndef 0 {\n    before(0);\n    ~greet();\n    ~only_two();\n    end;\n}\n",
        "dup_c.exps": "import \"./dup/lib_three.exps\";\nimport \"./dup/lib_one.exps\";\nimport \"./dup/lib_two.exps\";\ndef 0 {\n    ~other();\n    ~greet();\n    hold;\n}\n",
        "dup_d.exps": "import \"./dup/lib_two.exps\";\nimport \"./dup/lib_three.exps\";\nimport \"./dup/lib_one.exps\";\nimport \"./dup/lib_two.exps\";\ncoro Q {\n    ~greet();\n    ~other();\n    end;\n}\n",
     }, "lookup": []},
    # three lookup paths, the same file name in several of them (the first path wins), the same macro name in several files
    {"files": {
        "inc1/x.exps": "macro pick() {\n    from_inc1_x();\n}\nmacro x1() {\n    a();\n}\n",
        "inc2/x.exps": "macro pick() {\n    from_inc2_x();\n}\n",
        "inc2/y.exps": "macro pick() {\n    from_inc2_y();\n}\nmacro y2() {\n    b();\n}\n",
        "inc3/y.exps": "macro pick() {\n    from_inc3_y();\n}\n",
        "inc3/z.exps": "macro pick() {\n    from_inc3_z();\n}\nmacro z3() {\n    ~pick();\n}\n",
        "scripts/m1.exps": "import \"x.exps\";\nimport \"y.exps\";\nimport \"z.exps\";\ndef 0 {\n    ~pick();\n    ~x1();\n    ~y2();\n    ~z3();\n    end;\n}\n",
        "scripts/m2.exps": "import \"z.exps\";\nimport \"y.exps\";\nimport \"x.exps\";\ndef 0 {\n    ~z3();\n    ~pick();\n    end;\n}\n",
     }, "lookup": ["inc1", "inc2", "inc3"]},
    # RELATIVE lookup paths (joined onto the directory of the compiled file by the compiler), names that also exist in the decoy working directory
    {"files": {
        "lib/common.exps": "macro common($a) {\n    real_common($a);\n}\nmacro helper() {\n    real_helper();\n}\n",
        "lib/extra.exps": "import \"common.exps\";\nmacro extra() {\n    ~common(1);\n    e();\n}\n",
        "main.exps": "import \"common.exps\";\ndef 0 {\n    ~common(5);\n    ~helper();\n    end;\n}\n",
        "second.exps": "import \"extra.exps\";\nimport \"common.exps\";\ndef 0 {\n    ~extra();\n    ~common(2);\n    hold;\n}\n",
     }, "lookup": [], "lookup_rel": ["lib"]},
    {"files": {
        "inc1/x.exps": "macro pick() {\n    rel_inc1_x();\n}\n",
        "inc2/x.exps": "macro pick() {\n    rel_inc2_x();\n}\n",
        "inc2/y.exps": "macro why() {\n    rel_inc2_y();\n}\n",
        "scripts/r1.exps": "import \"x.exps\";\nimport \"y.exps\";\ndef 0 {\n    ~pick();\n    ~why();\n    end;\n}\n",
     }, "lookup": [], "lookup_rel": ["../inc1", "../inc2"]},
    # the same RELATIVE import names in different directories, '../' imports, a transitive chain script -> lib -> base
    {"files": {
        "base.exps": "macro base($v) {\n    base_op($v);\n}\n",
        "a/lib.exps": "import \"../base.exps\";\nmacro shared() {\n    from_a();\n    ~base(1);\n}\n",
        "b/lib.exps": "macro shared() {\n    from_b();\n    from_b2('x\\ny');\n}\n",
        "a/script.exps": "import \"./lib.exps\";\nimport \"../base.exps\";\ndef 0 {\n    ~shared();\n    ~base(2);\n    end;\n}\n",
        "b/script.exps": "import \"./lib.exps\";\nimport \"../base.exps\";\ndef 0 {\n    ~shared();\n    ~base(3);\n    hold;\n}\n",
        "a/sub/deep.exps": "import \"../lib.exps\";\ndef 0 {\n    ~shared();\n    end;\n}\n",
        "chain/top.exps": "import \"./mid.exps\";\ndef 0 {\n    ~mid();\n    end;\n}\n",
        "chain/mid.exps": "import \"./low.exps\";\nmacro mid() {\n    ~low();\n    m();\n}\n",
        "chain/low.exps": "import \"../base.exps\";\nmacro low() {\n    ~base(9);\n}\n",
     }, "lookup": []},
    # many macros per file, calling each other, called in another order than defined
    {"files": {
        "many/lib.exps": "".join(f"macro m{i}($a) {{\n    op{i}($a, Position<'p{i}', {i}, {i}.5>);\n" + (f"    ~m{i - 3}($a);\n" if i >= 3 and i % 2 else "") + "}\n" for i in range(14)),
        "many/lib2.exps": "import \"./lib.exps\";\n" + "".join(f"macro n{i}() {{\n    ~m{(i * 5) % 14}({i});\n}}\n" for i in range(8)),
        "many_main.exps": "import \"./many/lib2.exps\";\nimport \"./many/lib.exps\";\ndef 0 {\n" + "".join(f"    ~n{i}();\n    ~m{(i * 3) % 14}('s{i}');\n" for i in (5, 2, 7, 0, 3)) + "    end;\n}\n",
     }, "lookup": []},
]


PROJ_BASE = f"/tmp/esv_c11_{os.getpid()}"      # generated project files live here for the duration of the run


def cleanup_projects() -> None:
    import shutil
    shutil.rmtree(PROJ_BASE, ignore_errors=True)


def cleanup_projects_of(calls: list[dict]) -> None:
    import shutil
    for c in calls:
        b = c.get("project", {}).get("base")
        if b and b.startswith("/tmp/esv_c11_"):
            shutil.rmtree(b, ignore_errors=True)


def project_calls() -> list[list[dict]]:
    """per project: one compile call per file (plus a macros_only variant for every file)"""
    out = []
    for pr in PROJECTS:
        calls = []
        for rel in pr["files"]:
            base = {"kind": "compile", "text": pr["files"][rel], "lookup": [], "project": {"files": pr["files"], "main": rel, "lookup": pr["lookup"], "lookup_rel": pr.get("lookup_rel", []), "base": PROJ_BASE}}
            calls.append(base)
            calls.append(dict(copy.deepcopy(base), macros_only=True))
        out.append(calls)
    return out


def fixture_projects() -> list[list[dict]]:
    """the repo's import fixtures as import graphs: every .exps file of a fixture directory as a top-level compile"""
    out = []
    base = os.path.join(core.REPO, "tests", "fixtures", "compiler", "macros_imports_test")
    if os.path.isdir(base):
        for d in sorted(os.listdir(base)):
            files = sorted(f for f in os.listdir(os.path.join(base, d)) if f.endswith(".exps"))
            if len(files) < 2:
                continue
            calls = []
            for f in files:
                pth = os.path.join(base, d, f)
                c = {"kind": "compile", "text": open(pth, encoding="utf-8").read(), "file": pth, "lookup": []}
                calls.append(c)
                calls.append(dict(copy.deepcopy(c), macros_only=True))
            out.append(calls)
    return out


def rs_multiline() -> list[dict]:
    """routine sets with constant strings that contain newlines in ordinary ops, at several nesting depths"""
    s1 = {"s": "line one\nline two"}
    s2 = {"s": "  a\n\nb "}
    ls = {"ls": [["english", "x\ny"], ["german", "z"]]}
    pm = {"pm": ["mark one", 0, 2, 3, 4]}
    return [
        rsn([[op(0, "camera_Move", [pm, 1]), op(1, "b", [{"pm": ["m2", 2, 0, 7, 8]}, s1]), op(2, "End")]]),
        rsn([[op(0, "message_Talk", [s1]), op(1, "End")]]),
        rsn([[op(0, "Branch", [{"c": "$X"}, 1, 3]), op(1, "a", [s1, 5]), op(2, "End"), op(3, "b", [s2, ls]), op(4, "End")]]),
        rsn([[op(0, "Switch", [{"c": "$X"}]), op(1, "Case", [1, 3]), op(2, "Jump", [5]), op(3, "c", [s2]), op(4, "Jump", [5]), op(5, "d", [s1]), op(6, "End")],
             [op(7, "e", [ls, s1]), op(8, "Return")]]),
    ]


COLD_TEXTS = [
    "def 0 {\n    $X = 1;\n    $Y[2] = 3;\n    $Z += value($X);\n    with (actor 2) {\n        SetAnimation(3);\n    }\n    with (object 1) {\n        Destroy();\n    }\n    end;\n}\n",
    "def 0 {\n    dungeon_mode(3) = 2;\n    clear $A;\n    reset dungeon_result;\n    message_SwitchTalk ($S) {\n        case 1:\n            'one'\n        default:\n            { english='d', german='e' }\n    }\n    a();\n    hold;\n}\n",
    "macro m($p) {\n    $V = $p;\n    with (performer 0) {\n        x($p);\n    }\n}\ndef 0 {\n    ~m(4);\n    if ($V == 4) {\n        return;\n    }\n    adventure_log = 5;\n    end;\n}\ncoro C {\n    $W -= 1;\n    hold;\n}\n",
    "def 0 for_actor(1) {\n    $scn = scn[3, 4];\n    init $Q;\n    message_SwitchMonologue ($Q) {\n        case 2:\n            'm'\n    }\n    jump @l;\n    @l;\n    call @l2;\n    end;\n    @l2;\n    return;\n}\n",
]


def fixture_texts() -> list[dict]:
    out = []
    base = os.path.join(core.REPO, "tests", "fixtures", "compiler", "macros_imports_test")
    if os.path.isdir(base):
        for d in sorted(os.listdir(base)):
            p = os.path.join(base, d, "main.exps")
            if os.path.exists(p):
                out.append({"kind": "compile", "text": open(p, encoding="utf-8").read(), "file": p, "lookup": [], "tag": "fixture:" + d})
    return out


def rs_to_cli(rs: dict) -> list | None:
    """routine set JSON -> the JSON the decompile CLI reads (ops numbered 1.. in file order, as a fresh CLI process does)"""
    from ..gen.ssb import jump_table
    jt = jump_table()
    new: dict[int, int] = {}
    n = 0
    for r in rs["ops"]:
        for o in r:
            n += 1
            new[o["off"]] = n
    routines = []
    for info, r in zip(rs["infos"], rs["ops"]):
        if info is None or info["type"] != "GENERIC":
            return None
        ops = []
        for o in r:
            ps = []
            for i, p in enumerate(o["params"]):
                if isinstance(p, int):
                    if o["name"] in jt and i == jt[o["name"]]:
                        if p not in new:
                            return None
                        ps.append(new[p])
                    else:
                        ps.append(p)
                elif "c" in p:
                    ps.append({"type": "CONSTANT", "value": p["c"]})
                elif "s" in p:
                    ps.append({"type": "CONST_STRING", "value": p["s"]})
                elif "ls" in p:
                    ps.append({"type": "LANG_STRING", "value": {k: v for k, v in p["ls"]}})
                elif "fx" in p:
                    ps.append({"type": "FIXED_POINT", "value": p["fx"]})
                else:
                    return None
            ops.append({"opcode": o["name"], "params": ps})
        routines.append({"type": "GENERIC", "ops": ops})
    return routines


PLACES = ("slot", "keep", "tag", "obj", "store")     # where a call is run, not what it is given


def spec_key(call: dict) -> str:
    """the call as an input: without the places it is run at (slot / keep)"""
    c = {k: v for k, v in call.items() if k not in PLACES}
    if c["kind"] == "convert_again":
        c = {"kind": call.get("of", "decompile"), "rs": call["rs"]}
    return json.dumps(c, sort_keys=False)


def alone(call: dict) -> dict:
    """the call as run for its reference (dict orders kept: the order of a language string's entries is part of the input)"""
    c = {k: copy.deepcopy(v) for k, v in call.items() if k not in PLACES}
    if c["kind"] == "convert_again":
        c = {"kind": call.get("of", "decompile"), "rs": copy.deepcopy(call["rs"])}
    return c


class Pools:
    def __init__(self) -> None:
        self.texts: list[dict] = []       # compile calls (ok or failing), no slot
        self.bad_texts: list[dict] = []
        self.rs: list[dict] = []          # decompile calls from compiled programs
        self.rs_abort: list[dict] = []
        self.rs_switch: list[dict] = []
        self.rs_broken: list[dict] = []
        self.cli: list[dict] = []
        self.cd: list[dict] = []          # compile_decompile
        self.graphs: list[list[dict]] = []   # import graphs: compile calls of the files of one project
        self.rs_ml: list[dict] = []       # decompile calls on sets with multi-line constant strings
        self.cli_build: list[dict] = []
        self.cli_fn: list[dict] = []      # direct calls of the public helper functions of explorerscript/cli/*.py
        self.cold_cd: list[dict] = []     # scripts with assignments / ctx blocks / keywords / message switches / macros (C12 cold start)
        self.cold_rs: list[dict] = []
        self.cli_public: list[str] = []
        self.ref_calls: dict[str, dict] = {}   # reference key -> the call


def build_pools(run: core.Run, jobs: int, n_prog: int, light: bool = False) -> tuple[Pools, dict, Counter]:
    """generate inputs; compute the references (each call ALONE in a FRESH process); drop inputs with no answer"""
    r = run.rng
    stats: Counter = Counter()
    cfgs = [Cfg(max_depth=2, max_stmts=2, max_routines=2), Cfg(max_depth=2, max_stmts=3, max_routines=2, coro=True),
            Cfg(max_depth=3, max_stmts=3, max_routines=1, switches=True, loops=False),
            Cfg(max_depth=3, max_stmts=3, max_routines=1, loops=True, switches=False),
            Cfg(max_depth=2, max_stmts=3, max_routines=3, flat=True), Cfg(max_depth=1, max_stmts=4, max_routines=2, p_halt=0.2)]
    progs = escommon.gen_programs(r, n_prog, cfgs)
    texts = [{"kind": "compile", "text": p["text"], "lookup": []} for p in progs if len(p["text"]) < 6000]
    texts += [{"kind": "compile", "text": t, "lookup": []} for t in MACRO_TEXTS] + [{"kind": "compile", "text": t, "lookup": []} for t in [SSBS_TEXT] + SSBS_TEXTS]
    texts += fixture_texts()
    texts += [{"kind": "compile", "text": t, "lookup": []} for t in COLD_TEXTS]
    bad = [{"kind": "compile", "text": t, "lookup": []} for t in BAD_TEXTS]
    for p in progs[: max(3, n_prog // 6)]:
        t = p["text"]
        bad.append({"kind": "compile", "text": t[: max(10, int(len(t) * r.uniform(0.3, 0.9)))], "lookup": []})
    refs: dict[str, dict] = {}
    ref_calls: dict[str, dict] = {}

    def reference(calls: list[dict]) -> None:
        todo = [c for c in calls if spec_key(c) not in refs]
        uniq = {spec_key(c): c for c in todo}
        ref_calls.update(uniq)
        keys = list(uniq)
        res = fresh.run_fresh_many([(SESSION, {"calls": [alone(uniq[k])], "full": "all"}) for k in keys], jobs, timeout=60)
        for k, x in zip(keys, res):
            stats["reference_processes"] += 1
            if fresh.failed(x) or not isinstance(x, dict) or "results" not in x:
                stats["reference_no_answer"] += 1
                refs[k] = {"no_answer": True}
            else:
                refs[k] = x["results"][0]

    reference(texts + bad)
    pools = Pools()
    for c in texts:
        ref = refs[spec_key(c)]
        if ref.get("no_answer"):
            continue
        if "error" in ref["summary"]:
            pools.bad_texts.append(c)
        else:
            pools.texts.append(c)
            full = ref["full"]
            if full.get("ops") is not None and sum(len(x) for x in full["ops"]) <= 250 and all(i is not None for i in full["infos"]):
                rs = {"infos": full["infos"], "coros": full["coros"], "ops": [[{"off": o["off"], "name": o["name"], "params": o["params"]} for o in x] for x in full["ops"]]}
                pools.rs.append({"kind": "decompile", "rs": rs})
    for c in bad:
        if not refs[spec_key(c)].get("no_answer"):
            pools.bad_texts.append(c)
    for k in (1, 3, 8):
        for pre in (0, 1, 2, 3, 4):
            pools.rs_abort.append({"kind": "decompile", "rs": rs_abort(k, pre)})
            pools.rs_switch.append({"kind": "decompile", "rs": rs_switch(k, pre)})
    for c in r.sample(pools.rs, min(len(pools.rs), 12)):
        rs = copy.deepcopy(c["rs"])
        nonempty = [x for x in rs["ops"] if len(x) > 1]
        if nonempty:
            r.choice(nonempty).pop()            # a routine that lost its last op (missing terminator / dangling jump)
            pools.rs_broken.append({"kind": "decompile", "rs": rs})
    cli_src = [rs_abort(1, 1), rs_switch(2, 0)] + [c["rs"] for c in pools.rs[:10]]
    for rs in cli_src:
        j = rs_to_cli(rs)
        if j is not None and len(pools.cli) < 5:
            pools.cli.append({"kind": "cli_read", "routines": j})
    pools.cd = [{"kind": "compile_decompile", "text": c["text"]} for c in pools.texts[:10] if "file" not in c]
    pools.cli_build = [{"kind": "cli_build", "text": c["text"]} for c in pools.texts[:8] if "file" not in c]
    pools.rs_ml = [{"kind": "decompile", "rs": x} for x in rs_multiline()]
    for c in pools.rs:
        if any(isinstance(q, dict) and "s" in q and "\n" in q["s"] for rt in c["rs"]["ops"] for o in rt for q in o["params"]) and len(pools.rs_ml) < 12:
            pools.rs_ml.append(copy.deepcopy(c))
    pools.graphs = project_calls() + fixture_projects()
    for t in COLD_TEXTS:
        ref_t = refs.get(spec_key({"kind": "compile", "text": t, "lookup": []}))
        if ref_t and not ref_t.get("no_answer") and ref_t.get("full", {}).get("ops") is not None:
            full = ref_t["full"]
            pools.cold_cd.append({"kind": "compile_decompile", "text": t})
            pools.cold_rs.append({"kind": "decompile", "rs": {"infos": full["infos"], "coros": full["coros"],
                                  "ops": [[{"off": o["off"], "name": o["name"], "params": o["params"]} for o in x] for x in full["ops"]]}})
    # direct calls of the CLI helper functions
    pub = fresh.run_fresh("harness.impl_cache:cli_functions", None, timeout=60)
    pools.cli_public = pub if isinstance(pub, list) else []
    for c in pools.cli:
        first = c["routines"][0]["ops"]
        n = len(first)
        if all(not (isinstance(q, int) and q > n) or True for o in first for q in o["params"]):
            pools.cli_fn.append({"kind": "cli_fn", "fn": "decompile.read_ops", "ops": copy.deepcopy(first)})
    pools.cli_fn += [{"kind": "cli_fn", "fn": "decompile.parse_pos_mark_arg", "arg": a} for a in ("3", "4.5", "x")]
    pools.cli_fn += [{"kind": "cli_fn", "fn": "compile.build_ops", "text": c["text"]} for c in pools.texts[:4] if "file" not in c]
    pools.cli_fn += [{"kind": "cli_fn", "fn": "cli.check_settings", "arg": a} for a in
                     ({"settings": {"performance_progress_list_var_name": "P", "dungeon_mode_constants": {"open": "O", "closed": "C", "request": "R", "open_request": "OR"}}}, {"settings": {}})]
    ssbs = [dict(copy.deepcopy(c), kind="ssbs_decompile") for c in pools.rs_ml + pools.rs + pools.rs_switch[:3]]
    if light:      # C12 uses only the compile / decompile pools
        ssbs, pools.cli, pools.cli_build, pools.cli_fn, pools.rs_ml = [], [], [], [], []
        pools.graphs = [[c for c in g if not c.get("macros_only")] for g in pools.graphs]
    reference(pools.rs + pools.rs_abort + pools.rs_switch + pools.rs_broken + pools.cli + pools.cd + pools.cli_build + pools.rs_ml + ssbs + pools.cli_fn + pools.cold_cd + pools.cold_rs
              + [c for g in pools.graphs for c in g])
    pools.graphs = [[c for c in g if not refs[spec_key(c)].get("no_answer")] for g in pools.graphs]
    pools.graphs = [g for g in pools.graphs if len(g) >= 2]
    pools.rs_ml = [c for c in pools.rs_ml if not refs[spec_key(c)].get("no_answer") and not refs.get(spec_key(dict(c, kind="ssbs_decompile")), {}).get("no_answer")]
    pools.cli_build = [c for c in pools.cli_build if not refs[spec_key(c)].get("no_answer")]
    pools.cli_fn = [c for c in pools.cli_fn if not refs[spec_key(c)].get("no_answer")]
    pools.cold_cd = [c for c in pools.cold_cd if not refs[spec_key(c)].get("no_answer")]
    pools.cold_rs = [c for c in pools.cold_rs if not refs[spec_key(c)].get("no_answer")]
    pools.ref_calls = ref_calls
    for name in ("rs", "rs_abort", "rs_switch", "rs_broken", "cli", "cd"):
        setattr(pools, name, [c for c in getattr(pools, name) if not refs[spec_key(c)].get("no_answer")])
    return pools, refs, stats


# ----------------------------------------------------------------------------------------------------------------------
# histories
# ----------------------------------------------------------------------------------------------------------------------
def gen_history(r: random.Random, pools: Pools, maxlen: int, hid: int) -> list[dict]:
    n = r.randint(2, maxlen)
    calls: list[dict] = []
    for i in range(n):
        c = r.random()
        if calls and c < 0.12:
            prev = [x for x in calls if x["kind"] not in ("gc", "churn", "convert_again")]
            if prev:
                calls.append(copy.deepcopy(r.choice(prev)))       # the same input repeated
                continue
        c = r.random()
        if c < 0.24 and pools.rs:
            calls.append(copy.deepcopy(r.choice(pools.rs)))
        elif c < 0.36:
            calls.append(copy.deepcopy(r.choice(pools.rs_abort)))
        elif c < 0.46:
            calls.append(copy.deepcopy(r.choice(pools.rs_switch)))
        elif c < 0.52 and pools.rs_broken:
            calls.append(copy.deepcopy(r.choice(pools.rs_broken)))
        elif c < 0.62 and pools.texts:
            calls.append(copy.deepcopy(r.choice(pools.texts)))
        elif c < 0.76 and pools.texts:
            calls.append(dict(copy.deepcopy(r.choice(pools.texts)), slot=r.choice(["s1", "s2"])))
        elif c < 0.83 and pools.bad_texts:
            x = copy.deepcopy(r.choice(pools.bad_texts))
            if r.random() < 0.6:
                x["slot"] = r.choice(["s1", "s2"])
            calls.append(x)
        elif c < 0.91:
            calls.append({"kind": "gc"} if r.random() < 0.5 else {"kind": "churn", "n": r.choice([5, 30, 100]), "seed": r.randint(0, 999), "keep": r.choice([0, 0, 3])})
        elif c < 0.94 and pools.cli:
            calls.append(copy.deepcopy(r.choice(pools.cli)))
        elif c < 0.97 and pools.cd:
            calls.append(copy.deepcopy(r.choice(pools.cd)))
        elif pools.rs:
            x = copy.deepcopy(r.choice(pools.rs))
            key = f"d{hid}_{i}"
            calls.append(dict(x, keep=key))
            calls.append({"kind": "convert_again", "keep": key, "rs": x["rs"]})
    return calls


def hist_import_graph(r: random.Random, pools: Pools, hid: int) -> list[dict]:
    """ONE compiler object over files of one import graph, in a random order (libraries before or after their importers,
    macros-only compiles before full compiles, a file twice)"""
    g = r.choice(pools.graphs)
    slot = f"g{hid}"
    n = r.randint(2, min(5, len(g)))
    calls = [dict(copy.deepcopy(c), slot=slot) for c in r.sample(g, n)]
    if r.random() < 0.3:
        calls.append(copy.deepcopy(calls[0]))
    if r.random() < 0.3:
        calls.insert(r.randrange(len(calls)), {"kind": "gc"})
    return calls


def hist_shared_objects(r: random.Random, pools: Pools, hid: int) -> list[dict]:
    """the SAME routine-set objects handed to the decompilers in every order (ExplorerScript / SsbScript / convert() again)"""
    src = r.choice(pools.rs_ml if (pools.rs_ml and r.random() < 0.6) else (pools.rs or pools.rs_switch))
    key = f"o{hid}"
    calls: list[dict] = []
    for i in range(r.randint(2, 4)):
        c = r.random()
        if c < 0.30:
            calls.append({"kind": "ssbs_decompile", "rs": copy.deepcopy(src["rs"]), "obj": key})
        elif c < 0.45:
            kk = f"{key}_s{i}"
            calls.append({"kind": "ssbs_decompile", "rs": copy.deepcopy(src["rs"]), "obj": key, "keep": kk})
            for _ in range(r.randint(1, 2)):
                calls.append({"kind": "convert_again", "keep": kk, "rs": copy.deepcopy(src["rs"]), "of": "ssbs_decompile"})
        elif c < 0.85:
            calls.append({"kind": "decompile", "rs": copy.deepcopy(src["rs"]), "obj": key})
        else:
            kk = f"{key}_{i}"
            calls.append({"kind": "decompile", "rs": copy.deepcopy(src["rs"]), "obj": key, "keep": kk})
            calls.append({"kind": "convert_again", "keep": kk, "rs": copy.deepcopy(src["rs"])})
    return calls


def hist_compiled_objects(r: random.Random, pools: Pools, refs: dict, hid: int) -> list[dict]:
    """the objects a compile() returned, decompiled by both decompilers in some order, then compiled again"""
    cands = [c for c in pools.texts if "file" not in c and not refs[spec_key(c)].get("no_answer") and refs[spec_key(c)].get("full", {}).get("ops") is not None
             and all(i is not None for i in refs[spec_key(c)]["full"]["infos"])]
    if not cands:
        return hist_shared_objects(r, pools, hid)
    t = r.choice(cands)
    full = refs[spec_key(t)]["full"]
    rs = {"infos": full["infos"], "coros": full["coros"], "ops": [[{"off": o["off"], "name": o["name"], "params": o["params"]} for o in x] for x in full["ops"]]}
    key = f"c{hid}"
    calls = [dict(copy.deepcopy(t), store=key, slot=r.choice([None, "s1"]))]
    if calls[0]["slot"] is None:
        del calls[0]["slot"]
    kinds = ["ssbs_decompile", "decompile"]
    r.shuffle(kinds)
    for k in kinds[: r.randint(1, 2)]:
        calls.append({"kind": k, "rs": copy.deepcopy(rs), "obj": key})
    calls.append(copy.deepcopy(t))
    return calls


def hist_cli_after_api(r: random.Random, pools: Pools, hid: int) -> list[dict]:
    """the CLI modules' functions after API calls (and twice)"""
    calls: list[dict] = []
    if pools.texts:
        calls.append(dict(copy.deepcopy(r.choice(pools.texts)), slot="s1"))
    if pools.rs:
        calls.append(copy.deepcopy(r.choice(pools.rs)))
    for _ in range(r.randint(1, 3)):
        if pools.cli_build and r.random() < 0.5:
            calls.append(copy.deepcopy(r.choice(pools.cli_build)))
        elif pools.cli:
            calls.append(copy.deepcopy(r.choice(pools.cli)))
    return calls


def hist_cli_direct(r: random.Random, pools: Pools, hid: int) -> list[dict]:
    """the public helper functions of explorerscript/cli/*.py called directly (read_ops without a counter, read_routines,
    build_ops, build_routines_json, parse_pos_mark_arg, check_settings), each several times, interleaved with API calls"""
    calls: list[dict] = []
    for _ in range(r.randint(3, 6)):
        c = r.random()
        if c < 0.45 and pools.cli_fn:
            x = copy.deepcopy(r.choice(pools.cli_fn))
            calls.append(x)
            if r.random() < 0.5:
                calls.append(copy.deepcopy(x))                     # the same helper call again
        elif c < 0.6 and pools.cli:
            calls.append(copy.deepcopy(r.choice(pools.cli)))
        elif c < 0.7 and pools.cli_build:
            calls.append(copy.deepcopy(r.choice(pools.cli_build)))
        elif c < 0.85 and pools.rs:
            calls.append(copy.deepcopy(r.choice(pools.rs)))
        elif pools.texts:
            calls.append(copy.deepcopy(r.choice(pools.texts)))
    return calls


def gen_any_history(r: random.Random, pools: Pools, refs: dict, maxlen: int, hid: int) -> list[dict]:
    c = r.random()
    if c < 0.55:
        return gen_history(r, pools, maxlen, hid)
    if c < 0.70 and pools.graphs:
        return hist_import_graph(r, pools, hid)
    if c < 0.84:
        return hist_shared_objects(r, pools, hid)
    if c < 0.90:
        return hist_compiled_objects(r, pools, refs, hid)
    if c < 0.95:
        return hist_cli_after_api(r, pools, hid)
    return hist_cli_direct(r, pools, hid)


def witness_histories(pools: Pools) -> list[tuple[str, list[dict]]]:
    """the Lean counterexamples on the real code, plus the other process-wide state named by the property"""
    w = [("stale_memo", [{"kind": "decompile", "rs": rs_abort(30, 2)}, {"kind": "gc"}, {"kind": "decompile", "rs": rs_switch(30, 0)}])]
    if pools.cli:
        w.append(("cli_counter", [copy.deepcopy(pools.cli[0]), copy.deepcopy(pools.cli[0])]))
    w.append(("compiler_reuse", [{"kind": "compile", "text": MACRO_TEXTS[0], "lookup": [], "slot": "w"}, {"kind": "compile", "text": SSBS_TEXT, "lookup": [], "slot": "w"},
                                 {"kind": "compile", "text": BAD_TEXTS[1], "lookup": [], "slot": "w"}, {"kind": "compile", "text": MACRO_TEXTS[1], "lookup": [], "slot": "w"}]))
    if pools.graphs:
        g = pools.graphs[0]
        lib = [c for c in g if c["project"]["main"] == "lib/util.exps" and not c.get("macros_only")] if "project" in g[0] else []
        main = [c for c in g if c.get("project", {}).get("main") == "main.exps" and not c.get("macros_only")]
        if lib and main:
            w.append(("import_graph_one_compiler", [dict(copy.deepcopy(lib[0]), slot="wg"), dict(copy.deepcopy(main[0]), slot="wg"), dict(copy.deepcopy(lib[0]), slot="wg")]))
    if pools.rs_ml:
        x = pools.rs_ml[min(1, len(pools.rs_ml) - 1)]["rs"]
        w.append(("same_objects_both_decompilers", [{"kind": "ssbs_decompile", "rs": copy.deepcopy(x), "obj": "wo"}, {"kind": "decompile", "rs": copy.deepcopy(x), "obj": "wo"},
                                                    {"kind": "ssbs_decompile", "rs": copy.deepcopy(x), "obj": "wo"}]))
    ro = [c for c in pools.cli_fn if c["fn"] == "decompile.read_ops"]
    if ro:
        w.append(("cli_helpers_directly", [copy.deepcopy(ro[0]), copy.deepcopy(ro[0]), copy.deepcopy(ro[-1])]))
    if pools.rs_ml:
        x = pools.rs_ml[0]["rs"]
        w.append(("ssbscript_decompiler_object_reused", [{"kind": "ssbs_decompile", "rs": copy.deepcopy(x), "keep": "ws"},
                                                         {"kind": "convert_again", "keep": "ws", "rs": copy.deepcopy(x), "of": "ssbs_decompile"},
                                                         {"kind": "convert_again", "keep": "ws", "rs": copy.deepcopy(x), "of": "ssbs_decompile"}]))
    rs = rs_switch(1, 1)
    w.append(("convert_twice", [{"kind": "decompile", "rs": rs, "keep": "w1"}, {"kind": "convert_again", "keep": "w1", "rs": rs}]))
    return w


# ----------------------------------------------------------------------------------------------------------------------
# oracle, shrinking, diagnosis
# ----------------------------------------------------------------------------------------------------------------------
def observed(call: dict) -> bool:
    return call["kind"] not in ("gc", "churn", "scrub", "reset_antlr", "reset_indent")


SESSION_CWD: list = [None]     # working directory of the session whose difference is being shrunk / diagnosed


def run_calls(calls: list[dict], full: Any = (), instrument: bool = False, timeout: float | None = None, cwd: dict | None = None) -> Any:
    t = timeout if timeout is not None else 30 + 2.0 * len(calls)
    arg = {"calls": calls, "instrument": instrument, "full": full if full == "all" else list(full)}
    cwd = cwd if cwd is not None else SESSION_CWD[0]
    if cwd:
        arg["cwd"] = cwd
    return fresh.run_fresh(SESSION, arg, timeout=t)


def cwd_variants() -> dict[str, dict]:
    """working directories a process may have: an unrelated directory that holds decoy files under the projects' lookup-path names, and the
    directory above the generated projects"""
    return {"decoy": {"decoy": [p for p in PROJECTS if p.get("lookup_rel") or p.get("lookup")], "base": PROJ_BASE}, "base": {"dir": PROJ_BASE}}


def differs(calls: list[dict], ref_digest: str) -> bool:
    x = run_calls(calls)
    if fresh.failed(x):
        return True
    return x["results"][-1]["digest"] != ref_digest


def shrink(calls: list[dict], ref_digest: str, budget: int = 24) -> list[dict]:
    cur = list(calls)
    evals = 0
    progress = True
    while progress and evals < budget and len(cur) > 1:
        progress = False
        # halves first, then single calls
        n = len(cur) - 1
        for lo, hi in ([(0, n // 2), (n // 2, n)] if n >= 4 else []) + [(i, i + 1) for i in range(n)]:
            if evals >= budget or hi <= lo:
                continue
            trial = cur[:lo] + cur[hi:]
            keep_keys = {c.get("keep") for c in trial if c["kind"] in ("decompile", "ssbs_decompile")}
            if any(c["kind"] == "convert_again" and c["keep"] not in keep_keys for c in trial):
                continue
            evals += 1
            if differs(trial, ref_digest):
                cur = trial
                progress = True
                break
    return cur


def digest_of(full: dict) -> str:
    return json.dumps({k: v for k, v in full.items() if not k.startswith("_")}, sort_keys=True)


def field_diff(a: dict, b: dict) -> list[str]:
    keys = sorted(k for k in set(a) | set(b) if not k.startswith("_"))
    return [k for k in keys if a.get(k) != b.get(k)]


def diagnose(calls: list[dict], ref: dict) -> tuple[str, str, dict]:
    """calls: shrunk history whose last call differs from `ref` (the same call alone in a fresh process) -> kind, what, detail"""
    last = calls[-1]
    x = run_calls(calls, full=[len(calls) - 1])
    if fresh.failed(x):
        return "no_answer_after_history", f"{last['kind']} gives no answer after {len(calls) - 1} earlier call(s) but answers alone", {"impl": x}
    got = x["results"][-1]
    fd = field_diff(got.get("full", {}), ref.get("full", {}))
    detail = {"fields": fd, "after_history": {k: got["full"].get(k) for k in fd}, "alone": {k: ref["full"].get(k) for k in fd}, "memo_before_call": x["memo"][-2] if len(x["memo"]) > 1 else None}
    kind_l = last["kind"]
    if kind_l == "convert_again":
        return "decompiler_object_convert_twice", "convert() called a second time on the same decompiler object gives " + \
            (f"{got['summary'].get('error')}" if "error" in got["summary"] else "another result") + " than the first call / a new decompiler object", detail
    if kind_l in ("decompile", "ssbs_decompile") and last.get("obj") and not differs(calls[:-1] + [{"kind": "reset_indent"}, last], ref["digest"]):
        return "text_depends_on_indent_left_on_shared_parameter_objects", \
            f"{kind_l} of routine-set objects that an earlier call of the history has printed gives another {'/'.join(fd)} than on new objects / alone in a fresh process; " \
            "the difference vanishes when the `indent` attributes of the parameter objects are set back to 0 before the call (a writer prints a multi-line string " \
            "with the indent an earlier printing left on the object instead of setting it)", detail
    if kind_l == "ssbs_decompile":
        return "ssbscript_decompile_result_depends_on_history", f"SsbScript decompile result ({'/'.join(fd)}) differs after a history of {len(calls) - 1} call(s)", detail
    if kind_l in ("decompile", "compile_decompile"):
        if not differs(calls[:-1] + [{"kind": "scrub"}, last], ref["digest"]):
            prev_abort = [c for c, row in zip(calls[:-1], x["results"][:-1]) if c["kind"] == "decompile" and (row["summary"].get("fallback") or "error" in row["summary"])]
            return "stale_memo_after_aborted_convert", \
                f"decompiling a routine set after {len(prev_abort)} earlier convert() call(s) that fell back to SsbScript / raised gives another {'/'.join(fd)} than alone in a fresh process; " \
                "the difference vanishes when graph_utils.find_first_common_next_vertex_in_edges_cache is emptied before the call " \
                "(a dead graph's entry is found under a recycled id(graph): build_and_group_switch_cases queries before any clear)", detail
        return "decompile_result_depends_on_history", f"decompile result ({'/'.join(fd)}) differs after a history of {len(calls) - 1} call(s)", detail
    if kind_l == "cli_fn":
        n_before = len([c for c in calls[:-1] if c["kind"] in ("cli_fn", "cli_read", "cli_build")])
        return "cli_helper_result_depends_on_history", \
            f"explorerscript.cli.{last['fn']} called directly gives another {'/'.join(fd)} after {n_before} earlier call(s) of CLI helpers in the process than as the first call of a fresh process " \
            f"({got['summary'].get('error', '') or ('offsets ' + str(got['full'].get('offsets')) + ' instead of ' + str(ref['full'].get('offsets')) if 'offsets' in fd else '')})", detail
    if kind_l == "cli_read":
        if not differs(calls[:-1] + [dict(last, reset_counter=True)], ref["digest"]):
            return "cli_read_routines_offsets_continue", \
                "explorerscript.cli.decompile.read_routines numbers ops with a module-level Counter: a second call in one process starts after the first call's last offset, " \
                f"jump parameters then point nowhere ({got['summary'].get('error', 'other text/source map')}); resetting the counter restores the result", detail
        return "cli_result_depends_on_history", "decompile CLI helpers give another result after a history", detail
    if kind_l == "compile" and fd == ["msg"] and got["full"].get("error") == "ParseError" == ref["full"].get("error"):
        if not differs(calls[:-1] + [{"kind": "reset_antlr"}, last], ref["digest"]):
            return "parse_error_message_depends_on_antlr_shared_atn", \
                "the MESSAGE of the ParseError for the same malformed source differs after earlier compile() calls " \
                f"({detail['after_history']['msg']!r} instead of {detail['alone']['msg']!r}; same class, same position): the generated parser's class-level " \
                "ATN/DFA (decisionsToDFA, and the nextTokenWithinRule sets the runtime caches on the shared ATN states) make the ANTLR error strategy take another " \
                "recovery path; the difference vanishes when these caches are re-created before the call", detail
    if kind_l == "compile":
        if fd == ["macro_order"] and last.get("slot"):
            how = "a source marked is-ssb-script" if "is-ssb-script" in last["text"][:40] else \
                (f"a source whose compilation raises {got['full'].get('error')} before the order is computed" if got["full"].get("error") else "a source")
            return "macro_resolution_order_not_reset_on_reused_compiler", \
                f"compile() of {how} on a reused compiler object leaves macro_resolution_order of the previous file " \
                f"({detail['after_history']['macro_order']} instead of {detail['alone']['macro_order']}): the attribute is not among those reset at the top of compile()", detail
        if last.get("slot") and "error" in got["summary"] and "error" not in ref["summary"]:
            return "reused_compiler_raises_where_fresh_compiles", \
                f"compile() on a compiler object that has compiled {len([c for c in calls[:-1] if c['kind'] == 'compile'])} file(s) before raises {got['summary']['error']} " \
                f"({got['summary'].get('msg', '')[:160]!r}) for a file that a fresh compiler object compiles", detail
        if last.get("slot"):
            return "reused_compiler_result_differs", f"compile() on a reused compiler object differs from a fresh object in {'/'.join(fd)}", detail
        return "compile_result_depends_on_history", f"compile result ({'/'.join(fd)}) differs after a history of {len(calls) - 1} call(s)", detail
    return "result_depends_on_history", f"{kind_l}: {'/'.join(fd)}", detail


# ----------------------------------------------------------------------------------------------------------------------
# ties of the small models
# ----------------------------------------------------------------------------------------------------------------------
def tie_compiler_model(run: core.Run, drv: core.Driver) -> dict:
    facts = fresh.run_fresh("harness.impl_cache:compiler_attr_facts", None, timeout=60)
    model = drv.batch([{"op": "cache.compiler"}])[0]
    out = {"source": facts, "model": model, "ok": True}
    if fresh.failed(facts) or "error" in model:
        run.broken_tie("compiler-object model: cannot read the current source / model", out)
        out["ok"] = False
        return out
    reset, late, ctor = set(model["reset"]), set(model["late"]), set(model["ctor"])
    problems = []
    if set(facts["top_of_compile"]) != reset:
        problems.append(f"attributes reset at the top of compile(): source {sorted(facts['top_of_compile'])}, model {sorted(reset)}")
    assigned = set(facts["assigned_in_compile"]) | set(facts["mutated_in_place"])
    if assigned != reset | late:
        problems.append(f"attributes compile() writes: source {sorted(assigned)}, model {sorted(reset | late)}")
    if set(facts["init"]) != reset | late | ctor:
        problems.append(f"attributes of __init__: source {sorted(facts['init'])}, model {sorted(reset | late | ctor)}")
    if problems:
        out["ok"] = False
        out["problems"] = problems
        run.broken_tie("correspondence C11: compiler-object model and ssb_compiler.py disagree: " + "; ".join(problems), out)
    return out


def tie_indent_model(run: core.Run, drv: core.Driver) -> dict:
    r = run.rng
    cases = []
    pool = [5, -3, {"fx": "1.5"}, {"c": "CONST"}, {"s": "a"}, {"s": "line1\nline2"}, {"ls": [["english", "Hi"], ["german", "x\ny"]]}, {"pm": ["m", 0, 2, 1, 2]}]
    for _ in range(60):
        ps = []
        for _ in range(r.randint(0, 4)):
            p = copy.deepcopy(r.choice(pool))
            if isinstance(p, dict) and ("s" in p or "ls" in p):
                p["indent"] = r.choice([0, 0, 1, 4])
            ps.append(p)
        cases.append({"params": ps, "indent": r.choice([0, 1, 2, 7])})
    impl = fresh.run_fresh("harness.impl_cache:print_param_cases", cases, timeout=60)
    if fresh.failed(impl) or not isinstance(impl, list):
        run.broken_tie("indent model: the real writer method could not be run", {"impl": impl})
        return {"ok": False}
    reps = drv.batch([{"op": "cache.indent", "params": c["params"], "sel": [[i, c["indent"]] for i in range(len(c["params"]))]} for c in cases])
    bad = 0
    for c, a, b in zip(cases, impl, reps):
        model_after = b.get("params")
        if model_after != a["after"] or not b.get("same_meaning") or not b.get("py_eq") or not all(a["eq"]) or not all(a["attrs_same"]):
            bad += 1
            if bad <= 2:
                if not all(a["eq"]) or not all(a["attrs_same"]):
                    run.violation("printing_changes_parameter", "printing a parameter changed an attribute other than indent / made it unequal to itself", {"case": c, "impl": a})
                else:
                    run.broken_tie("correspondence C11: indent model and _single_param_to_string disagree", {"case": c, "impl": a, "model": b})
    changed = sum(1 for c, a in zip(cases, impl) if any(isinstance(p, dict) and p.get("indent") != q.get("indent") for p, q in zip(c["params"], a["after"]) if isinstance(q, dict)))
    return {"ok": bad == 0, "cases": len(cases), "cases_where_indent_changed": changed}


# ----------------------------------------------------------------------------------------------------------------------
def run(run: core.Run) -> int:
    quick = run.tier == "quick"
    n_hist, maxlen, per_session, n_prog = (100, 6, 10, 30) if quick else (5000, 20, 25, 160)
    n_instr = 4 if quick else 40
    jobs = core.jobs_for(run.tier)
    stamp0 = fresh.tree_stamp()
    inv = shared_inventory.inventory(core.REPO)
    shared_inventory.write_lean(inv)
    prep = core.lean_prepare(MODULES)
    aud = core.audit(THEOREMS, MODULES) if prep["proofs_ok"] else {"obligations": len(THEOREMS), "discharged": 0, "ok": False, "theorems": {}}
    drv = core.Driver() if prep["driver_ok"] else None
    ties: dict = {}
    if drv is not None:
        ties["compiler_model"] = tie_compiler_model(run, drv)
        ties["indent_model"] = tie_indent_model(run, drv)

    pinned: list[str] = []
    inv_new: list[str] = []
    inv_gone: list[str] = []
    if drv is not None:
        pinned, inv_new, inv_gone = shared_inventory.diff_with_pinned(drv, inv)
        if inv_new or inv_gone:
            run.broken_tie("static inventory C11: the process-wide state the current source can write (mutable default arguments, module/class-level objects mutated by functions, "
                           f"globals, interpreter settings) differs from the list the history model is built over (lean/ESV/Cache/Shared.lean): new {inv_new}, no longer present {inv_gone}",
                           {"new": inv_new, "gone": inv_gone})
    pools, refs, stats = build_pools(run, jobs, n_prog)
    # fresh processes against each other: EVERY reference call again under other hash seeds (explicit 1, and random); results must be identical
    set_like_new = [x for x in inv_new if x.startswith(("set-iteration|", "identity-key|"))]
    seeds = ["1", "random"] + (["2", "3", "4", "5", "random", "random"] if set_like_new else [])
    stats["hash_seeds_compared_with_seed_0"] = len(seeds)
    keys = [k for k, r0 in refs.items() if not r0.get("no_answer") and k in pools.ref_calls]
    single = [k for k in keys if refs[k]["summary"].get("error") == "ParseError"]          # (their MESSAGE depends on earlier parses: run alone)
    batched = [k for k in keys if k not in set(single)]
    tasks, owners = [], []
    for hs in seeds:
        order = list(batched)
        run.rng.shuffle(order)
        for i in range(0, len(order), 8):
            ks = order[i:i + 8]
            tasks.append((SESSION, {"calls": [alone(pools.ref_calls[k]) for k in ks]}, hs)); owners.append((hs, ks))
        for k in single:
            tasks.append((SESSION, {"calls": [alone(pools.ref_calls[k])]}, hs)); owners.append((hs, [k]))
    # … and under other working directories (seed 0): every reference call in the decoy directory; project files also from their project root
    cwds = cwd_variants()
    n_seed_tasks = len(tasks)
    order = list(batched)
    for i in range(0, len(order), 8):
        ks = order[i:i + 8]
        tasks.append((SESSION, {"calls": [alone(pools.ref_calls[k]) for k in ks], "cwd": cwds["decoy"]}, "0")); owners.append(("cwd:decoy", ks))
    for k in keys:
        c0 = pools.ref_calls[k]
        if c0.get("project"):
            tasks.append((SESSION, {"calls": [alone(c0)], "cwd": {"project": c0["project"]}}, "0")); owners.append(("cwd:project-root", [k]))
    stats["working_directory_runs"] = len(tasks) - n_seed_tasks
    suspects: dict[str, str] = {}
    for (hs, ks), x in zip(owners, fresh.run_fresh_many(tasks, jobs, timeout=180)):
        if fresh.failed(x) or "results" not in x:
            stats["seed_runs_without_answer"] += 1
            continue
        for k, row in zip(ks, x["results"]):
            stats["fresh_vs_fresh"] += 1
            if row["digest"] != refs[k]["digest"]:
                suspects.setdefault(k, hs)
    for k, hs in list(suspects.items())[:10]:
        call = alone(pools.ref_calls[k])
        if hs.startswith("cwd:"):
            variants = {"default": None, "decoy": cwds["decoy"], "base": cwds["base"]}
            if call.get("project"):
                variants["project-root"] = {"project": call["project"]}
            outs_w = {nm: run_calls([call], full="all", cwd=cw) for nm, cw in variants.items()}
            digs_w = {nm: (x["results"][0]["digest"] if not fresh.failed(x) and "results" in x else "no-answer") for nm, x in outs_w.items()}
            if len(set(digs_w.values())) > 1:
                fulls = [x["results"][0].get("full", {}) for x in outs_w.values() if not fresh.failed(x) and "results" in x]
                a0 = fulls[0]
                other = next((f for f in fulls if digest_of(f) != digest_of(a0)), a0)
                fd = field_diff(a0, other)
                summ = {nm: (x["results"][0]["summary"].get("error") or "ok") + ":" + x["results"][0]["digest"][:6] for nm, x in outs_w.items() if not fresh.failed(x) and "results" in x}
                run.violation("result_depends_on_working_directory",
                              f"{call['kind']} of the same input (same text, file name and lookup paths {call.get('project', {}).get('lookup_rel')}) alone in fresh processes gives different "
                              f"{'/'.join(fd) or 'results'} depending on the process's working directory: {summ}",
                              {"history": [call], "observed_call": call, "working_directories": {nm: cw for nm, cw in variants.items()}, "digests": digs_w, "fields": fd,
                               "how_to_replay": "./check C11 --replay <this file>: runs the call alone in fresh processes started in each of the working directories"})
            else:
                run.violation("result_differs_between_fresh_processes", "a call gave another result in a fresh process started in another working directory next to other calls, but not alone",
                              {"history": [call], "cwd": hs})
            continue
        alone_runs = fresh.run_fresh_many([(SESSION, {"calls": [call], "full": "all"}, sd) for sd in ("0", "1", "2", "3", "4", "5")], jobs, timeout=120)
        digs = {sd: (x["results"][0]["digest"] if not fresh.failed(x) and "results" in x else "no-answer") for sd, x in zip(("0", "1", "2", "3", "4", "5"), alone_runs)}
        if len(set(digs.values())) > 1:
            groups: dict[str, list[str]] = {}
            for sd, dg in digs.items():
                groups.setdefault(dg, []).append(sd)
            fulls = {x["results"][0]["digest"]: x["results"][0].get("full", {}) for x in alone_runs if not fresh.failed(x) and "results" in x}
            two = list(fulls.values())[:2]
            fd = field_diff(two[0], two[1]) if len(two) == 2 else []
            what = (f"{call['kind']} of the same input alone in fresh processes gives different {'/'.join(fd) or 'results'} depending on PYTHONHASHSEED "
                    f"(seeds grouped by result: {sorted(groups.values())})")
            if call.get("project"):
                what += f"; file {call['project']['main']} of a project whose imports are {[ln for ln in call['text'].splitlines() if ln.startswith('import')]}"
            run.violation("result_depends_on_hash_seed", what,
                          {"history": [call], "observed_call": call, "hash_seeds": digs, "fields": fd,
                           "values": {sd: {f: x["results"][0].get("full", {}).get(f) for f in fd[:3]} for sd, x in zip(("0", "1", "2", "3", "4", "5"), alone_runs) if not fresh.failed(x) and "results" in x},
                           "how_to_replay": "./check C11 --replay <this file>: runs the call alone in fresh processes with PYTHONHASHSEED=0..5 and compares"})
        else:
            run.violation("result_differs_between_fresh_processes", f"a call gave another result in a fresh process with PYTHONHASHSEED={hs} next to other calls, but not alone",
                          {"history": [call], "hashseed": hs})

    # histories -> sessions
    witnesses = witness_histories(pools)
    hists = [gen_any_history(run.rng, pools, refs, maxlen, h) for h in range(n_hist)]
    # failing-input search when a model tie is broken: more histories of the shape that exercises the modelled code
    targeted = 0
    if ties.get("indent_model") and not ties["indent_model"].get("ok"):
        hists += [hist_shared_objects(run.rng, pools, 100000 + h) for h in range(40)] + [hist_compiled_objects(run.rng, pools, refs, 110000 + h) for h in range(20)]
        targeted += 60
    if ties.get("compiler_model") and not ties["compiler_model"].get("ok") and pools.graphs:
        hists += [hist_import_graph(run.rng, pools, 120000 + h) for h in range(40)] + [gen_history(run.rng, pools, maxlen, 130000 + h) for h in range(20)]
        targeted += 60
    # … and when the static inventory names new shared state: histories over the functions / modules the new entries are in
    new_files = {x.split("|")[1] for x in inv_new if len(x.split("|")) > 1}
    if any(f.startswith("cli") for f in new_files):
        hists += [hist_cli_direct(run.rng, pools, 140000 + h) for h in range(40)] + [hist_cli_after_api(run.rng, pools, 150000 + h) for h in range(15)]
        targeted += 55
    if any("compiler" in f or f.startswith("macro") or "ssb_compiler" in f or f.startswith("antlr") for f in new_files) and pools.graphs:
        hists += [hist_import_graph(run.rng, pools, 160000 + h) for h in range(30)] + [gen_history(run.rng, pools, maxlen, 170000 + h) for h in range(20)]
        targeted += 50
    if any("decompiler" in f or "ssb_data_types" in f or "ssb_special_ops" in f or "ssb_script" in f for f in new_files):
        hists += [hist_shared_objects(run.rng, pools, 180000 + h) for h in range(25)] + [gen_history(run.rng, pools, maxlen, 190000 + h) for h in range(35)]
        targeted += 60
    stats["targeted_histories_after_broken_tie"] = targeted
    sessions: list[dict] = [{"name": "witness:" + nm, "calls": calls} for nm, calls in witnesses]
    for i in range(0, len(hists), per_session):
        sessions.append({"name": f"generated:{i}", "calls": [c for h in hists[i:i + per_session] for c in h]})
    for s in sessions:
        s["instrument"] = False
    instr_ids = list(range(len(witnesses))) + run.rng.sample(range(len(witnesses), len(sessions)), min(n_instr, len(sessions) - len(witnesses)))
    instr_sessions = [dict(copy.deepcopy(sessions[i]), instrument=True) for i in instr_ids]
    all_sessions = sessions + instr_sessions
    for i, s_ in enumerate(all_sessions):
        s_["cwd"] = cwds["decoy"] if i % 3 == 1 else None          # a third of the long-lived processes runs in the decoy working directory
    outs = fresh.run_fresh_many([(SESSION, dict({"calls": s["calls"], "instrument": s["instrument"]}, **({"cwd": s["cwd"]} if s["cwd"] else {}))) for s in all_sessions],
                                jobs, timeout=1200 if not quick else 300)

    n_calls = Counter()
    outcome = Counter()
    found: dict[str, dict] = {}
    buckets: Counter = Counter()
    input_changed = 0
    indent_changes = 0
    reuse_signs = 0
    for s, x in zip(all_sessions, outs):
        if fresh.failed(x) or "results" not in x:
            stats["sessions_without_answer"] += 1
            # rerun once, alone
            x = run_calls(s["calls"], instrument=s["instrument"], timeout=1200)
            if fresh.failed(x) or "results" not in x:
                run.violation("no_answer_after_history", f"a session of {len(s['calls'])} calls gives no answer ({json.dumps(x)[:100]}) although every call answers alone", {"calls": s["calls"][:60]})
                continue
        s["out"] = x
        prev_nonempty = 0
        for i, (c, row) in enumerate(zip(s["calls"], x["results"])):
            n_calls[c["kind"] + ("+slot" if c.get("slot") else "")] += 1
            if x["memo"][i] is not None:
                if x["memo"][i]["non_empty"] < prev_nonempty:
                    reuse_signs += 1          # a table that was left non-empty has been cleared: a new graph got the id
                prev_nonempty = x["memo"][i]["non_empty"]
            if not observed(c):
                continue
            outcome[("error:" + row["summary"]["error"]) if "error" in row["summary"] else ("fallback" if row["summary"].get("fallback") else "ok")] += 1
            if row.get("input_same") is False:
                input_changed += 1
                run.violation("input_meaning_changed_by_decompile", "the caller's routine set differs (beyond indent) after convert()", {"calls": s["calls"][: i + 1][-3:]})
            indent_changes += row.get("indent_changed", 0)
            if row.get("ctor_changed"):
                stats["compile_calls_that_changed_constructor_state"] += 1
                if stats["compile_calls_that_changed_constructor_state"] == 1:
                    run.broken_tie("correspondence C11: compile() changed the object's constructor state (lookup_paths / recursion_check / perf. variable name), "
                                   "which the compiler-object model (compile_ctor) says it never does", {"calls": [{k: v for k, v in x.items() if k != "project"} for x in s["calls"][: i + 1][-3:]]})
            ref = refs.get(spec_key(c))
            if ref is None or ref.get("no_answer"):
                continue
            stats["calls_compared"] += 1
            if row["digest"] != ref["digest"]:
                stats["differences"] += 1
                # one bucket per shape of difference (kind of call, reused object?, how the two outcomes look); two
                # representatives of every bucket are shrunk and diagnosed, so that a rare kind is not hidden behind a frequent one
                shape = (c["kind"], bool(c.get("slot")), ref["summary"].get("error"), row["summary"].get("error"), ref["summary"].get("fallback"), row["summary"].get("fallback"),
                         "is-ssb-script" in (c.get("text") or "")[:40])
                buckets[shape] += 1
                sig = json.dumps(shape) + "|" + str(min(buckets[shape], 2))
                if sig not in found and len(found) < (12 if quick else 40) and not s["instrument"]:
                    found[sig] = {"calls": s["calls"][: i + 1], "ref": ref, "session": s["name"], "cwd": s.get("cwd")}
    # shrink + diagnose + report
    for sig, f in found.items():
        calls = f["calls"]
        SESSION_CWD[0] = f.get("cwd")
        if not differs(calls, f["ref"]["digest"]):
            stats["differences_not_reproduced"] += 1      # allocator-dependent (id reuse): report the unshrunk history
            kind, what, detail = "result_depends_on_history_unreproducible", "a difference seen once did not reappear when the same history was rerun in a new process", {}
            small = calls[-8:]
        else:
            small = shrink(calls, f["ref"]["digest"], 16 if quick else 30)
            if len(small) == 1 and f.get("cwd"):
                kind, what, detail = ("result_depends_on_working_directory", f"{small[0]['kind']} alone in a fresh process started in another working directory (a directory with decoy files under the "
                                      "names of the lookup paths) gives another result than in the default working directory", {"working_directories": {"default": None, "decoy": f["cwd"]}})
            else:
                kind, what, detail = diagnose(small, f["ref"])
        stats["kind:" + kind] += 1
        run.violation(kind, what, {"history": small, "observed_call": small[-1], "alone_digest": f["ref"]["digest"], "detail": detail, "session": f["session"],
                                   "how_to_replay": "./check C11 --replay <this file>: runs `history` in one fresh process and the last call alone in another"})

    SESSION_CWD[0] = None
    # trace validation of the instrumented sessions
    tv = Counter()
    seg_stats = Counter()
    stale_total: Counter = Counter()
    stale_examples: list = []
    if drv is not None:
        models = []
        for s in instr_sessions:
            if "out" not in s or "events" not in s["out"]:
                continue
            m = cachehist.to_model(s["out"]["events"])
            m["name"] = s["name"]
            m["inst_problems"] = s["out"].get("problems", [])
            models.append(m)
        reps = drv.batch([cachehist.replay_request(m) for m in models]) if models else []
        for m, rep in zip(models, reps):
            tv["histories_replayed"] += 1
            tv["ops"] += len(m["ops"])
            tv["unhooked_mutations"] += 0
            if "error" in rep:
                run.broken_tie("trace validation C11: the driver rejected a recorded history", {"session": m["name"], "error": rep["error"]})
                continue
            bad = cachehist.compare_outs(m, rep["outs"]) + m["problems"] + m["inst_problems"]
            if bad:
                tv["histories_disagreeing"] += 1
                if tv["histories_disagreeing"] <= 2:
                    run.broken_tie("trace validation C11: the memo machine and the recorded run of graph_utils disagree: " + bad[0],
                                   {"session": m["name"], "first": bad[:5], "ops_head": m["ops"][:40]})
            tv["sections_compared"] += sum(1 for o in m["ops"] if o[0] in ("lookup", "store"))
            for si, seg in enumerate(rep["segments"]):
                seg_stats["calls"] += 1
                for k in ("disciplined", "isolated", "alloc_cleared", "tidy", "guarded"):
                    seg_stats[k] += bool(seg[k])
                seg_stats["dirty_prefix"] += bool(seg["dirty_before"])
                if not seg["guarded"] or (not seg["isolated"] and seg["dirty_before"]):
                    # neither `call_independent_of_memo` (Isolated) nor `tidy_prefix_then_fresh` (Tidy prefix, Guarded) covers this call
                    seg_stats["not_covered_by_a_theorem"] += 1
                    if seg_stats["not_covered_by_a_theorem"] <= 2:
                        run.broken_tie("trace validation C11: a real convert() queries the memo table of a graph before clearing it while earlier calls left tables non-empty "
                                       "(the call is neither Isolated nor preceded by a Tidy history: no theorem of ESV.C11 covers it)",
                                       {"session": m["name"], "call_index": si, "verdicts": seg})
            sr = cachehist.stale_report(m)
            stale_total.update(sr["counts"])
            stale_examples += sr["examples"][:2]
    if fresh.tree_stamp() != stamp0:
        raise core.Infra("the files under " + core.REPO + "/explorerscript changed while the check was running: references and sessions saw different trees; run again")
    if not prep["proofs_ok"] or not aud["ok"] or drv is None:
        run.broken_tie("Lean obligations of C11 do not check (build/audit)", {"theorems": THEOREMS, "log": prep["log"][-3000:], "audit": aud})

    cleanup_projects()
    if (inv_new or inv_gone) and pinned:
        shared_inventory.write_lean(pinned)          # keep the checkout buildable after a run on a changed tree
    no_driver = [f for f in pools.cli_public if f not in ("decompile.read_ops", "decompile.read_routines", "decompile.parse_pos_mark_arg", "compile.build_ops",
                                                          "compile.build_routines_json", "cli.check_settings")]
    if no_driver:
        run.notes.append("public CLI functions without a history driver (extend impl_cache.do_call 'cli_fn'): " + ", ".join(no_driver))
    sample_hist = [[{k: (v if k not in ("rs", "text", "routines", "project", "ops") else "…") for k, v in c.items()} for c in h] for h in hists[:2]]
    cov = core.proof_coverage(run, prep, aud, MODULES, THEOREMS, {
        "explanation": "Kernel-checked theorems about the memo-table protocol under all histories (K3 model); the model is tied to graph_utils.py by replaying "
                       "recorded real histories through the Lean machine; the property itself is explored on the real code: each call's result after a generated "
                       "history in a long-lived process is compared byte for byte with the same call alone in a fresh process. Whether CPython recycles an id in a "
                       "given run is runtime behaviour: explored (allocation churn, gc), not proved.",
        "evaluations": int(stats["calls_compared"]), "distinct_nontrivial": len({spec_key(c) for s in sessions for c in s["calls"] if observed(c)}),
        "rule": "histories of compile / decompile / CLI / gc / allocation-churn calls drawn from pools (generated programs, their compiled routine sets, sets whose "
                "structured decompilation is abandoned midway, switch-first sets that query before clearing, broken sets, failing sources, fixtures with imports, "
                "one compiler object reused, convert() repeated); evaluations = observed calls compared with their fresh-process reference; non-trivial = distinct call inputs",
        "samples": sample_hist, "histories": len(hists), "sessions": len(sessions), "instrumented_sessions": len(instr_sessions),
        "calls_by_kind": dict(n_calls), "outcomes": dict(outcome), "stats": dict(stats),
        "difference_shapes": {json.dumps(k): v for k, v in buckets.items()},
        "pool_sizes": {k: len(getattr(pools, k)) for k in ("texts", "bad_texts", "rs", "rs_abort", "rs_switch", "rs_broken", "cli", "cd", "graphs", "rs_ml", "cli_build", "cli_fn", "cold_cd", "cold_rs")},
        "cli_public_functions": pools.cli_public, "shared_state_inventory": {"entries": len(inv), "new": inv_new, "gone": inv_gone},
        "indent_attributes_changed_by_convert": indent_changes, "caller_ops_changed_in_meaning": input_changed,
        "memo_tables_reclaimed_by_new_graphs (id reuse observed, uninstrumented)": reuse_signs,
        "traces_validated_against_impl": int(tv["histories_replayed"]), "trace_validation": dict(tv), "calls_by_lean_verdict": dict(seg_stats),
        "real_staleness_oracle": dict(stale_total), "stale_examples": stale_examples[:4], "model_ties": ties,
    })
    return run.finish("other", cov, [
        "CPython: id(x) is unique among live objects; a dead object's id may be reused (which ids are reused in a run is not modelled)",
        "the graph search `_impl` is a parameter of the model (function of graph content, key and the other arguments)",
        "the ANTLR runtime's shared DFA caches are outside the model: covered by the byte-for-byte comparison only",
        "file system and environment are constant during a run",
    ])


def replay(run: core.Run, path: str) -> int:
    data = json.load(open(path))
    rp = data["replay"]
    calls = rp["history"]
    if "working_directories" in rp:
        digs = {}
        for nm, cw in rp["working_directories"].items():
            x = run_calls(calls, cwd=cw)
            digs[nm] = x["results"][-1]["digest"] if not fresh.failed(x) else "no-answer"
        cleanup_projects_of(calls)
        if len(set(digs.values())) > 1:
            print("VIOLATION-REPLAY", data.get("kind"), digs)
            return 1
        print("REPLAY: equal results in every working directory")
        return 0
    if "hash_seeds" in rp:
        outs = [run_calls(calls, full="all") if sd == "0" else fresh.run_fresh(SESSION, {"calls": calls}, 120, sd) for sd in ("0", "1", "2", "3", "4", "5")]
        digs = [x["results"][-1]["digest"] if not fresh.failed(x) else "no-answer" for x in outs]
        if len(set(digs)) > 1:
            print("VIOLATION-REPLAY", data.get("kind"), "digests under PYTHONHASHSEED=0..5:", digs)
            cleanup_projects_of(calls)
            return 1
        print("REPLAY: equal results under PYTHONHASHSEED=0..5")
        cleanup_projects_of(calls)
        return 0
    ref = run_calls([alone(calls[-1])], full="all")
    got = run_calls(calls, full=[len(calls) - 1])
    if fresh.failed(ref) or fresh.failed(got):
        print("REPLAY: no answer", json.dumps(ref)[:200], json.dumps(got)[:200])
        return 1
    a, b = got["results"][-1], ref["results"][0]
    if a["digest"] != b["digest"]:
        print("VIOLATION-REPLAY", data.get("kind"), "fields differing:", field_diff(a.get("full", {}), b.get("full", {})))
        return 1
    print("REPLAY: results equal (the difference depends on the allocator recycling an id; rerun)")
    return 0
