"""C17 — the highlighting lexer is total and loses no text.
Deciding method: Lean theorems ESV.C17.* about the model ESV/Pyg/Model.lean (Pygments' Lexer.get_tokens preprocessing,
the RegexLexer loop, one matcher per regex of the regenerated rule table).  The model is tied to
explorerscript/pygments/expslexer.py + the installed pygments + Python `re` on every run by
  (a) exact comparison of the (token type, text) lists of get_tokens and get_tokens_unprocessed on generated texts,
  (b) a unit channel comparing every rule's compiled regex object with the Lean matcher at random positions,
  (c) table lemmas (`rules_known`, `cover_ok`, `opts_known`) over the regenerated ESV.Gen tables.
The property oracle is an independent reading of the statement on the real lexer's output."""
from __future__ import annotations

import itertools
import json
import os
import random
import re
from typing import Any

from .. import core

MODULES = ["ESV.Props.C17"]
THEOREMS = [
    "ESV.C17.rules_known", "ESV.C17.cover_ok", "ESV.C17.opts_known",
    "ESV.C17.lex_total", "ESV.C17.lex_concat", "ESV.C17.lex_no_error",
    "ESV.C17.get_tokens_total", "ESV.C17.get_tokens_concat", "ESV.C17.get_tokens_no_error",
    "ESV.C17.preprocess_spec", "ESV.C17.preprocess_clean",
    "ESV.C17.no_text_lost_partial", "ESV.C17.no_text_lost_iff",
    "ESV.C17.no_text_lost_counterexample_leading_newline", "ESV.C17.no_text_lost_counterexample_trailing_newlines",
    "ESV.C17.no_text_lost_counterexample_crlf", "ESV.C17.no_text_lost_counterexample_bom",
    "ESV.C17.highlighting_lexer_partial", "ESV.C17.highlighting_lexer_counterexample",
    "ESV.Pyg.matchRegex_bounded", "ESV.Pyg.lexFuel_concat", "ESV.Pyg.lexFuel_total", "ESV.Pyg.lexFuel_no_error", "ESV.Pyg.prep0_spec",
]

# witnesses of the Lean `_counterexample` theorems (replayed on the real lexer on every run) and boundary inputs
WITNESSES = ["\n\nabc", "abc\n\n", "a\r\nb", "\ufeffabc", "a\rb", "\n", "", "abc", "abc\n", "\r", "\n\n", "\ufeff", "\ufeff\ufeffa"]
KNOWN_KINDS = ["leading_newline_stripped", "trailing_newlines_stripped", "carriage_return_normalised", "bom_stripped"]
ERROR_TYPE = "Token.Error"
ISOLATE_MAX = 24

EXH_ALPHABET = ['"', "'", "/", "*", "\n", "a", "5", "."]

KEYWORDS_SAMPLE = ["if", "menu", "menu2", "for", "for_actor", "forever", "def", "default", "break", "break_loop", "else", "elseif",
                   "TRUE", "FALSE", "actor", "value", "dungeon_mode", "end", "not", "init", "scn", "import", "coro", "macro"]
GLUE = ["x", "_", "2", "é", "٣", "５", "²", "ß", "Ω", "中", "·", "ⅷ"]
PIECES = (['"', "'", '"""', "'''", "/", "*", "/*", "*/", "//", "\n", "\n", "\r", "\r\n", " ", "\t", "\\", "\\\"", "\\'",
           "5", ".5", "x5", "\n5", "0", "1", "7", "8", "9", "017", "017j", "08", "0j", "0b", "0b101", "0B2", "0x", "0x1F", "0Xg", "0o7", "12", "٣", "５", "²", "½",
           "§", "$", "@", "§a", "$v", "@l", "§1", "$_", "@é", "_", "a", "b", "j", "x", "B", "X", "é", "ß", "Ω", "中", "😀", "\ufeff", "\x00", "\x85", " ", "\x0b", "\x0c", "\x1c",
           ";", "(", ")", "{", "}", "<", ">", ",", "-", "~", "=", "."] + KEYWORDS_SAMPLE)


def gen_text(r: random.Random) -> str:
    c = r.random()
    if c < 0.55:      # pieces of the lexer's alphabet
        n = r.choice([0, 1, 2, 3, 4, 5, 6, 8, 10, 14, 20, 40])
        return "".join(r.choice(PIECES) for _ in range(n))
    if c < 0.70:      # keywords glued to identifier characters / word characters (\b, Unicode \w)
        out = []
        for _ in range(r.randint(1, 5)):
            k = r.choice(KEYWORDS_SAMPLE)
            m = r.random()
            if m < 0.3:
                out.append(k + r.choice(GLUE))
            elif m < 0.5:
                out.append(r.choice(GLUE) + k)
            elif m < 0.6:
                out.append(k + k)
            else:
                out.append(k)
            out.append(r.choice(["", " ", "\n", "(", ";", ".", "5", "\"", "é"]))
        return "".join(out)
    if c < 0.85:      # quote / comment nesting stress
        n = r.choice([1, 2, 3, 5, 8, 13, 30])
        al = r.choice([['"', "'", "\n", "a"], ['"', '"""', "'", "'''", "\n", "x", " "], ["/*", "*/", "//", "\n", '"', "'", "a", "*", "/"],
                       ['"""', '"', "\n"], ["'''", "'", "\n", "//"], ["/", "*", "\n"]])
        return "".join(r.choice(al) for _ in range(n))
    if c < 0.95:      # arbitrary Unicode scalar values
        n = r.choice([1, 2, 3, 6, 12])
        out = []
        for _ in range(n):
            m = r.random()
            if m < 0.3:
                cp = r.randint(0, 0x7F)
            elif m < 0.6:
                cp = r.randint(0x80, 0x7FF)
            elif m < 0.85:
                cp = r.randint(0x800, 0xFFFF)
            else:
                cp = r.randint(0x10000, 0x10FFFF)
            if 0xD800 <= cp <= 0xDFFF:
                cp = 0xE000
            out.append(chr(cp))
        return "".join(out)
    # leading / trailing newlines, CR, BOM around something
    core_t = "".join(r.choice(PIECES) for _ in range(r.randint(0, 4)))
    return r.choice(["", "\n", "\n\n", "\r", "\r\n", "\ufeff", "\ufeff\n"]) + core_t + r.choice(["", "\n", "\n\n", "\r", "\r\n", "\n\r", "\n\n\n"])


def long_texts(r: random.Random) -> list[str]:
    """a few long inputs (termination / fuel / stack depth)"""
    return [
        "/*" * 1500, "/*" * 1000 + "*/", '"' * 3001, "'''" * 700 + "\n" + '"""' * 700, "a" * 20000, "5" * 5000 + "\n" * 50,
        ("if x /* c */ \"s\" 'q' // l\n" * 400), "//" * 1000, "".join(r.choice(PIECES) for _ in range(4000)),
        "\n" * 3000 + "a" + "\n" * 3000, "\r\n" * 2000, ".5" * 3000, "0" * 3000 + "7j" * 100,
    ]


# ---- accepted programs ------------------------------------------------------------------------------------------------
def repo_sources() -> list[dict]:
    out = []
    for base in ("tests/fixtures", "example"):
        for dp, _dn, fns in os.walk(os.path.join(core.REPO, base)):
            for fn in sorted(fns):
                if fn.endswith(".exps"):
                    p = os.path.join(dp, fn)
                    try:
                        out.append({"src": open(p, encoding="utf-8").read(), "file": p, "origin": "repo:" + os.path.relpath(p, core.REPO)})
                    except Exception:
                        pass
    # code blocks of the documentation (what the lexer is used for by Sphinx); fragments are also wrapped in a routine
    docs = os.path.join(core.REPO, "docs")
    if os.path.isdir(docs):
        for fn in sorted(os.listdir(docs)):
            if not fn.endswith(".rst"):
                continue
            lines = open(os.path.join(docs, fn), encoding="utf-8").read().split("\n")
            i = 0
            k = 0
            while i < len(lines):
                if re.match(r"^\s*\.\. code(-block)?:: *(ExplorerScript|exps|explorerscript)\s*$", lines[i]):
                    ind = len(lines[i]) - len(lines[i].lstrip())
                    j = i + 1
                    blk = []
                    while j < len(lines) and (not lines[j].strip() or len(lines[j]) - len(lines[j].lstrip()) > ind):
                        blk.append(lines[j])
                        j += 1
                    body = [b for b in blk if b.strip()]
                    if body:
                        m = min(len(b) - len(b.lstrip()) for b in body)
                        text = "\n".join(b[m:] for b in blk).strip("\n") + "\n"
                        out.append({"src": text, "file": None, "origin": f"docs:{fn}#{k}"})
                        out.append({"src": "def 0 {\n" + text + "}\n", "file": None, "origin": f"docs:{fn}#{k}:wrapped"})
                        k += 1
                    i = j
                else:
                    i += 1
    return out


STR_BODIES = ["", "a", "Hello World", "it's", "say \\\"hi\\\"", "back\\\\slash", "ünï 中文 😀", "/* not a comment */", "// neither", "if else def", "§x $y @z",
              "5.5", "x5", "tab\\tnew\\nline", "%d [CN]", "'''", "a'b'c"]
SQ_BODIES = ["", "a", "it\\'s", 'say "hi"', '"""', "ünï", "/* x */", "0x1F"]
NUMS = ["0", "1", "5", "15", "255", "0x1F", "0XaB", "0b101", "0B1", "0o17", "00", "1.5", "0.5", "-3", "-1.25", "35.5", "5"]
IDENTS = ["CONST", "ACTOR_NPC", "x5", "if_x", "menu3", "_a", "A1", "breakfast", "format", "TRUEx", "value1"]


def gen_program(r: random.Random) -> str:
    def s() -> str:
        if r.random() < 0.7:
            return '"' + r.choice(STR_BODIES) + '"'
        return "'" + r.choice(SQ_BODIES) + "'"

    def arg() -> str:
        c = r.random()
        if c < 0.3:
            return s()
        if c < 0.6:
            return r.choice(NUMS)
        if c < 0.75:
            return r.choice(IDENTS)
        if c < 0.85:
            return "$" + r.choice(["v", "SCENARIO_MAIN", "x5", "_q"])
        return f"Position<{s()}, {r.choice(['1', '10', '2.5', '0'])}, {r.choice(['3', '10.5', '0'])}>"

    def ws() -> str:
        return r.choice([" ", " ", "\n    ", " /* c */ ", " // line\n    ", "\t", "  ", " /* \"q\" */ ", " /* ' */ ", " // it's\n", " /**/ "])

    def op() -> str:
        return f"{r.choice(['foo', 'debug_Print', 'camera_SetMyself', 'x5', 'message_Talk'])}({(',' + ws()).join(arg() for _ in range(r.randint(0, 4)))});"

    def stmt(depth: int) -> str:
        c = r.random()
        if depth > 2 or c < 0.45:
            return op()
        if c < 0.5:
            return f"§{r.choice(['lab', 'l5', '_x'])};"
        if c < 0.55:
            return f"$A {r.choice(['=', '+=', '-=', '*=', '/='])} {r.choice(NUMS[:8] + ['$B', 'CONST'])};"
        if c < 0.6:
            return r.choice(["return;", "end;", "hold;", "clear $D;", "reset dungeon_result;", "init actor;", "adventure_log = 3;", "$E = scn[1, 2];", "dungeon_mode(3) = 1;"])
        body = ws().join(stmt(depth + 1) for _ in range(r.randint(1, 3)))
        if c < 0.75:
            cond = r.choice(["$A == 1", "not $PERFORMANCE_PROGRESS_LIST[2]", "$B[2]", "debug", "edit", "variation", "$A == value($B)", "scn($X) == [1, 2]", "$A & 4"])
            e = f" else {{ {op()} }}" if r.random() < 0.4 else ""
            ei = f" elseif ($Q >= 5) {{ {op()} }}" if r.random() < 0.3 else ""
            return f"if ({cond}) {{{ws()}{body}{ws()}}}{ei}{e}"
        if c < 0.85:
            return f"switch ({r.choice(['$X', 'dungeon_mode(3)', 'scn($X)[0]', 'random(3)', 'sector()'])}) {{ case {r.choice(['1', '0x2', '> 3', '<= 0b11', 'CONST'])}: {body} default: {op()} }}"
        if c < 0.9:
            return f"while ($A < 3) {{ {body} continue; }}"
        if c < 0.95:
            return f"forever {{ {body} break_loop; }}"
        return f"with ({r.choice(['actor', 'object', 'performer'])} {r.choice(['2', 'ACTOR_X'])}) {{ {op()} }}"

    parts = []
    if r.random() < 0.3:
        parts.append(f"macro m({', '.join(r.sample(['$a', '$b', '$c'], r.randint(0, 3)))}) {{{ws()}{stmt(1)}{ws()}}}")
    for i in range(r.randint(1, 3)):
        hdr = r.choice([f"def {i}", f"def {i} for actor {r.choice(['2', 'ACTOR_X'])}", f"def {i} for_actor ({r.randint(0, 9)})", f"def {i} for object 3", f"def {i} for performer(1)"])
        parts.append(f"{hdr} {{{ws()}{ws().join(stmt(0) for _ in range(r.randint(1, 4)))}{ws()}}}")
    if r.random() < 0.3:
        parts.append(f"coro {r.choice(['co', 'MY_CORO', 'c5'])} {{ {op()} }}")
    if r.random() < 0.1:
        parts.append(f"def {len(parts) + 5} {{ alias previous; }}")
    sep = r.choice(["\n", "\n\n", " ", "\n// c\n", "\n/* multi\nline */\n"])
    tail = r.choice(["", "\n", "\n", " ", "// trailing comment without newline", "/* x */"])
    return sep.join(parts) + tail


# ---- independent reading of the property on the implementation's outputs ---------------------------------------------
def classify_loss(t: str, got: str) -> list[str]:
    """names the documented Pygments preprocessing steps that explain `got`; anything else is 'text_lost'"""
    causes = []
    u = t
    if u.startswith("\ufeff"):
        causes.append("bom_stripped")
        u = u[1:]
    if "\r" in u:
        causes.append("carriage_return_normalised")
        u = u.replace("\r\n", "\n").replace("\r", "\n")
    if u.startswith("\n"):
        causes.append("leading_newline_stripped")
        u = u.lstrip("\n")
    if u.endswith("\n\n"):
        causes.append("trailing_newlines_stripped")
        u = u.rstrip("\n") + "\n"
    exp = u if u.endswith("\n") else u + "\n"
    if causes and got == exp:
        return causes
    return ["text_lost"]


def oracle(case: dict, res: Any) -> list[tuple[str, str]]:
    t = case["text"]
    bad: list[tuple[str, str]] = []
    if isinstance(res, dict) and res.get("__skipped__"):
        return []
    if isinstance(res, dict) and res.get("livelock"):
        return [("lexer_livelock", f"the lexer does not terminate on {t[:80]!r}: {res['livelock']} (a rule matches the empty string and the engine does not advance)")]
    if not isinstance(res, dict) or "tokens" not in res:
        if isinstance(res, dict) and res.get("__timeout__"):
            return [("lexer_timeout", f"the lexer did not terminate within the time limit on {t[:80]!r} (len {len(t)})")]
        return [("lexer_exception", f"the lexer raised/died on {t[:80]!r}: {json.dumps(res)[:200]}")]
    got = "".join(v for _ty, v in res["tokens"])
    if got != t and got != t + "\n":
        for kind in classify_loss(t, got):
            bad.append((kind, f"get_tokens({t[:60]!r}): concatenated token texts {got[:60]!r} != input (up to one appended newline)"))
    raw = "".join(v for _ty, v in res["raw"])
    if raw != t:
        bad.append(("raw_text_lost", f"get_tokens_unprocessed({t[:60]!r}): concatenated token texts {raw[:60]!r} != input"))
    else:
        pos = 0
        for i, (_ty, v) in zip(res["raw_idx"], res["raw"]):
            if i != pos:
                bad.append(("raw_index_wrong", f"get_tokens_unprocessed({t[:60]!r}): token start index {i}, expected {pos}"))
                break
            pos += len(v)
    if case.get("accepted"):
        errs = [v for ty, v in res["tokens"] if ty == ERROR_TYPE]
        if errs:
            bad.append(("error_token_in_accepted_source", f"source accepted by the compiler ({case.get('origin')}) lexes with Error token(s) {errs[:3]!r}: {t[:80]!r}"))
    return bad


def has_surrogate(t: str) -> bool:
    return any(0xD800 <= ord(c) <= 0xDFFF for c in t)


class Checker:
    def __init__(self, run: core.Run, jobs: int, lean_ok: bool):
        self.run = run
        self.jobs = jobs
        self.pool = core.Pool(jobs)
        self.drv = core.Driver() if lean_ok else None
        self.n = 0
        self.n_viol = 0
        self.mism = 0
        self.compared = 0
        self.no_answer = 0
        self.stats = {"with_error_token": 0, "tokens": 0, "accepted_sources": 0, "multi_state": 0,
                      "nonascii": 0, "with_cr": 0, "lead_nl": 0, "trail_nl2": 0, "bom": 0, "oracle_only_surrogate": 0, "chars": 0}
        self.kinds: dict[str, int] = {}
        self.distinct: set = set()
        self.nontrivial = 0

    def close(self) -> None:
        self.pool.close()

    def process(self, cases: list[dict], chunk: int = 1500, timeout: float = 120.0) -> None:
        run = self.run
        fresh = []
        for c in cases:
            if c["text"] not in self.distinct or c.get("accepted"):
                fresh.append(c)
                self.distinct.add(c["text"])
        cases = fresh
        if not cases:
            return
        chunks = [cases[i:i + chunk] for i in range(0, len(cases), chunk)]
        outs = self.pool.map("harness.impl_pyg:lex_texts", [[c["text"] for c in ch] for ch in chunks], timeout=timeout)
        results: list[Any] = []
        for ch, o in zip(chunks, outs):
            if isinstance(o, list) and len(o) == len(ch):
                results += o
            elif len(ch) == 1:
                results.append(o)
            else:   # isolate the failing text(s); bounded effort, the failure is reported anyway
                head, tail = ch[:ISOLATE_MAX], ch[ISOLATE_MAX:]
                sub = self.pool.map("harness.impl_pyg:lex_texts", [[c["text"]] for c in head], timeout=min(timeout, 10.0))
                results += [s[0] if isinstance(s, list) and len(s) == 1 else s for s in sub]
                results += [{"__skipped__": True} for _ in tail]
                if tail:
                    self.stats["skipped_after_chunk_failure"] = self.stats.get("skipped_after_chunk_failure", 0) + len(tail)
                    if not any(not (isinstance(s, list) and len(s) == 1) for s in sub):
                        results[-len(tail)] = o   # nothing failed alone: keep the chunk's failure visible
        st = self.stats
        for c, r in zip(cases, results):
            t = c["text"]
            self.n += 1
            st["chars"] += len(t)
            st["nonascii"] += any(ord(ch) > 127 for ch in t)
            st["with_cr"] += "\r" in t
            st["lead_nl"] += t.startswith("\n")
            st["trail_nl2"] += t.endswith("\n\n")
            st["bom"] += t.startswith("\ufeff")
            st["accepted_sources"] += bool(c.get("accepted"))
            if isinstance(r, dict) and "tokens" in r:
                st["tokens"] += len(r["tokens"])
                st["with_error_token"] += any(ty == ERROR_TYPE for ty, _ in r["tokens"] + r["raw"])
                kinds = {ty for ty, _ in r["raw"]}
                if len(kinds) >= 3:
                    self.nontrivial += 1
                st["multi_state"] += "Token.Literal.String" in kinds
            for kind, what in oracle(c, r):
                self.n_viol += 1
                self.kinds[kind] = self.kinds.get(kind, 0) + 1
                run.violation(kind, what, {"channel": "oracle", "case": c, "impl": r if len(json.dumps(r, default=str)) < 4000 else "(large)"})
        if self.drv is None:
            return
        idx = [i for i, c in enumerate(cases) if not has_surrogate(c["text"])]
        st["oracle_only_surrogate"] += len(cases) - len(idx)
        reqs = []
        step = 400
        groups = [idx[i:i + step] for i in range(0, len(idx), step)]
        for g in groups:
            ts = [cases[i]["text"] for i in g]
            reqs.append({"op": "pyg.lex_many", "pre": True, "texts": ts})
            reqs.append({"op": "pyg.lex_many", "pre": False, "texts": ts})
        reps = self.drv.batch_parallel(reqs, self.jobs) if len(reqs) >= 64 else self.drv.batch(reqs)
        for gi, g in enumerate(groups):
            a, b = reps[2 * gi], reps[2 * gi + 1]
            if "results" not in a or "results" not in b:
                self.mism += 1
                run.broken_tie("correspondence C17: Lean driver failed on a batch", {"channel": "lex", "reply": [a, b], "first_text": cases[g[0]]["text"][:200]})
                continue
            for k, i in enumerate(g):
                r = results[i]
                if not (isinstance(r, dict) and "tokens" in r):
                    continue
                self.compared += 1
                if a["results"][k] is None or b["results"][k] is None:
                    self.no_answer += 1
                    if self.no_answer == 1:
                        self.mism += 1
                        run.broken_tie("correspondence C17: the model gives no answer (rule table outside the modelled set: unknown regex / re flag / state action, "
                                       f"or a rule matching the empty string) for {cases[i]['text'][:60]!r}",
                                       {"channel": "lex", "case": cases[i], "impl": r if len(json.dumps(r)) < 4000 else "(large)", "model": None})
                    continue
                diffs = []
                if a["results"][k] != r["tokens"]:
                    diffs.append("get_tokens")
                if b["results"][k] != r["raw"]:
                    diffs.append("get_tokens_unprocessed")
                # theorem no_text_lost_iff: the real lexer loses no text on exactly the texts the model calls Clean
                t = cases[i]["text"]
                got = "".join(v for _ty, v in r["tokens"])
                if a.get("clean", [None] * len(g))[k] != (got == t or got == t + "\n"):
                    diffs.append("Clean-guard-vs-oracle")
                if diffs:
                    self.mism += 1
                    if self.mism <= 3:
                        run.broken_tie("correspondence C17: model and implementation disagree on " + ",".join(diffs) + f" for {cases[i]['text'][:60]!r}",
                                       {"channel": "lex", "case": cases[i], "impl": r if len(json.dumps(r)) < 4000 else "(large)",
                                        "model": {"get_tokens": a["results"][k] if len(json.dumps(a["results"][k])) < 4000 else "(large)",
                                                  "raw": b["results"][k] if len(json.dumps(b["results"][k])) < 4000 else "(large)"}})


def regex_unit_channel(run: core.Run, ck: Checker, n_per_rule: int) -> dict:
    """every rule's real compiled regex object vs the Lean matcher for the rule's regex source string"""
    info = ck.pool.map("harness.impl_pyg:rule_table", [None], timeout=60)[0]
    st = {"rules": 0, "cases": 0, "matches": 0, "mismatches": 0}
    if not isinstance(info, dict) or "rules" not in info:
        run.broken_tie("regex unit channel: cannot read the lexer's rule table", {"channel": "regex", "info": info})
        return st
    r = run.rng
    tasks, meta = [], []
    for state, rules in info["rules"].items():
        if info["processed_len"].get(state) != len(rules):
            run.broken_tie(f"regex unit channel: processed state {state} has {info['processed_len'].get(state)} rules, flattened table {len(rules)}",
                           {"channel": "regex", "state": state})
            continue
        for i, (rx, _ty, _act) in enumerate(rules):
            cases = []
            seeds = ['"', "'", '"""', "'''", "/*", "*/", "//", "/* a\n b */", "// x\n", "//x", "/*x", "$a1", "§_x", "@Z9", "$", "§1", "ab_9", "x5", "\n5", ".5", "5",
                     "017j", "017", "08", "0", "0b101", "0b2", "0B", "0x1fG", "0X", "12a", "٣4", "５", "²", "a\"b", "a'b", "\n", "", "if", "if ", "ifx", "ifé", "if٣",
                     "if²", "if_", "menu2", "menu2x", "menu", "break_loop", "break_", "forever", "for", "TRUE", "TRUEx", "true", "é", "😀"]
            for s0 in seeds:
                pre = r.choice(["", "", "a", " ", "\n", "5", "\"", "é", "if"])
                cases.append([pre + s0 + r.choice(["", "", " ", "x", "\n", "\"", "j", "5"]), len(pre)])
            for _ in range(n_per_rule):
                t = gen_text(r)
                if has_surrogate(t):
                    continue
                cases.append([t, r.randint(0, len(t)) if r.random() < 0.7 else 0])
            tasks.append({"state": state, "idx": i, "cases": cases})
            meta.append((state, i, rx, cases))
    outs = ck.pool.map("harness.impl_pyg:match_cases", tasks, timeout=120)
    reqs = [{"op": "pyg.match_many", "regex": rx, "flags": info["flags"], "cases": cases} for (_s, _i, rx, cases) in meta]
    reps = ck.drv.batch(reqs) if ck.drv is not None else [{} for _ in reqs]
    for (state, i, rx, cases), o, rep in zip(meta, outs, reps):
        st["rules"] += 1
        if not isinstance(o, list):
            run.broken_tie(f"regex unit channel: implementation failed for rule {state}[{i}]", {"channel": "regex", "out": o})
            continue
        st["cases"] += len(cases)
        st["matches"] += sum(x is not None for x in o)
        if ck.drv is None:
            continue
        if not rep.get("known"):
            st["mismatches"] += 1
            run.broken_tie(f"regex unit channel: the model has no matcher for regex {rx[:80]!r} of state {state}", {"channel": "regex", "state": state, "idx": i, "regex": rx, "reply": rep})
            continue
        for c, a, b in zip(cases, o, rep["lens"]):
            if a != b:
                st["mismatches"] += 1
                run.broken_tie(f"regex unit channel: regex {rx[:60]!r} at pos {c[1]} of {c[0][:60]!r}: re gives {a}, model {b}",
                               {"channel": "regex", "state": state, "idx": i, "regex": rx, "text": c[0], "pos": c[1], "impl": a, "model": b})
                break
    return st


def run(run: core.Run) -> int:
    quick = run.tier == "quick"
    prep = core.lean_prepare(MODULES)
    aud = core.audit(THEOREMS, MODULES) if prep["proofs_ok"] else {"obligations": len(THEOREMS), "discharged": 0, "ok": False, "theorems": {}}
    if not prep["proofs_ok"] or not aud["ok"] or not prep["driver_ok"]:
        run.broken_tie("Lean obligations of C17 do not check (build/audit): table lemmas rules_known/cover_ok/opts_known or the theorems fail on the regenerated tables",
                       {"theorems": THEOREMS, "log": prep["log"][-3000:], "audit": aud})
    jobs = core.jobs_for(run.tier)
    ck = Checker(run, jobs, prep["driver_ok"])
    r = run.rng
    try:
        # 1. witnesses of the counterexample theorems + boundary inputs
        ck.process([{"text": t, "origin": "witness"} for t in WITNESSES])
        missing = [k for k in KNOWN_KINDS if k not in ck.kinds]
        if missing:
            run.notes.append(f"witness inputs no longer exhibit: {missing}")
        # 2. accepted programs: repository sources, documentation code blocks, generated programs
        srcs = repo_sources()
        n_prog = 300 if quick else 6000
        srcs += [{"src": gen_program(r), "file": None, "origin": "generated-program"} for _ in range(n_prog)]
        # programs of the shared grammar-directed generator (language strings, message switches, all statement forms),
        # printed in canonical and random layout (comments and blanks at every token boundary)
        from .. import escommon
        for style in ("canonical", "random"):
            srcs += [{"src": g["text"], "file": None, "origin": "generated-program-" + style}
                     for g in escommon.gen_programs(r, max(20, n_prog // 6), escommon.default_cfgs(run.tier), style)]
        # a separator at EVERY token boundary, one boundary at a time: each of a few programs is printed with single blanks and
        # then once per boundary with a block comment / a line break / a comment and a line break in place of that blank
        # (a rule that swallows what stands between two particular tokens shows on exactly that variant)
        from ..gen import surface
        for g in escommon.gen_programs(r, 6 if quick else 40, [escommon.Cfg(max_depth=2, max_stmts=3, max_routines=2, coro=True, macros=False)], "canonical"):
            pr = surface.Printer()
            pr.program(g["ast"])
            toks = [t.text for t in pr.toks]
            for i in range(1, len(toks)):
                sep = r.choice(["/* c */", " /* c */ ", "\n", " // c\n", "/**/", "\t"])
                srcs.append({"src": " ".join(toks[:i]) + sep + " ".join(toks[i:]), "file": None, "origin": "generated-program-boundary"})
        for kw in ("coro", "macro", "def 0 for actor", "def 0 for_object"):
            for sep in ("/* c */", " /* unionall */ ", "\n", "/* a */ /* b */"):
                tail = {"coro": "Foo {\n    end;\n}\n", "macro": "m($a) {\n    end;\n}\ndef 0 {\n    end;\n}\n",
                        "def 0 for actor": "3 {\n    end;\n}\n", "def 0 for_object": "(3) {\n    end;\n}\n"}[kw]
                srcs.append({"src": kw + sep + tail, "file": None, "origin": "generated-program-boundary"})
        ch = 100
        chunks = [srcs[i:i + ch] for i in range(0, len(srcs), ch)]
        outs = ck.pool.map("harness.impl_pyg:compile_sources", chunks, timeout=300)
        acc_stats = {"sources": len(srcs), "accepted": 0, "accepted_repo_files": 0, "accepted_docs_blocks": 0, "accepted_generated": 0}
        cases = []
        for chk, o in zip(chunks, outs):
            for s, res in zip(chk, o if isinstance(o, list) and len(o) == len(chk) else [{"ok": False}] * len(chk)):
                ok = bool(res.get("ok"))
                acc_stats["accepted"] += ok
                if ok:
                    key = "accepted_repo_files" if s["origin"].startswith("repo:") else "accepted_docs_blocks" if s["origin"].startswith("docs:") else "accepted_generated"
                    acc_stats[key] += 1
                cases.append({"text": s["src"], "origin": s["origin"], "accepted": ok})
        ck.process(cases)
        # 3. random texts
        n_rand = 5000 if quick else 500000
        done = 0
        while done < n_rand:
            m = min(50000, n_rand - done)
            ck.process([{"text": gen_text(r), "origin": "random"} for _ in range(m)])
            done += m
        # 4. exhaustive enumeration over the delimiter alphabet
        maxlen = 4 if quick else 6
        batch: list[dict] = []
        n_exh = 0
        for n in range(0, maxlen + 1):
            for p in itertools.product(EXH_ALPHABET, repeat=n):
                batch.append({"text": "".join(p), "origin": "exhaustive"})
                n_exh += 1
                if len(batch) >= 60000:
                    ck.process(batch)
                    batch = []
        ck.process(batch)
        # 5. long inputs and lone surrogates (oracle only for the latter)
        ck.process([{"text": t, "origin": "long"} for t in long_texts(r)], chunk=1, timeout=60)
        ck.process([{"text": t, "origin": "surrogate"} for t in ["\ud800", "a\udfffb", "\"\ud800\"", "if\udc00", "/*\ud800*/"]])
        # 6. regex unit channel
        rx_stats = regex_unit_channel(run, ck, 60 if quick else 1500)
    finally:
        ck.close()
    cov = core.proof_coverage(run, prep, aud, MODULES, THEOREMS, {
        "evaluations": ck.n, "distinct_nontrivial": ck.nontrivial,
        "rule": "texts: pieces of the lexer's alphabet (quotes, triple quotes, comment delimiters, newlines, CR, digits, radix prefixes, '.5', sigils, keywords, non-ASCII "
                "letters/digits, BOM, control characters), keywords glued to word characters, quote/comment nesting stress, random Unicode scalar values, newline/CR/BOM "
                f"wrappers; exhaustive over {EXH_ALPHABET!r} up to length {maxlen} ({n_exh} strings); long inputs; every *.exps of the repository, documentation code blocks, "
                "generated programs (accepted ones checked for Error tokens). non-trivial = at least 3 distinct token types in the raw token list",
        "samples": [c["text"][:200] for c in cases[:1]] + [gen_text(random.Random(run.seed + i)) for i in range(3)],
        "generator_stats": ck.stats, "accepted_program_stats": acc_stats, "oracle_failures_by_kind": ck.kinds,
        "model_comparisons": ck.compared, "model_no_answer": ck.no_answer, "correspondence_mismatches": ck.mism, "oracle_violations": ck.n_viol, "regex_unit_channel": rx_stats,
    })
    return run.finish("proof", cov, [
        "Pygments' RegexLexer engine / Lexer.get_tokens and Python's re are MODELLED (hand-written, compared on every run), not verified",
        "regex matchers do not depend on the text before the match position (no anchors / look-behind in the rule table; unit channel tests positions > 0)",
        "words(...): regex_opt's alternation order is irrelevant because keywords are ASCII word-character strings followed by \\b (checked by parseWords)",
        "model strings are sequences of Unicode scalar values; lone surrogates are exercised on the real lexer only (oracle)",
        "Unicode \\w / \\d membership comes from the running interpreter's re module (ESV.Gen.pyReWordRanges / pyReDigitRanges)",
        "bytes input / encoding guessing of Lexer.get_tokens is out of scope (str input only)",
    ])


def replay(run: core.Run, path: str) -> int:
    data = json.load(open(path))
    rp = data["replay"]
    from .. import impl_pyg
    if rp.get("channel") == "regex":
        got = impl_pyg.match_cases({"state": rp["state"], "idx": rp["idx"], "cases": [[rp["text"], rp["pos"]]]})[0]
        rep = core.Driver().batch([{"op": "pyg.match", "regex": rp["regex"], "text": rp["text"], "pos": rp["pos"]}])[0]
        print("VIOLATION-REPLAY regex", rp["regex"], "impl", got, "model", rep)
        return 1 if rep.get("len") != got or not rep.get("known") else 0
    case = rp.get("case")
    if not case:
        print("replay file has no input case (build/audit failure): rerun ./check C17")
        return 1
    res = impl_pyg.lex_texts([case["text"]])[0]
    v = oracle(case, res)
    for kind, what in v:
        print("VIOLATION-REPLAY", kind, what)
    rc = 1 if v else 0
    if rp.get("channel") == "lex" and not has_surrogate(case["text"]):
        reps = core.Driver().batch([{"op": "pyg.get_tokens", "text": case["text"]}, {"op": "pyg.lex", "text": case["text"]}])
        if reps[0].get("tokens") != res.get("tokens") or reps[1].get("tokens") != res.get("raw"):
            print("VIOLATION-REPLAY correspondence: model and implementation disagree on", repr(case["text"][:100]))
            print("  impl :", json.dumps(res.get("tokens"))[:600])
            print("  model:", json.dumps(reps[0].get("tokens"))[:600])
            rc = 1
    return rc
