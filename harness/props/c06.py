"""C06 — the decompiler always answers; its SsbScript fallback is marked and exact.
Deciding method: (proof) the fallback path is the SsbScript decompiler, whose round trip through the SsbScript compiler is the
kernel-checked theorem ESV.C07.ssbscript_roundtrip (all well-formed routine sets); (exploration) totality of the structured
path cannot be a theorem about igraph-based Python code: it is explored on generated well-formed routine sets, and every
fallback text actually produced is compiled with the real ExplorerScript compiler and compared op for op with the input."""
from __future__ import annotations

import json
import os
import random
from collections import Counter
from typing import Any

from .. import core, escommon, decomp_common as dc
from ..gen.programs import Cfg
from . import c02
from .. import decomp_front as dfr

MODULES = ["ESV.Props.C07"] + dfr.MODULES
THEOREMS = dfr.THEOREMS + ["ESV.C07.ssbscript_roundtrip", "ESV.C07.decompile_ok", "ESV.C07.roundtrip_eq_canon", "ESV.C07.canon_iso"]
MARKER_LINE = "//?: is-ssb-script: true"


def exact(x: dict, y: dict) -> str | None:
    """y (compiled fallback text) reproduces x op for op: same routines, opcodes, parameters, jump targets"""
    tm = dc.tables_equal(x, y)
    if tm:
        return tm
    fx = [o for r in x["ops"] for o in r]
    pos = {o["off"]: i for i, o in enumerate(fx)}
    if [len(r) for r in x["ops"]] != [len(r) for r in y["ops"]]:
        return f"routine lengths {[len(r) for r in y['ops']]} vs {[len(r) for r in x['ops']]}"
    fy = [o for r in y["ops"] for o in r]
    ypos = {o["off"]: i for i, o in enumerate(fy)}
    for i, (a, b) in enumerate(zip(fx, fy)):
        if a["name"] != b["name"]:
            return f"op {i}: opcode {b['name']} vs {a['name']}"
        pa, pb = list(a["params"]), list(b["params"])
        if a["name"] in dc.JUMPY:
            if not pa or not pb or ypos.get(pb[-1]) != pos.get(pa[-1]):
                return f"op {i} ({a['name']}): jump target denotes op {ypos.get(pb[-1]) if pb else None}, expected op {pos.get(pa[-1]) if pa else None}"
            pa, pb = pa[:-1], pb[:-1]
        if pa != pb:
            return f"op {i} ({a['name']}): parameters {pb} vs {pa}"
    return None


# What convert() does outside its try block, and how the try is guarded: the totality argument is
#   resolve_total (theorem: label resolution never raises on well-formed sets)  +  everything else that can raise sits in
#   `try: ... except Exception:` whose handler calls SsbScriptSsbDecompiler(...).convert (theorem ESV.C07.decompile_ok).
# The shape is read from the current source on every run and compared with this pinned reading.
PINNED_CONVERT_SHAPE = {
    "before_try_calls": ["set", "SourceMapBuilder", "deepcopy", "OpsLabelJumpToResolver", "list", "any"],
    "try_handlers": ["Exception"],
    "handler_calls": ["SsbScriptSsbDecompiler", "convert"],
    "handler_returns": True,
    "after_try": 0,
}


def dfr_handler_shape() -> dict:
    import ast
    src = open(os.path.join(core.REPO, "explorerscript", "ssb_converting", "ssb_decompiler.py")).read()
    tree = ast.parse(src)
    fn = None
    for node in ast.walk(tree):
        if isinstance(node, ast.ClassDef) and node.name == "ExplorerScriptSsbDecompiler":
            for b in node.body:
                if isinstance(b, ast.FunctionDef) and b.name == "convert":
                    fn = b
    if fn is None:
        return {"shape": {"error": "convert() not found"}}

    def calls(nodes: list, skip_nested_comprehension_calls: bool = True) -> list[str]:
        out: list[str] = []
        for n in nodes:
            for c in ast.walk(n):
                if isinstance(c, ast.Call):
                    f = c.func
                    name = f.id if isinstance(f, ast.Name) else f.attr if isinstance(f, ast.Attribute) else "?"
                    if name in ("debug", "warning", "info", "isinstance"):
                        continue
                    if name not in out:
                        out.append(name)
        return out
    body = fn.body
    ti = next((i for i, st in enumerate(body) if isinstance(st, ast.Try)), None)
    if ti is None:
        return {"shape": {"error": "no try in convert()"}}
    t = body[ti]
    shape = {
        "before_try_calls": calls(body[:ti]),
        "try_handlers": [(h.type.id if isinstance(h.type, ast.Name) else ast.dump(h.type)) if h.type is not None else "bare" for h in t.handlers],
        "handler_calls": [c for c in calls(t.handlers[0].body) if c in ("SsbScriptSsbDecompiler", "convert")] if t.handlers else [],
        "handler_returns": bool(t.handlers) and isinstance(t.handlers[0].body[-1], ast.Return),
        "after_try": len(body) - ti - 1 + len(t.finalbody) + len(t.orelse),
    }
    return {"shape": shape}


def random_sets(run: core.Run, n: int) -> list[dict]:
    from ..gen import ssb
    out = []
    for _ in range(n):
        try:
            s = ssb.gen_set(random.Random(run.rng.getrandbits(48)))
        except Exception:
            continue
        rs = {"infos": s["infos"], "coros": s["coros"], "ops": s["ops"]}
        for r in rs["ops"]:
            for o in r:
                o["params"] = [dc._safe_param(p) for p in o["params"]]
        out.append({"rs": rs, "origin": {"kind": "random"}})
    return out


def sane_for_structured(rs: dict) -> bool:
    """parameter shapes a binary reader delivers for the ops with special syntax (ints where the game has ints)"""
    for r in rs["ops"]:
        for o in r:
            n, p = o["name"], o["params"]
            if n in dc.INT_FLAG_OPS and not all(i < len(p) and isinstance(p[i], int) for i in dc.INT_FLAG_OPS[n]):
                return False
            if n in ("BranchValue", "BranchVariable") and not (len(p) == 4 and isinstance(p[1], int) and 0 <= p[1] <= 10):
                return False
            if n in ("CaseValue", "CaseVariable", "CaseScenario") and not (len(p) == 3 and isinstance(p[0], int) and 0 <= p[0] <= 10):
                return False
    return True


def run(run: core.Run) -> int:
    n = 1200 if run.tier == "quick" else 10000
    prep = core.lean_prepare(MODULES)
    aud = core.audit(THEOREMS, MODULES) if prep["proofs_ok"] else {"obligations": len(THEOREMS), "discharged": 0, "ok": False, "theorems": {}}
    if not prep["driver_ok"]:
        run.broken_tie("Lean driver does not build", {"log": prep["log"][-3000:]})
        return run.finish("other", {"explanation": "driver unavailable", "evaluations": 1, "distinct_nontrivial": 2}, [])
    jobs = core.jobs_for(run.tier)
    drv = core.Driver()
    pool = core.Pool(jobs)
    cnt: Counter = Counter()
    exc_cnt: Counter = Counter()
    try:
        sets: list[dict] = []
        corpus = os.path.join(core.ROOT, "corpus", "c06.jsonl")
        if os.path.exists(corpus):
            for l in open(corpus):
                if l.strip():
                    sets.append({"rs": json.loads(l)["rs"], "origin": {"kind": "corpus"}})
        cfgs = c02.cfgs_for(run.tier) + [Cfg(max_depth=3, max_stmts=4, max_routines=3, reader_shaped=True, dead_code=0.5),
                                         Cfg(max_depth=2, max_stmts=3, max_routines=3, reader_shaped=True, p_halt=0.3)]
        sets += dc.routine_sets_from_programs(run, pool, n, cfgs)
        rnd = [s for s in random_sets(run, 4 * n) if sane_for_structured(s["rs"])]
        sets += rnd
        sets = c02.wf_filter(sets, drv, jobs)
        for i, s_ in enumerate(sets):
            s_["twice"] = i % 6 == 5     # every sixth set: the answer of a second convert() of the same decompiler object
        results = dc.pipeline_all(pool, sets, timeout=40, single_timeout=12)
        # the modelled front phases (label resolution runs OUTSIDE convert()'s try; ESV.DecompFront.resolve_total)
        front = dfr.front_channels(run, pool, drv, sets, jobs)
        handler = dfr_handler_shape()
        if handler["shape"] != PINNED_CONVERT_SHAPE:
            run.broken_tie("convert() no longer has the shape the totality argument rests on (statements before the try / handler of the try)",
                           {"channel": "convert_shape", "found": handler["shape"], "pinned": PINNED_CONVERT_SHAPE})
    finally:
        pool.close()
    n_viol = 0
    for s, r in zip(sets, results):
        x = s["rs"]
        d = r["dec"]
        cnt["origin:" + s["origin"]["kind"]] += 1
        if "error" in d:
            n_viol += 1
            if d.get("no_answer"):
                cnt["no_answer"] += 1
                run.violation("no_answer:" + (c02.shapes(x) or ["plain"])[0], f"decompilation gives no answer ({d['site']}) within the time limit", {"rs": x})
            else:
                cnt["raised"] += 1
                exc_cnt[f"{d['error']}@{d['site']}"] += 1
                run.violation(f"raises:{d['error']}@{d['site']}", f"decompilation raised {d['error']}: {d['msg'][:150]}", {"rs": x})
            continue
        text = d["text"]
        if not r.get("fallback"):
            cnt["structured"] += 1
            # "whenever it cannot produce structured ExplorerScript, the text is SsbScript starting with the marker":
            # an unmarked text that is not ExplorerScript at all (the parser / compiler rejects it) is neither.
            # (Whether a compilable structured text denotes the input is C02's business.)
            y = r.get("recompiled") or {}
            # (random routine sets carry arbitrary parameter values in positions where the special syntax of an op admits
            # only some literal kinds — that is the literal layer, C04/C07; this clause is evaluated on sets whose
            # parameters are known to be printable: compiler output made reader-shaped, and the corpus)
            if s["origin"]["kind"] != "random" and "error" in y and y["error"] in ("ParseError", "SsbCompilerError"):
                n_viol += 1
                cnt["structured_not_compilable"] += 1
                sh = (c02.shapes(x) or ["plain"])[0]
                run.violation(f"structured_not_compilable:{sh}:{y['error']}", f"unmarked (structured) text is rejected by the ExplorerScript compiler: {y['error']}: {y['msg'][:150]}",
                              {"rs": x, "text": text})
            continue
        cnt["fallback"] += 1
        if text.split("\n", 1)[0] != MARKER_LINE:
            n_viol += 1
            run.violation("fallback_marker", f"fallback text does not start with the marker line: {text[:60]!r}", {"rs": x, "text": text})
            continue
        y = r["recompiled"]
        if "error" in y:
            n_viol += 1
            run.violation("fallback_not_compilable", f"the ExplorerScript compiler rejects the fallback text: {y['error']}: {y['msg'][:150]}", {"rs": x, "text": text})
            continue
        why = exact(x, y)
        if why:
            n_viol += 1
            run.violation("fallback_not_exact", f"compiling the fallback text does not reproduce the input: {why}", {"rs": x, "text": text})
    if not prep["proofs_ok"] or not aud["ok"]:
        run.broken_tie("Lean obligations of C06 (SsbScript round trip) do not check", {"theorems": THEOREMS, "log": prep["log"][-3000:]})
    cov = {
        "explanation": "proof part: the fallback is SsbScriptSsbDecompiler output; ESV.C07.ssbscript_roundtrip (kernel-checked, all well-formed routine sets) "
                       "shows that compiling it reproduces the input, ESV.C07.decompile_ok that it never raises on well-formed input. Exploration part: totality "
                       "of the structured path (Python exception flow through igraph code) on generated well-formed routine sets, and marker + op-for-op exactness "
                       "of every fallback text produced, through the real ExplorerScript compiler.",
        "evaluations": len(sets), "distinct_nontrivial": core.distinct(s["rs"]["ops"] for s in sets),
        "rule": "well-formed routine sets (every path ends in a flow-ending op, no Jump-only cycle, targets exist; checked by the Lean machine): real compiler output of generated programs incl. labels/jump/call/cross-routine jumps/dead code, plus random routine sets with arbitrary jump graphs (irreducible loops, jumps into blocks, jump-only routines); non-trivial = distinct op lists",
        "samples": [s["rs"] for s in sets[:2]],
        "outcomes": dict(cnt), "exceptions": dict(exc_cnt), "front_phases": front, "convert_shape": handler["shape"],
        "obligations": aud["obligations"], "discharged": aud["discharged"] if prep["proofs_ok"] else 0,
        "theorems": THEOREMS, "tables": prep.get("tables"),
    }
    return run.finish("other", cov, ["totality of the structured decompilation is explored, not proved",
                                     "string parameters are kept inside the C04 guard (C04 owns the literal layer)"])


def replay(run: core.Run, path: str) -> int:
    data = json.load(open(path))
    rs = data["replay"]["rs"]
    pool = core.Pool(1)
    try:
        r = dc.pipeline_all(pool, [{"rs": rs}], timeout=40, single_timeout=12)[0]
    finally:
        pool.close()
    d = r["dec"]
    if "error" in d:
        print("VIOLATION-REPLAY", d["error"], d.get("msg", "")[:200])
        return 1
    ff = dfr.replay_front(rs)
    if ff:
        print("VIOLATION-REPLAY", ff)
        return 1
    if r.get("fallback"):
        y = r["recompiled"]
        why = (y["error"] if "error" in y else exact(rs, y))
        if why or d["text"].split("\n", 1)[0] != MARKER_LINE:
            print("VIOLATION-REPLAY", why)
            return 1
    return 0
