"""C16 — layout, comments and alternative spellings do not change the compiled ops.

Deciding method
  * Lean (ESV.C16.*, lean/ESV/Lex): a maximal-munch model of the token rules of ExplorerScript.g4 + SsbCommon.g4 with, for ALL
    inputs, `skip_insertion` / `render_lex` / `layout_irrelevant_tokens` (any separators of blanks, comments, line joinings
    between the same tokens give the same token sequence), `needs_sep_sound` (the printer's separator table), and the literal
    theorems of C04 re-used for spellings (`int_spelling_irrelevant`, `decimal_leading_zeros_irrelevant`,
    `quote_style_irrelevant`, `multiline_form_irrelevant`, `header_spelling_irrelevant`, `label_marker_irrelevant`).
  * Tie: Lean `lex` vs the generated ANTLR lexer (type, text, start offset of every non-skip token) on every rendered program,
    on corrupted renderings and on random strings; Lean `needsSep` vs the printer's `needs_sep` on every adjacent token pair.
  * Property oracle (metamorphic, real compiler): every generated program is rendered k times (layout style x spelling
    dimensions); all renderings must compile to identical ops (offset, name, every parameter field by field), routine infos,
    coroutine names and source maps up to positions.  The parser is NOT modelled: this oracle is what covers it."""
from __future__ import annotations

import copy
import json
import random
from collections import Counter
from typing import Any

from .. import core, escommon
from ..gen import surface
from ..gen.programs import Cfg, ProgGen

MODULES = ["ESV.Props.C16"]
THEOREMS = [
    "ESV.C16.lexer_total", "ESV.C16.lex_drops_skip_tokens", "ESV.C16.token_alone", "ESV.C16.skip_insertion", "ESV.C16.safe_boundary_suffices",
    "ESV.C16.separator_invisible", "ESV.C16.trailing_comment_invisible", "ESV.C16.render_lex",
    "ESV.C16.layout_irrelevant_tokens", "ESV.C16.needs_sep_sound", "ESV.C16.line_joining_swallows_form_feed",
    "ESV.C16.boundary_examples", "ESV.C16.int_spelling_irrelevant", "ESV.C16.int_zero_spellings",
    "ESV.C16.decimal_leading_zeros_irrelevant", "ESV.C16.negative_decimal_examples", "ESV.C16.quote_style_irrelevant", "ESV.C16.multiline_form_irrelevant",
    "ESV.C16.for_target_words", "ESV.C16.header_spelling_irrelevant", "ESV.C16.header_other_word",
    "ESV.C16.label_marker_irrelevant",
    "ESV.Lex.lits_ok", "ESV.Lex.types_ok", "ESV.Lex.for_target_ok", "ESV.Lex.atn_known", "ESV.Lex.sym_noext_sep",
    "ESV.Lex.sym_ext_needs_sep", "ESV.Lex.lexOne_token", "ESV.Lex.lexOne_append", "ESV.Lex.lex_lineJoin",
    "ESV.Lex.isInt_of_isIntegerTok",
]
DIMS = list(surface.Respell.ALL)

# inputs every run replays on the real lexer: the witness of `line_joining_swallows_form_feed`, rule-order ties, munch edges
LEX_WITNESSES = [
    "x\\\n \x0cy", "x \x0cy", "007 007.250 0x1F 0x 0o17 0B1 -5 - 5 -=5 x-=-5 12. 12.5.5 1.5x .5 -.5 -. 0b2 0o8 00x1",
    "'' ''' '''' ''''' '''''' ''''''' ", "''''a'''b'''", "a/**/b /*/ c */ d /* unterminated",
    "a // c\nb \\\n c \\ \n d \\ x \\\x0c e \\\r\n f\\\n\n\n g \x0c h",
    "&<< &< & << &<= for_actor for_actorx forx for if iff message_SwitchTalk message_SwitchTalk2 menu2 menu menu22 break_loop break_ $ $x ~ ~x ~1 § §x @x",
    "'a\\'b' 'a\\\nb' 'a\nb' \"x'y\" 'x\"y'", "/= // x\n/* x */ *= * / | || ! != ; . .. ..5 1..5 -0x10 -00 -0b1",
    "x y é   a", "'abc", "'''abc", "'''abc''", "/*", "/", "/*/", "\\", "\\ ", "\\ \n", "'\\", "", "\n", "// only", "a//b", "a/*b",
]
LEX_ALPHA = list("ab_fX09 17.-=<>&!^+*/|\\'\"\n\r\t\x0c$~@§(){}[],:;") + [
    "for", "if", "0x", "0b", "0o", "//", "/*", "*/", "'''", '"""', "for_actor", "menu", "2", "é", "Position", "😀", "\\\n", " \x0c"]


# ----------------------------------------------------------------------------------------------------------------------
# programs: ProgGen + macros (bodies of plain statements, called from routines only)
# ----------------------------------------------------------------------------------------------------------------------
def add_macros(g: ProgGen, ast: dict) -> None:
    r = g.r
    if r.random() < 0.55:
        return
    macros = []
    for i in range(r.randint(1, 2)):
        params = [f"$p{j}" for j in range(r.randint(0, 2))]
        body = []
        for _ in range(r.randint(1, 3)):
            s = g.plain()
            if s["t"] == "op" and params and r.random() < 0.7:
                s["args"] = s["args"] + [{"k": "var", "v": r.choice(params)}]
            body.append(s)
        macros.append({"name": f"mac{i}", "params": params, "body": body})
    ast["macros"] = macros
    spots = [rt["body"] for rt in ast["routines"] if rt["body"] is not None]
    for m in macros:
        for _ in range(r.randint(1, 2)):
            if not spots:
                break
            blk = g.pick_block(r.choice(spots))
            args = [g.arg() for _ in m["params"]]
            blk.insert(r.randint(0, len(blk)), {"t": "macrocall", "name": m["name"], "args": args, "trailing_comma": r.random() < 0.2})
    if r.random() < 0.5:
        # macros in any order anywhere between the routines; the routines keep their order (ids must ascend)
        nm, nr = len(macros), len(ast["routines"])
        mi = list(range(nm))
        r.shuffle(mi)
        slots = sorted(r.randint(0, nr) for _ in range(nm))
        order: list[int] = []
        k = 0
        for ri in range(nr + 1):
            while k < nm and slots[k] == ri:
                order.append(mi[k])
                k += 1
            if ri < nr:
                order.append(nm + ri)
        ast["order"] = order


# literals whose spelling matters: every program gets some of these (the plain generator produces them too rarely for the
# quick tier: negative decimals with a non-zero whole part, names and strings that contain quote characters, negative ints)
DEC_POOL = ["-7.5", "-12.25", "-1.0", "-30.125", "-10.5", "-100.01", "-2.75", "10.5", "100.01", "7.5", "0.0034", "-0.0034", "3.0",
            "-0.5", "0.25", "-.5", ".75", "20.50", "-20.50", "1.5"]
NEG_NONZERO_DEC = ["-7.5", "-12.25", "-1.0", "-30.125", "-10.5", "-100.01", "-2.75", "-20.50"]
INT_POOL = [-1, -8, -16, -255, -20000, 0, 8, 64, 4096, 65535]
STR_POOL = ["Chatot's spot", 'say "hi"', "both ' and \"", "'", '"', "''", '""', "it's\nnew line", "", " lead", "trail ", "tab\tin", "a" + "'" * 3 + "b", "x" + '"' * 3 + "y",
            "ends with '", 'ends with "', "äß 'é' 😀", "// no comment", "/* none */", "cafe\u0301 か\u3099", "\u1100\u1161 \ufb01 \u2126 \u212b", "\uac00\u00e9 \u00bd"]
NAME_POOL = ["Chatot's spot", 'the "big" one', "a'b\"c", "'", '"', "plain", "", "it's", 'q"', "é's"]
POS_NUMS = ["0", "12", "-3", "3.5", "7.0", "0.5", "-2.5", "255", ".5", "-12.5", "20.5", "9.50"]
LIB_NAMES = ["lib.exps", "it's lib.exps", 'the "lib".exps', "äß.exps", "a'b\"c.exps"]


def sensitive_arg(r: random.Random) -> dict:
    c = r.random()
    if c < 0.4:
        return {"k": "dec", "v": r.choice(DEC_POOL)}
    if c < 0.55:
        return {"k": "int", "v": r.choice(INT_POOL)}
    if c < 0.75:
        return {"k": "str", "v": r.choice(STR_POOL), "quote": r.choice(['"', "'"])}
    if c < 0.85:
        return {"k": "lang", "v": [[l, r.choice(STR_POOL)] for l in r.sample(["english", "french", "german"], r.randint(1, 2))], "trailing_comma": r.random() < 0.5}
    return {"k": "pos", "name": r.choice(NAME_POOL), "x": r.choice(POS_NUMS), "y": r.choice(POS_NUMS), "quote": r.choice(["'", '"'])}


def enrich(r: random.Random, ast: dict) -> None:
    """put spelling-sensitive literals into every kind of place a literal can stand in: integer-like slots of headers,
    assignments, cases, contexts (decimals and negative integers), string slots (constant strings, language strings, menu
    cases, message-switch cases), position-mark names, and every argument list"""
    arglists: list[tuple[list, bool]] = []

    def visit(x: Any) -> None:
        if isinstance(x, list):
            for v in x:
                visit(v)
            return
        if not isinstance(x, dict):
            return
        k = x.get("k")
        if k == "int":
            c = r.random()
            if c < 0.12:
                x.clear()
                x.update({"k": "dec", "v": r.choice(DEC_POOL)})
            elif c < 0.22:
                x["v"] = r.choice(INT_POOL)
                x.pop("sp", None)
            return
        if k == "dec":
            if r.random() < 0.5:
                x["v"] = r.choice(DEC_POOL)
            return
        if k == "str":
            if r.random() < 0.35:
                x["v"] = r.choice(STR_POOL)
            return
        if k == "lang":
            for pair in x["v"]:
                if r.random() < 0.35:
                    pair[1] = r.choice(STR_POOL)
            return
        if k == "pos":
            if r.random() < 0.6:
                x["name"] = r.choice(NAME_POOL)
            if r.random() < 0.4:
                x["x"], x["y"] = r.choice(POS_NUMS), r.choice(POS_NUMS)
            return
        if isinstance(x.get("args"), list):
            arglists.append((x["args"], x.get("t") == "macrocall"))
        for v in x.values():
            visit(v)

    bodies = [rt["body"] for rt in ast["routines"] if rt["body"] is not None] + [m["body"] for m in ast.get("macros", [])]
    for b in bodies:
        visit(b)
    for args, is_call in arglists:
        if is_call:
            for i in range(len(args)):
                if r.random() < 0.3:
                    args[i] = sensitive_arg(r)
        else:
            while r.random() < 0.35:
                args.insert(r.randint(0, len(args)), sensitive_arg(r))
    # every program: at least one negative decimal with a non-zero whole part and one mark whose name contains a quote
    free = [a for a, is_call in arglists if not is_call]
    if not free and bodies:
        st = {"t": "op", "name": "Wait", "args": []}
        bodies[0].insert(0, st)
        free = [st["args"]]
    if free:
        r.choice(free).append({"k": "dec", "v": r.choice(NEG_NONZERO_DEC)})
        r.choice(free).append({"k": "pos", "name": r.choice(NAME_POOL[:5]), "x": r.choice(POS_NUMS), "y": r.choice(POS_NUMS), "quote": r.choice(["'", '"'])})
        if r.random() < 0.5:
            r.choice(free).append({"k": "str", "v": r.choice(STR_POOL[:8]), "quote": r.choice(["'", '"'])})


def gen_asts(rng: random.Random, n: int, tier: str) -> list[dict]:
    cfgs = []
    for c in escommon.default_cfgs(tier):
        c = copy.copy(c)
        c.int_styles = True
        cfgs.append(c)
    out = []
    for i in range(n):
        r = random.Random(rng.getrandbits(48))
        g = ProgGen(r, cfgs[i % len(cfgs)])
        ast = g.program()
        if not cfgs[i % len(cfgs)].coro:
            add_macros(g, ast)
        enrich(r, ast)
        p = {"ast": ast, "stats": g.stats, "lib": None, "file": None}
        if ast.get("macros") and r.random() < 0.4:
            # the macros live in a file of their own that the program imports (the import path is a string literal too)
            name = r.choice(LIB_NAMES)
            p["lib"] = {"name": name, "macros": ast["macros"]}
            ast["macros"] = []
            ast.pop("order", None)
            ast["imports"] = ["./" + name]
        out.append(p)
    return out


def write_libs(progs: list[dict], base: str) -> None:
    """imported macro files of the programs that have one: <base>/p<i>/<lib name>; the program is compiled as <base>/p<i>/main.exps"""
    import os
    for i, p in enumerate(progs):
        if p.get("lib"):
            d = os.path.join(base, f"p{i}")
            os.makedirs(d, exist_ok=True)
            pr = surface.Printer()
            for m in p["lib"]["macros"]:
                pr.macro(m)
            text, _ = surface.layout(pr.toks)
            with open(os.path.join(d, p["lib"]["name"]), "w", encoding="utf-8") as fh:
                fh.write(text)
            p["file"] = os.path.join(d, "main.exps")


def compile_items(pool: core.Pool, items: list[dict], chunk: int = 20, timeout: float = 180) -> list[dict]:
    """items: {"text", "file" | None} -> compile results (escommon.compile_all with a file name per text)"""
    args = [{"text": it["text"], **({"file": it["file"]} if it.get("file") else {})} for it in items]
    chunks = [args[i:i + chunk] for i in range(0, len(args), chunk)]
    outs = pool.map("harness.impl_es:compile_many", chunks, timeout=timeout)
    res: list[dict] = []
    for ch, o in zip(chunks, outs):
        if isinstance(o, list):
            res += o
        else:
            for s_ in pool.map("harness.impl_es:compile_text", ch, timeout=timeout):
                if isinstance(s_, dict) and ("__timeout__" in s_ or "__died__" in s_ or "__exc__" in s_):
                    res.append({"error": "NoAnswer", "msg": json.dumps(s_)[:200], "site": "", "no_answer": True})
                else:
                    res.append(s_)
    return res


# ----------------------------------------------------------------------------------------------------------------------
# renderings
# ----------------------------------------------------------------------------------------------------------------------
def render(ast: dict, spec: dict) -> tuple[str, list[str]]:
    """spec: {"dims": [...], "rs": respell seed, "style": canonical|dense|random, "ls": layout seed} -> (text, token texts)"""
    rs = surface.Respell(random.Random(spec["rs"]), spec["dims"]) if spec["dims"] else None
    pr = surface.Printer(respell=rs)
    pr.program(ast)
    text, _ = surface.layout(pr.toks, random.Random(spec["ls"]), spec["style"], rich=True)
    if spec.get("crlf"):
        # the same file saved with Windows line breaks (also inside multi-line literals): "line breaks" is layout
        text = text.replace("\r\n", "\n").replace("\n", "\r\n")
    return text, [t.text for t in pr.toks]


def plan(rng: random.Random, k: int) -> list[dict]:
    """the k renderings of one program; the first one is the reference (canonical layout, hinted spellings)"""
    specs = [{"dims": [], "rs": 0, "style": "canonical", "ls": 0},
             {"dims": [], "rs": 0, "style": "dense", "ls": 0},
             {"dims": [], "rs": 0, "style": "random", "ls": rng.getrandbits(30)},
             {"dims": DIMS, "rs": rng.getrandbits(30), "style": "canonical", "ls": 0},
             {"dims": [], "rs": 0, "style": "canonical", "ls": 0, "crlf": True},
             {"dims": DIMS, "rs": rng.getrandbits(30), "style": "canonical", "ls": 0, "crlf": True}]   # (multi-line literal forms)
    while len(specs) < k:
        c = rng.random()
        dims = DIMS if c < 0.6 else rng.sample(DIMS, rng.choice([1, 1, 2, 3]))
        specs.append({"dims": dims, "rs": rng.getrandbits(30), "style": rng.choice(["random", "random", "random", "dense"]), "ls": rng.getrandbits(30)})
    return specs[:k]


# ----------------------------------------------------------------------------------------------------------------------
# oracle
# ----------------------------------------------------------------------------------------------------------------------
def observable(res: dict) -> dict:
    """what must be identical for all renderings; positions (lines / columns) are removed from the source map"""
    sm = res.get("source_map") or {}
    mac = sm.get("macros") or {}
    return {
        "ops": res["ops"], "infos": res["infos"], "coros": res["coros"],
        "posmarks": [m[4:] for m in sm.get("pos_marks", [])] + [[y[0], y[1], y[2][4:]] for y in mac.get("pos_marks", [])],
        "srcmap": [sorted(sm.get("map", {}).keys(), key=int),
                   sorted([[k, v[0], v[1], v[5], v[6]] for k, v in mac.get("map", {}).items()], key=lambda e: int(e[0]))],
        "macro_order": res.get("macro_order"), "imports": res.get("imports"),
    }


def differences(ref: dict, res: dict) -> list[tuple[str, str]]:
    """-> [(field, what)] between the reference compilation and another rendering's compilation"""
    if "error" in res:
        return [("rejected_" + res["error"], f"the reference rendering compiles, this one is rejected: {res['error']}: {res.get('msg', '')[:160]}")]
    a, b = observable(ref), observable(res)
    out = []
    for f in ("ops", "infos", "coros", "posmarks", "srcmap", "macro_order", "imports"):
        if a[f] != b[f]:
            what = f"{f} differ"
            if f == "ops":
                what += ": " + first_op_difference(a["ops"], b["ops"])
            else:
                what += f": {json.dumps(a[f])[:160]} vs {json.dumps(b[f])[:160]}"
            out.append((f, what))
    return out


def first_op_difference(a: list, b: list) -> str:
    if len(a) != len(b):
        return f"{len(a)} routines vs {len(b)}"
    for ri, (ra, rb) in enumerate(zip(a, b)):
        if len(ra) != len(rb):
            return f"routine {ri}: {len(ra)} ops vs {len(rb)}"
        for oi, (oa, ob) in enumerate(zip(ra, rb)):
            if oa != ob:
                return f"routine {ri} op {oi}: {json.dumps(oa)[:200]} vs {json.dumps(ob)[:200]}"
    return "?"


def compile_pair(pool: core.Pool, t1: str, t2: str, file: Any = None) -> tuple[dict, dict]:
    r = compile_items(pool, [{"text": t1, "file": file}, {"text": t2, "file": file}], chunk=2, timeout=60)
    return r[0], r[1]


def attribute(pool: core.Pool, ast: dict, spec: dict, fields: set[str], file: Any = None) -> tuple[str, dict]:
    """which single dimension of the rendering `spec` already changes one of `fields`? -> (dimension, its spec)"""
    ref_spec = {"dims": [], "rs": 0, "style": "canonical", "ls": 0}
    ref_text, _ = render(ast, ref_spec)
    # a single dimension draws other random numbers than the full set: try a few seeds per dimension
    cands = [(d, {"dims": [d], "rs": spec["rs"] + j, "style": "canonical", "ls": 0}) for j in range(5) for d in spec["dims"]]
    cands.append(("layout", {"dims": [], "rs": 0, "style": spec["style"], "ls": spec["ls"]}))
    for d, sp in cands:
        t, _ = render(ast, sp)
        a, b = compile_pair(pool, ref_text, t, file)
        if "error" not in a and any(f in fields for f, _ in differences(a, b)):
            return d, sp
    return "combination", spec


def check_variant(pool: core.Pool, ast: dict, spec: dict, file: Any = None) -> list[tuple[str, str]]:
    ref_text, _ = render(ast, {"dims": [], "rs": 0, "style": "canonical", "ls": 0})
    t, _ = render(ast, spec)
    a, b = compile_pair(pool, ref_text, t, file)
    if "error" in a:
        return []
    return differences(a, b)


# ----------------------------------------------------------------------------------------------------------------------
# lexer tie
# ----------------------------------------------------------------------------------------------------------------------
def corrupt(rnd: random.Random, text: str) -> str:
    if not text:
        return text
    out = list(text)
    for _ in range(rnd.choice([1, 1, 2, 4])):
        i = rnd.randrange(len(out) + 1)
        c = rnd.random()
        piece = rnd.choice(LEX_ALPHA)
        if c < 0.4:
            out[i:i] = [piece]
        elif c < 0.7 and i < len(out):
            del out[i]
        elif i < len(out):
            out[i] = piece
    return "".join(out)


def lexer_tie(run: core.Run, pool: core.Pool, drv: core.Driver, texts: list[str], jobs: int) -> dict:
    chunks = [texts[i:i + 200] for i in range(0, len(texts), 200)]
    outs = pool.map("harness.impl_lex:lex_many", chunks, timeout=300)
    real: list[Any] = []
    for ch, o in zip(chunks, outs):
        real += o if isinstance(o, list) else [{"error": "NoAnswer"}] * len(ch)
    reqs = [{"op": "lex.tokens", "texts": ch, "offsets": True} for ch in chunks]
    reps = drv.batch_parallel(reqs, jobs)
    model: list[Any] = []
    for ch, rp in zip(chunks, reps):
        model += rp.get("results", [None] * len(ch)) if isinstance(rp, dict) else [None] * len(ch)
    bad = 0
    toks = 0
    types: Counter = Counter()
    for t, r, m in zip(texts, real, model):
        if isinstance(r, dict) or m is None:
            bad += 1
            if bad <= 2:
                run.broken_tie("lexer tie: no answer from the ANTLR lexer or the Lean driver", {"text": t, "real": r, "model": m})
            continue
        rr = [[a, b, c] for a, b, c, _l, _c in r]
        toks += len(rr)
        for a, _b, _c in rr:
            types[a] += 1
        if rr != m:
            bad += 1
            if bad <= 2:
                i = next((i for i, (x, y) in enumerate(zip(rr, m)) if x != y), min(len(rr), len(m)))
                run.broken_tie("lexer tie: Lean lex (ESV/Lex/Model.lean) and the ANTLR lexer disagree",
                               {"text": t, "first_difference_at_token": i, "antlr": rr[i:i + 3], "lean": m[i:i + 3]})
    return {"texts": len(texts), "tokens": toks, "mismatches": bad, "token_types_seen": len(types)}


def shrink_args(ast: dict, still_fails: Any, budget: int = 60) -> dict:
    """second shrinking pass below statement level: drop single arguments, language-string entries and case entries"""
    def lists(a: dict) -> list[list]:
        out: list[list] = []

        def visit(x: Any) -> None:
            if isinstance(x, list):
                for v in x:
                    visit(v)
            elif isinstance(x, dict):
                if isinstance(x.get("args"), list) and x.get("t") != "macrocall":
                    out.append(x["args"])
                if x.get("k") == "lang" and len(x["v"]) > 1:
                    out.append(x["v"])
                if x.get("t") == "msgswitch":
                    out.append(x["cases"])
                for v in x.values():
                    visit(v)
        visit([rt["body"] for rt in a["routines"] if rt["body"] is not None])
        visit([m["body"] for m in a.get("macros", [])])
        return out
    cur = copy.deepcopy(ast)
    evals = 0
    progress = True
    while progress and evals < budget:
        progress = False
        n = len(lists(cur))
        for li in range(n):
            j = 0
            while evals < budget:
                ls = lists(cur)
                if li >= len(ls) or j >= len(ls[li]):
                    break
                trial = copy.deepcopy(cur)
                lt = lists(trial)[li]
                del lt[j]
                evals += 1
                ok = False
                try:
                    ok = still_fails(trial)
                except Exception:
                    ok = False
                if ok:
                    cur = trial
                    progress = True
                else:
                    j += 1
    return cur


def lib_record(p: dict) -> Any:
    if not p.get("lib"):
        return None
    pr = surface.Printer()
    for m in p["lib"]["macros"]:
        pr.macro(m)
    return {"name": p["lib"]["name"], "text": surface.layout(pr.toks)[0]}


def difference_shape(a: dict, b: dict) -> str:
    """narrow shape of the first differing op parameter (suffix of the violation kind)"""
    if "error" in a or "error" in b or a.get("ops") == b.get("ops") or len(a["ops"]) != len(b["ops"]):
        return ""
    for ra, rb in zip(a["ops"], b["ops"]):
        if len(ra) != len(rb):
            return ""
        for oa, ob in zip(ra, rb):
            if oa == ob:
                continue
            if oa["name"] != ob["name"] or len(oa["params"]) != len(ob["params"]):
                return ":op"
            for pa, pb in zip(oa["params"], ob["params"]):
                if pa == pb:
                    continue
                if isinstance(pa, dict) and isinstance(pb, dict):
                    if "fx" in pa and "fx" in pb:
                        v = pa["fx"]
                        whole = v.lstrip("-").split(".")[0].lstrip("0")
                        return ":fx_" + ("negative" if v.startswith("-") else "positive") + ("_nonzero_whole" if whole else "_zero_whole")
                    if "pm" in pa and "pm" in pb:
                        names = ["name", "x_offset", "y_offset", "x_relative", "y_relative"]
                        i = next(i for i in range(5) if pa["pm"][i] != pb["pm"][i])
                        extra = "_with_quote" if i == 0 and ("'" in pa["pm"][0] or '"' in pa["pm"][0]) else ""
                        return ":pm_" + names[i] + extra
                    for key in ("s", "ls", "c"):
                        if key in pa and key in pb:
                            return ":" + {"s": "string", "ls": "language_string", "c": "constant"}[key]
                return ":param_" + type(pa).__name__ + "_vs_" + type(pb).__name__
    return ""


# ----------------------------------------------------------------------------------------------------------------------
def ssbs_header_spellings(run: core.Run, pool: core.Pool, stats: Counter) -> int:
    """SsbScript sources go through the same compile(): the routine headers `def N for_actor(X)` / `def N for actor X` and the
    base in which N, X and integer arguments are written do not change the compiled result either"""
    r = run.rng
    bad = 0

    def spell(v: int, base: str) -> str:
        return {"dec": str(v), "hex": hex(v), "HEX": "0X" + format(v, "X"), "oct": oct(v), "bin": bin(v)}[base]
    cases = []
    for _ in range(12):
        kind = r.choice(["actor", "object", "performer"])
        tgt, arg = r.choice([0, 1, 7, 16, 255, 1000]), r.choice([0, 3, 26, 4096])
        variants = []
        for b in ["dec", "hex", "HEX", "oct", "bin"]:
            hdr = r.choice([f"def 1 for_{kind}({spell(tgt, b)})", f"def 1 for {kind} {spell(tgt, b)}"])
            variants.append(f"//?: is-ssb-script: true\ndef 0 {{\n    a({spell(arg, b)});\n    Return();\n}}\n{hdr} {{\n    b({spell(arg, 'dec')}, {spell(tgt, b)});\n    Hold();\n}}\n")
        cases.append(variants)
    res = escommon.compile_all(pool, [t for vs in cases for t in vs])
    k = 0
    for vs in cases:
        rs = res[k:k + len(vs)]
        k += len(vs)
        ref = observable(rs[0]) if "error" not in rs[0] else {"error": rs[0]["error"]}
        for t, x in zip(vs[1:], rs[1:]):
            stats["ssbscript_header_spellings"] += 1
            got = observable(x) if "error" not in x else {"error": x["error"]}
            if got != ref:
                bad += 1
                run.violation("ssbs:header_or_integer_base", "two SsbScript sources that differ only in the base of their integers / the spelling of the routine header compile differently",
                              {"reference": vs[0], "variant": t, "ref_result": ref, "variant_result": got})
    return bad


def run(run: core.Run) -> int:
    quick = run.tier == "quick"
    n_prog, k = (100, 8) if quick else (5000, 20)
    prep = core.lean_prepare(MODULES)
    aud = core.audit(THEOREMS, MODULES) if prep["proofs_ok"] else {"obligations": len(THEOREMS), "discharged": 0, "ok": False, "theorems": {}}
    jobs = core.jobs_for(run.tier)
    progs = gen_asts(run.rng, n_prog, run.tier)
    gstats: Counter = Counter()
    for p in progs:
        gstats.update(p["stats"])
        p["specs"] = plan(run.rng, k)
        p["texts"], p["toks"] = [], []
        for sp in p["specs"]:
            t, tk = render(p["ast"], sp)
            p["texts"].append(t)
            p["toks"].append(tk)
    pool = core.Pool(jobs)
    stats: Counter = Counter()
    n_viol = 0
    tie: dict = {}
    pair_stats: dict = {}
    import shutil
    import tempfile
    lib_dir = tempfile.mkdtemp(prefix="c16_imports_", dir="/tmp")
    try:
        n_viol += ssbs_header_spellings(run, pool, stats)
        write_libs(progs, lib_dir)
        flat = [t for p in progs for t in p["texts"]]
        results = compile_items(pool, [{"text": t, "file": p["file"]} for p in progs for t in p["texts"]], chunk=20, timeout=180)
        pos = 0
        for p in progs:
            p["res"] = results[pos:pos + len(p["texts"])]
            pos += len(p["texts"])
        # ---- property oracle
        for p in progs:
            ref = p["res"][0]
            if "error" in ref:
                stats["reference_rejected:" + ref["error"]] += 1
                # a program the compiler rejects is outside the quantifier; still: every rendering must be rejected alike
                for sp, r in zip(p["specs"][1:], p["res"][1:]):
                    if "error" not in r:
                        stats["rejected_reference_but_accepted_rendering"] += 1
                        run.notes.append(f"reference rendering rejected ({ref['error']}: {ref.get('msg', '')[:80]}) but rendering {sp} compiles")
                continue
            stats["programs_accepted"] += 1
            for sp, r, t in zip(p["specs"][1:], p["res"][1:], p["texts"][1:]):
                stats["renderings_compared"] += 1
                if r.get("no_answer"):
                    stats["no_answer"] += 1
                    continue
                diffs = differences(ref, r)
                if not diffs:
                    continue
                n_viol += 1
                fields = {f for f, _ in diffs}
                if n_viol <= 4:
                    dim, sp1 = attribute(pool, p["ast"], sp, fields, p["file"])

                    def still(a: dict, sp1: dict = sp1, fields: set = fields, file: Any = p["file"]) -> bool:
                        return any(f in fields for f, _ in check_variant(pool, a, sp1, file))
                    small = escommon.shrink(p["ast"], still, budget=60 if quick else 200)
                    small = shrink_args(small, still, budget=40 if quick else 120)
                    d2 = [d for d in check_variant(pool, small, sp1, p["file"]) if d[0] in fields] or diffs
                    st, _ = render(small, sp1)
                    rt, _ = render(small, {"dims": [], "rs": 0, "style": "canonical", "ls": 0})
                    ra, rb = compile_pair(pool, rt, st, p["file"])
                    run.violation(f"{dim}:{d2[0][0]}{difference_shape(ra, rb)}", f"re-spelling dimension '{dim}' changes the compilation: {d2[0][1]}",
                                  {"reference_text": rt, "respelled_text": st, "spec": sp1, "ast": small, "original_text": t, "lib": lib_record(p)})
                else:
                    run.violation(f"unattributed:{diffs[0][0]}{difference_shape(ref, r)}", diffs[0][1],
                                  {"reference_text": p["texts"][0], "respelled_text": t, "spec": sp, "lib": lib_record(p)})
        # ---- tie 1: printer token lists (what `render_lex` is about) and separator table
        drv = core.Driver() if prep["driver_ok"] else None
        if drv is not None:
            lex_texts = list(LEX_WITNESSES) + flat[: (1200 if quick else 12000)]
            crnd = random.Random(run.rng.getrandbits(40))
            lex_texts += [corrupt(crnd, crnd.choice(flat)) for _ in range(300 if quick else 6000)]
            for _ in range(2500 if quick else 60000):
                lex_texts.append("".join(crnd.choice(LEX_ALPHA) for _ in range(crnd.choice([1, 2, 3, 5, 8, 13, 30]))))
            tie = lexer_tie(run, pool, drv, lex_texts, jobs)
            pair_stats = token_checks(run, pool, drv, progs, quick)
    finally:
        pool.close()
        shutil.rmtree(lib_dir, ignore_errors=True)
    if not prep["proofs_ok"] or not aud["ok"] or not prep["driver_ok"]:
        run.broken_tie("Lean obligations of C16 do not check (build/audit/table tie)",
                       {"theorems": THEOREMS, "log": prep["log"][-3000:], "audit": {k_: v for k_, v in aud.items() if k_ != "theorems"}})
    if not quick and prep["proofs_ok"]:
        ok, out = core.leanchecker(MODULES)
        stats["leanchecker"] = 1 if ok else 0
        if not ok:
            run.broken_tie("leanchecker rejects the C16 modules", {"log": out})
    dims_used: Counter = Counter()
    for p in progs:
        for sp in p["specs"]:
            dims_used["style:" + sp["style"]] += 1
            for d in sp["dims"]:
                dims_used["dim:" + d] += 1
    cov = core.proof_coverage(run, prep, aud, MODULES, THEOREMS, {
        "programs": len(progs), "programs_importing_their_macros": sum(1 for p in progs if p.get("lib")), "renderings_per_program": k, "outcomes": dict(stats), "disagreements": n_viol,
        "evaluations": len(progs) * k, "distinct_nontrivial": core.distinct(t for p in progs for t in p["texts"] if "error" not in p["res"][0]),
        "rule": "grammar-directed random programs (harness/gen/programs.py, int styles on) with macros called from routines; each rendered k times: "
                "canonical / dense / random layout (random blanks, line comments, block comments, line joinings at every token boundary) x "
                "re-spelling dimensions int, dec, str, label, header, comma, pos; non-trivial = the reference rendering compiles",
        "spelling_dimensions_used": dict(dims_used), "constructs_generated": dict(gstats),
        "lexer_tie": tie, "token_checks": pair_stats,
        "samples": [progs[0]["texts"][0][:600], progs[0]["texts"][-1][:600]] if progs else [],
    })
    cov["trusted_base"] = cov["trusted_base"] + [
        "the ANTLR parser and the compiler's tree visitors are NOT modelled: parser-level invariance rests on the metamorphic oracle (exploration)",
        "harness printer harness/gen/surface.py (token lists, Respell) — its separator table is proved sound (needs_sep_sound) and compared with the Lean copy",
    ]
    cov["explanation"] = (
        "hybrid: (1) PROOF, all inputs - the listed Lean theorems about the lexer model and the literal readers (obligations/discharged/axioms above); "
        "(2) DIFFERENTIAL tie of that model with the generated ANTLR lexer on every rendered text, corrupted renderings and random strings (lexer_tie, token_checks); "
        "(3) EXPLORATION - the parser/compiler step is not modelled: k renderings of each generated program are compiled by the real compiler and compared field by field "
        "(programs, renderings_per_program, outcomes, disagreements)")
    return run.finish("other", cov, [
        "proof covers the lexer model and the literal readers (all inputs); the step from equal token sequences / literal values to equal ops is only tested (real compiler, generated programs)",
        "ANTLR's lexer semantics (longest match, first rule wins ties, non-greedy sub-rules stop at the first end) is modelled by hand and tied differentially",
        "string re-spellings stay inside the C04 guards (no backslashes, no line separators other than \\n in triple-quoted forms)",
    ])


def token_checks(run: core.Run, pool: core.Pool, drv: core.Driver, progs: list[dict], quick: bool) -> dict:
    """(a) the real lexer returns exactly the printer's token texts for every rendering (`render_lex` on the real lexer);
    (b) every printed token text is classified by the Lean model; (c) Lean needsSep == Python needs_sep on every adjacent
    pair, and a pair the table leaves unseparated is a safe boundary."""
    texts, toks = [], []
    for p in progs[: (100 if quick else 1500)]:
        for t, tk, sp_ in zip(p["texts"], p["toks"], p["specs"]):
            if sp_.get("crlf"):
                continue      # (the token texts of a CRLF rendering carry \r\n inside multi-line literals: not the printer's)
            texts.append(t)
            toks.append(tk)
    chunks = [texts[i:i + 100] for i in range(0, len(texts), 100)]
    outs = pool.map("harness.impl_lex:lex_many", chunks, timeout=300)
    real: list[Any] = []
    for ch, o in zip(chunks, outs):
        real += o if isinstance(o, list) else [None] * len(ch)
    bad = 0
    for t, tk, r in zip(texts, toks, real):
        if r is None or isinstance(r, dict) or [x[1] for x in r] != tk:
            bad += 1
            if bad <= 2:
                got = None if r is None or isinstance(r, dict) else [x[1] for x in r]
                i = 0 if got is None else next((i for i, (x, y) in enumerate(zip(got, tk)) if x != y), min(len(got), len(tk)))
                run.broken_tie("the ANTLR lexer does not return the printer's token texts for a rendering (printer separator table or lexer)",
                               {"text": t, "at": i, "printer": tk[i:i + 4], "antlr": None if got is None else got[i:i + 4]})
    distinct_toks = sorted({x for tk in toks for x in tk})
    pairs = sorted({(a, b) for tk in toks for a, b in zip(tk, tk[1:])})
    cls = drv.batch([{"op": "lex.classify", "texts": distinct_toks}])[0].get("results", [])
    unclassified = [t for t, c in zip(distinct_toks, cls) if c is None]
    if unclassified or len(cls) != len(distinct_toks):
        run.broken_tie("printer tokens the Lean model does not classify as one token", {"tokens": unclassified[:10]})
    bnd = drv.batch([{"op": "lex.boundary", "pairs": [[a, b] for a, b in pairs]}])[0].get("results", [])
    nb = 0
    unsafe = 0
    for (a, b), rr in zip(pairs, bnd):
        py = surface.needs_sep(a, b)
        if rr[0] != py:
            nb += 1
            if nb <= 2:
                run.broken_tie("Lean needsSep differs from the printer's needs_sep", {"a": a, "b": b, "lean": rr[0], "python": py})
        if not py and not rr[1]:
            unsafe += 1
            if unsafe <= 2:
                run.broken_tie("needs_sep leaves a pair unseparated that is not a safe boundary in the model", {"a": a, "b": b})
    if len(bnd) != len(pairs):
        run.broken_tie("lex.boundary: driver error", {})
    return {"renderings_token_checked": len(texts), "token_text_mismatches": bad, "distinct_token_texts": len(distinct_toks),
            "classes": dict(Counter(c for c in cls if c)), "adjacent_pairs": len(pairs), "needs_sep_mismatches": nb,
            "pairs_without_separator_needed": sum(1 for a, b in pairs if not surface.needs_sep(a, b))}


def replay(run: core.Run, path: str) -> int:
    from .. import impl_es
    data = json.load(open(path))
    rp = data["replay"]
    if "reference_text" not in rp:
        print("replay file carries no program pair (tie break):", json.dumps(rp)[:400])
        return 1
    extra: dict = {}
    tmp = None
    if rp.get("lib"):
        import os
        import tempfile
        tmp = tempfile.mkdtemp(prefix="c16_replay_", dir="/tmp")
        with open(os.path.join(tmp, rp["lib"]["name"]), "w", encoding="utf-8") as fh:
            fh.write(rp["lib"]["text"])
        extra = {"file": os.path.join(tmp, "main.exps")}
    try:
        a = impl_es.compile_text({"text": rp["reference_text"], **extra})
        b = impl_es.compile_text({"text": rp["respelled_text"], **extra})
    finally:
        if tmp:
            import shutil
            shutil.rmtree(tmp, ignore_errors=True)
    if "error" in a:
        print("reference no longer compiles:", a["error"])
        return 1
    d = differences(a, b)
    for f, w in d:
        print("VIOLATION-REPLAY", f, w)
    return 1 if d else 0
