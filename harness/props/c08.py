"""C08 — compile-time source map: every emitted op maps to where it was written.

Deciding method.
(oracle, independent of any model) Generated multi-file projects in which every op-producing source node is recognisable
from the CONTENT of the op it produces (harness/gen/marked.py): unique integer / name operands per node, a unique site
tag per macro call passed down the call path.  The expected signature of every node (opcode name + parameters) comes
from the lowering table of harness/gen/surface.py (the project's reading of docs/language_spec.rst) and from textual
macro substitution; the expected position comes from the harness' own printer (0-based line/col of the designated node
in the file the node is written in).  The real compiler's ops and source map are then checked clause by clause.
(proof, K3) Lean theorems about the SourceMapBuilder protocol for ALL command sequences and about the counting of
`ExplorerScriptMacro.build` for ALL blueprints (lean/ESV/Props/C08.lean), tied to the code on every run by replaying the
recorded real call sequence of every builder object through the Lean model (final tables must be identical), by
re-deriving the builder calls of every real `build` call from its recorded inputs with the Lean model of `build`, and by
evaluating the decidable disciplines of the theorems on the recorded sequences.
"""
from __future__ import annotations

import copy
import json
import os
import posixpath
import random
from collections import Counter
from typing import Any

from .. import core, escommon
from ..gen import surface, marked, macrofiles
from ..gen.programs import Cfg

MODULES = ["ESV.Props.C08"]
THEOREMS = ["ESV.C08.entry_is_last_add", "ESV.C08.macro_entry_uses_stack_top", "ESV.C08.direct_and_macro_disjoint_if",
            "ESV.C08.called_in_once", "ESV.C08.run_ok_iff_depthOk", "ESV.C08.push_pop_balanced", "ESV.C08.ret_addr_bounds",
            "ESV.C08.blueprint_seg", "ESV.C08.events_bounds", "ESV.C08.wfGo_stack_bound", "ESV.C08.buildLoop_trace",
            "ESV.C08.buildItems_blueprint"]

WEAK_NAMES = ("Jump", "Call")          # ops whose only parameter is a jump target: no content to recognise them by
START_KINDS = ("stmt", "hdr", "swhdr", "casehdr", "case", "branch", "routine")
CTRL_OPS = {"return": "Return", "end": "End", "hold": "Hold"}
DOC_POSMARK_FIELDS = 8                 # docs/source_maps.rst: line, column, argument index, name, x off, y off, x, y

# kinds of the findings still recorded as known; the kinds of the repaired findings (macro_posmark_nested_hang 1dfd06a,
# macro_file_of_transitive_import db2d608, macro_posmarks_of_other_macros_of_the_file a2649b8,
# macro_posmark_of_nested_same_file_call_has_null_file d39fded, param_mapping_stale_in_third_level_expansion 4303b4a) are
# still computed by the oracle (narrow kinds) but are ordinary violations now
KNOWN_KINDS = ["outer_call_site_shadowed_by_nested_first_call", "called_in_on_dropped_first_op", "posmark_tuple_layout_differs_from_docs"]


def relfile(project: dict, f: str) -> str | None:
    main = project["main"]
    return None if f == main else posixpath.relpath(f, posixpath.dirname(main) or ".")


def key_of(name: str, params: list) -> str:
    return json.dumps([name, params], sort_keys=True)


def subst(p: Any, env: dict) -> Any:
    if isinstance(p, dict) and "c" in p and p["c"] in env:
        return env[p["c"]]
    return p


def pstr(p: Any) -> str:
    """str() of a parameter as the documented parameter mapping shows it (ints and names only are generated)"""
    if isinstance(p, int):
        return str(p)
    if isinstance(p, dict) and "c" in p:
        return p["c"]
    return json.dumps(p)


# ----------------------------------------------------------------------------------------------------------------------
# expected side: nodes, instances, expansions (no compiler modelling: statement walk + textual macro substitution)
# ----------------------------------------------------------------------------------------------------------------------
class Expected:
    def __init__(self, project: dict, pos: dict):
        self.p = project
        self.pos = pos
        self.macros: dict[str, tuple[str, dict]] = {}
        for f, ast in project["files"].items():
            for m in ast["macros"]:
                self.macros.setdefault(m["name"], (f, m))
        self.inst: list[dict] = []
        self.exp: list[dict] = []
        self.direct_marks: list[dict] = []      # argument lists with Position literals written in routines of the compiled file
        self.macro_marks: list[dict] = []       # … written in macros: {"file", "macro", "span", "mark"}
        self.call_marks: list[tuple] = []       # marks passed as macro call arguments
        main = project["main"]
        cur = -1
        for r in project["files"][main]["routines"]:
            cur = cur + 1 if r["kind"] == "coro" else r["id"]
            if r["body"] is not None:
                self.block(r["body"], {"file": main, "macro": None, "env": None, "exp": None, "routine": cur})
        for f, ast in project["files"].items():
            for m in ast["macros"]:
                self.collect_marks(m["body"], f, m["name"])
        for r in project["files"][main]["routines"]:
            if r["body"] is not None:
                self.collect_marks(r["body"], main, None)
        self.starts = {f: {tuple(v["start"]) for k, v in pos[f].items() if k[0] in START_KINDS and "start" in v} for f in pos}
        self.index: dict[tuple, list[int]] = {}
        for i, x in enumerate(self.inst):
            self.index.setdefault((x["routine"], x["jump"], key_of(x["name"], x["params"])), []).append(i)
        self.anc: dict[int | None, list[int]] = {None: []}
        for e in self.exp:
            self.anc[e["id"]] = [e["id"]] + self.anc[e["parent"]]

    # ---- position marks written in the sources
    def collect_marks(self, stmts: list[dict], f: str, macro: str | None) -> None:
        def args(a: list[dict], is_call: bool = False) -> None:
            for x in a:
                if x.get("k") == "pos":
                    p = self.pos[f].get(("argl", id(a)))
                    span = None if p is None else [p["start"][0], p["start"][1], p["end"][0], p["end"][1]]
                    rec = {"file": f, "macro": macro, "span": span, "mark": surface.arg_param(x)["pm"], "call": is_call}
                    (self.macro_marks if macro else self.direct_marks).append(rec)
        for blk in marked.all_blocks(stmts):
            for s in blk:
                t = s["t"]
                if t == "op":
                    args(s["args"])
                elif t == "with" and s["stmt"]["t"] == "op":
                    args(s["stmt"]["args"])
                elif t == "macrocall":
                    args(s["args"], True)
                elif t == "if":
                    for b in s["branches"]:
                        for h in b["headers"]:
                            if h["h"] == "operation":
                                args(h["args"])
                elif t in ("while", "for"):
                    if s["header"]["h"] == "operation":
                        args(s["header"]["args"])
                    if t == "for":
                        for q in (s["init"], s["inc"]):
                            if q["t"] == "op":
                                args(q["args"])
                elif t == "switch" and s["header"]["s"] == "operation":
                    args(s["header"]["args"])

    # ---- op-producing nodes
    def emit(self, cx: dict, kind: str, poskey: tuple, name: str, params: list, jump: bool = False) -> None:
        if cx["env"] is not None:
            params = [subst(p, cx["env"]) for p in params]
        self.inst.append({"kind": kind, "file": cx["file"], "macro": cx["macro"], "poskey": poskey, "name": name,
                          "params": params, "jump": jump, "exp": cx["exp"], "routine": cx["routine"]})

    def block(self, stmts: list[dict], cx: dict) -> None:
        for s in stmts:
            self.stmt(s, cx)

    def header(self, h: dict, cx: dict) -> None:
        name, params = surface.lower_header(h)
        self.emit(cx, "hdr:" + h["h"], ("hdr", id(h)), name, params, True)

    def simple(self, s: dict, cx: dict) -> None:
        t = s["t"]
        if t == "op":
            if s.get("ctx"):
                self.emit(cx, "inline_ctx", ("stmt", id(s)), surface.CTX_OPS[s["ctx"]["kind"]], [surface.il_param(s["ctx"]["target"])])
            self.emit(cx, "op", ("stmt", id(s)), s["name"], [surface.arg_param(a) for a in s["args"]])
        elif t == "assign":
            _, name, params = surface.lower_assign(s)
            self.emit(cx, "assign:" + s["form"], ("stmt", id(s)), name, params)
        elif t == "ctrl" and s["k"] in CTRL_OPS and not (s["k"] == "return" and cx["macro"] is not None):
            # (`return` inside a macro is a jump to the end of the expansion: a label jump)
            self.emit(cx, "ctrl", ("stmt", id(s)), CTRL_OPS[s["k"]], [])
        # label / jump / call / break / continue / break_loop: label jumps, checked for existence only

    def stmt(self, s: dict, cx: dict) -> None:
        t = s["t"]
        if t in ("op", "assign", "ctrl", "label", "jump", "call"):
            self.simple(s, cx)
        elif t == "with":
            self.emit(cx, "with_ctx", ("stmt", id(s)), surface.CTX_OPS[s["kind"]], [surface.il_param(s["target"])])
            self.simple(s["stmt"], cx)
        elif t == "if":
            for b in s["branches"]:
                for h in b["headers"]:
                    self.header(h, cx)
                self.block(b["body"], cx)
            if s.get("else") is not None:
                self.block(s["else"], cx)
        elif t == "switch":
            name, params = surface.lower_switch_header(s["header"])
            self.emit(cx, "swhdr:" + s["header"]["s"], ("swhdr", id(s["header"])), name, params)
            for c in s["cases"]:
                if not c.get("default"):
                    cn, cp = surface.lower_case_header(c["header"], name)
                    self.emit(cx, "casehdr:" + c["header"]["c"], ("casehdr", id(c["header"])), cn, cp, True)
                self.block(c["body"], cx)
        elif t == "msgswitch":
            self.emit(cx, "msgswitch", ("stmt", id(s)), "message_SwitchTalk" if s["kind"] == "talk" else "message_SwitchMonologue",
                      [surface.il_param(s["v"])])
            for c in s["cases"]:
                if c.get("default"):
                    self.emit(cx, "msgdefault", ("case", id(c)), "DefaultText", [surface.arg_param(c["string"])])
                else:
                    self.emit(cx, "msgcase", ("case", id(c)), "CaseText", [surface.il_param(c["v"]), surface.arg_param(c["string"])])
        elif t == "forever":
            self.block(s["body"], cx)
        elif t == "while":
            self.header(s["header"], cx)
            self.block(s["body"], cx)
        elif t == "for":
            self.simple(s["init"], cx)
            self.header(s["header"], cx)
            self.simple(s["inc"], cx)
            self.block(s["body"], cx)
        elif t == "macrocall":
            if s["name"] not in self.macros:
                return
            f, m = self.macros[s["name"]]
            args = [surface.arg_param(a) for a in s["args"]]
            if cx["env"] is not None:
                args = [subst(a, cx["env"]) for a in args]
            depth = len(self.anc_of(cx["exp"])) + 1
            e = {"id": len(self.exp), "parent": cx["exp"], "site_file": cx["file"], "site": s, "macro": s["name"], "def_file": f,
                 "env": dict(zip(m["params"], args)), "routine": cx["routine"], "depth": depth}
            self.exp.append(e)
            if depth <= 6:
                self.block(m["body"], {"file": f, "macro": s["name"], "env": e["env"], "exp": e["id"], "routine": cx["routine"]})

    # ---- census: how many entries (emitted ops or not) each node registers at its own start
    def census(self) -> dict[tuple, list]:
        """{("d", (line, col)) | ("m", macro, (line, col)): [lo, hi, label]}: number of source map entries (keys of `map` resp.
        `macros.map`, whether the op is emitted or was dropped later) that must sit at the start of each node.
        Read from the registration calls of the handlers (one `add_opcode` per generated op at the handler's ctx.start):
        a plain op / assignment / context op / header op / case op / control statement / jump / call registers exactly one
        entry at its own start; a loop statement exactly one (its entry or back jump); a switch with cases exactly one (the
        default jump); an if statement its no-else jump plus possibly the jump that ends its first branch; an elseif branch
        possibly one.  An operation used as condition or switch header registers a second entry (the operation itself) in
        the compiled file; in a macro that op is not part of the blueprint.  Inside macros a jump that is alone in an
        if / elseif / case body may be folded into the header op and then is not part of the blueprint.
        Label jumps carry no content, so this census is what ties every `continue` / `break` / `break_loop` / `jump` / `call`
        statement and every loop / if / switch to its own entries."""
        exp: dict[tuple, list] = {}
        nexp = Counter(e["macro"] for e in self.exp)

        def add(f: str, macro: str | None, poskey: tuple, lo: int, hi: int, label: str) -> None:
            p = self.pos[f].get(poskey)
            if p is None or "start" not in p:
                return
            mult = 1 if macro is None else nexp[macro]
            k = ("d", tuple(p["start"])) if macro is None else ("m", macro, tuple(p["start"]))
            cur = exp.setdefault(k, [0, 0, []])
            cur[0] += lo * mult
            cur[1] += hi * mult
            cur[2].append(label)

        def hdr(f: str, macro: str | None, h: dict) -> None:
            n = 2 if (h["h"] == "operation" and macro is None) else 1
            add(f, macro, ("hdr", id(h)), n, n, "hdr:" + h["h"])

        def simple(f: str, macro: str | None, s_: dict, alone_foldable: bool) -> None:
            t = s_["t"]
            key = ("stmt", id(s_))
            if t == "op":
                n = 2 if s_.get("ctx") else 1
                add(f, macro, key, n, n, "op")
            elif t == "assign":
                add(f, macro, key, 1, 1, "assign")
            elif t == "ctrl":
                k = s_["k"]
                if k in ("break", "continue", "break_loop"):
                    add(f, macro, key, 0 if (macro is not None and alone_foldable) else 1, 1, k)
                else:
                    add(f, macro, key, 1, 1, k)
            elif t == "jump":
                add(f, macro, key, 0 if (macro is not None and alone_foldable) else 1, 1, "jump")
            elif t == "call":
                add(f, macro, key, 1, 1, "call")

        def block(f: str, macro: str | None, stmts: list[dict], foldable: bool) -> None:
            for s_ in stmts:
                stmt(f, macro, s_, foldable and len(stmts) == 1)

        def stmt(f: str, macro: str | None, s_: dict, alone_foldable: bool) -> None:
            t = s_["t"]
            key = ("stmt", id(s_))
            if t in ("op", "assign", "ctrl", "jump", "call", "label"):
                simple(f, macro, s_, alone_foldable)
            elif t == "with":
                add(f, macro, key, 1, 1, "with")
                simple(f, macro, s_["stmt"], False)
            elif t == "if":
                lo = 0 if s_.get("else") is not None else 1
                add(f, macro, key, lo, lo + 1, "if")
                for bi, b in enumerate(s_["branches"]):
                    if bi:
                        add(f, macro, ("branch", id(b)), 0, 1, "elseif")
                    for h in b["headers"]:
                        hdr(f, macro, h)
                    block(f, macro, b["body"], True)
                if s_.get("else") is not None:
                    block(f, macro, s_["else"], False)
            elif t == "switch":
                sh = s_["header"]
                n = 2 if (sh["s"] == "operation" and macro is None) else 1
                add(f, macro, ("swhdr", id(sh)), n, n, "swhdr:" + sh["s"])
                one = 1 if s_["cases"] else 0
                add(f, macro, key, one, one, "switch")
                for c in s_["cases"]:
                    if not c.get("default"):
                        add(f, macro, ("casehdr", id(c["header"])), 1, 1, "casehdr")
                    add(f, macro, ("case", id(c)), 0, 0, "case")
                    block(f, macro, c["body"], True)
            elif t == "msgswitch":
                add(f, macro, key, 1, 1, "msgswitch")
                for c in s_["cases"]:
                    add(f, macro, ("case", id(c)), 1, 1, "msgcase")
            elif t == "forever":
                add(f, macro, key, 1, 1, "forever")
                block(f, macro, s_["body"], False)
            elif t == "while":
                add(f, macro, key, 1, 1, "while")
                hdr(f, macro, s_["header"])
                block(f, macro, s_["body"], False)
            elif t == "for":
                add(f, macro, key, 1, 1, "for")
                simple(f, macro, s_["init"], False)
                hdr(f, macro, s_["header"])
                simple(f, macro, s_["inc"], False)
                block(f, macro, s_["body"], False)
            elif t == "macrocall":
                add(f, macro, key, 0, 0, "macrocall")

        main = self.p["main"]
        for r in self.p["files"][main]["routines"]:
            add(main, None, ("routine", id(r)), 0, 1, "routine")
            if r["body"] is not None:
                block(main, None, r["body"], False)
        for f, ast in self.p["files"].items():
            for m in ast["macros"]:
                if self.macros.get(m["name"], (None, None))[1] is m:
                    block(f, m["name"], m["body"], False)
        return exp

    def anc_of(self, e: int | None) -> list[int]:
        out = []
        while e is not None:
            out.append(e)
            e = self.exp[e]["parent"]
        return out

    def node_pos(self, x: dict) -> list | None:
        p = self.pos[x["file"]].get(x["poskey"])
        return None if p is None else list(p["start"])

    def call_site(self, e: dict) -> list:
        p = self.pos[e["site_file"]][("stmt", id(e["site"]))]["start"]
        return [relfile(self.p, e["site_file"]), p[0], p[1]]

    def imports_closure(self, f: str) -> set:
        return macrofiles.ProjectGen.closure(f, self.p.get("imports_of", {}))


# ----------------------------------------------------------------------------------------------------------------------
# the oracle
# ----------------------------------------------------------------------------------------------------------------------
def check_project(project: dict, pos: dict, res: dict, stats: Counter | None = None, texts: dict | None = None) -> list[tuple[str, str]]:
    """all clauses of C08 on one compiled project; returns [(kind, what)]"""
    st = stats if stats is not None else Counter()
    bad: list[tuple[str, str]] = []
    ex = Expected(project, pos)
    sm = res["source_map"]
    dmap = {int(k): v for k, v in sm["map"].items()}
    mmap = {int(k): v for k, v in sm["macros"]["map"].items()}
    ops = [(ri, o) for ri, r in enumerate(res["ops"]) for o in r]
    offs = [o["off"] for _, o in ops]
    emitted = set(offs)
    main = project["main"]

    # (a) every emitted op has exactly one entry
    for ri, o in ops:
        k = o["off"]
        if k not in dmap and k not in mmap:
            bad.append(("op_without_entry", f"op {k} ({o['name']} {o['params']}) of routine {ri} has no source map entry"))
        elif k in dmap and k in mmap:
            bad.append(("op_in_both_tables", f"op {k} ({o['name']}) has a direct and a macro entry"))
    st["entries_for_offsets_not_emitted"] += len([k for k in list(dmap) + list(mmap) if k not in emitted])
    st["emitted_ops"] += len(ops)

    # candidates of every emitted op
    cands: dict[int, list[int]] = {}
    for ri, o in ops:
        c = list(ex.index.get((ri, False, key_of(o["name"], o["params"])), []))
        if o["params"]:
            c += ex.index.get((ri, True, key_of(o["name"], o["params"][:-1])), [])
        cands[o["off"]] = c
    n_by_key: Counter = Counter()
    for ri, o in ops:
        n_by_key[(ri, key_of(o["name"], o["params"]))] += 1

    lines = {f: t.split("\n") for f, t in (texts or {}).items()}

    def weak_ok(entry_file: str, line: int, col: int) -> bool:
        if (line, col) in ex.starts.get(entry_file, set()):
            return True
        # the jump that ends an else block is registered at the `else` keyword (the printer has no mark for it)
        ls = lines.get(entry_file)
        return ls is not None and 0 <= line < len(ls) and ls[line][col:col + 4] == "else"

    files_by_rel = {relfile(project, f): f for f in project["files"]}
    definite: dict[int, int] = {}     # offset -> instance id (unique candidate)
    for ri, o in ops:
        k = o["off"]
        if k not in dmap and k not in mmap:
            continue
        c = cands[k]
        weak = o["name"] in WEAK_NAMES or (o["name"] == "Return" and not o["params"] and n_by_key[(ri, key_of("Return", []))] > len(c))
        if weak:
            cands[k] = []      # (no content to tell which node: never used to delimit expansions)
        if not c or weak:
            # label jumps, the dummy end: an entry must exist and point at the start of some statement / header / case
            st["weak_checked"] += 1
            if k in dmap:
                if not weak_ok(main, dmap[k][0], dmap[k][1]):
                    bad.append(("jump_entry_not_at_a_node_start", f"op {k} ({o['name']}): direct entry {dmap[k]} is not the start of a statement, header, case or routine of the compiled file"))
            else:
                e = mmap[k]
                f = files_by_rel.get(e[0])
                if f is None or not weak_ok(f, e[2], e[3]):
                    # the file may be mis-named by the transitive-import defect: accept the position in any project file, the file itself is checked on recognisable ops
                    if not any(weak_ok(g, e[2], e[3]) for g in project["files"]):
                        bad.append(("jump_entry_not_at_a_node_start", f"op {k} ({o['name']}): macro entry {e[:4]} is not the start of a statement, header or case"))
            if not c and not weak and o["name"] != "Return":
                bad.append(("op_not_attributable_to_a_source_node", f"op {k} ({o['name']} {o['params']}) of routine {ri} matches no op-producing node of the sources"))
            continue
        if len(c) == 1:
            definite[k] = c[0]
        st["exact" if len(c) == 1 else "candidate_set"] += 1
        # (b)/(c) per-op clauses: the entry must agree with at least one candidate; report against the best one
        best: list[tuple[str, str]] | None = None
        best_rank = (0, 0)
        for ci in c:
            x = ex.inst[ci]
            errs: list[tuple[str, str]] = []
            want = ex.node_pos(x)
            if x["exp"] is None:
                if k not in dmap:
                    errs.append(("entry_in_wrong_table", f"op {k} ({o['name']}) is written in the compiled file but has a macro entry {mmap[k][:4]}"))
                elif dmap[k] != want:
                    errs.append(("direct_entry_position:" + x["kind"], f"op {k} ({o['name']} {o['params']}): entry {dmap[k]}, the {x['kind']} node begins at {want}"))
            else:
                if k not in mmap:
                    errs.append(("entry_in_wrong_table", f"op {k} ({o['name']}) comes from macro {x['macro']} but has a direct entry {dmap[k]}"))
                else:
                    e = mmap[k]
                    ee = ex.exp[x["exp"]]
                    wf = relfile(project, x["file"])
                    if e[0] != wf:
                        site_f = ee["site_file"]
                        via = [relfile(project, d) for d in project.get("imports_of", {}).get(site_f, []) if x["file"] in ex.imports_closure(d) and d != x["file"]]
                        # the defect also relabels macros of files imported by an imported file of ANY enclosing import chain
                        via_any = [relfile(project, d) for d in project["files"] if d != x["file"] and x["file"] in ex.imports_closure(d) and d != main]
                        kind = "macro_file_of_transitive_import" if (e[0] in via or e[0] in via_any) else "macro_entry_file"
                        errs.append((kind, f"op {k} ({o['name']}): macro {x['macro']} is defined in {wf!r}, the entry names {e[0]!r}"))
                    if e[1] != x["macro"]:
                        errs.append(("macro_entry_name", f"op {k}: entry names macro {e[1]!r}, the op is written in macro {x['macro']!r}"))
                    if [e[2], e[3]] != want:
                        errs.append(("macro_entry_position:" + x["kind"], f"op {k} ({o['name']}): entry ({e[2]}, {e[3]}), the {x['kind']} node begins at {want} of {x['file']}"))
                    wantpm = {p: pstr(v) for p, v in ee["env"].items()}
                    if dict(e[6]) != wantpm:
                        kind = "param_mapping_stale_in_third_level_expansion" if ee["depth"] >= 3 else "param_mapping"
                        errs.append((kind, f"op {k}: parameter mapping {e[6]}, effective values {wantpm}"))
            if not errs:
                best = []
                break
            rank = (len([1 for kk, _ in errs if kk not in KNOWN_KINDS]), len(errs))
            if best is None or rank < best_rank:
                best, best_rank = errs, rank
        if best:
            bad += best
        st["kind:" + ex.inst[c[0]]["kind"]] += 1
        if ex.inst[c[0]]["exp"] is not None:
            st["macro_ops"] += 1

    # expansion-level clauses: called_in on the first op, return address bounds
    order = sorted(ops, key=lambda t: t[1]["off"])
    possible: dict[int, set] = {}   # offset -> expansions the op may belong to (incl. enclosing ones)
    for ri, o in order:
        k = o["off"]
        s: set = set()
        for ci in cands[k]:
            s |= set(ex.anc[ex.inst[ci]["exp"]])
        possible[k] = s
    unknown_macro_ops = [o["off"] for _, o in order if o["off"] in mmap and not cands[o["off"]]]
    members_def: dict[int, list[int]] = {}
    members_pos: dict[int, list[int]] = {}
    for k, ci in definite.items():
        for e in ex.anc[ex.inst[ci]["exp"]]:
            members_def.setdefault(e, []).append(k)
    for k, s in possible.items():
        for e in s:
            members_pos.setdefault(e, []).append(k)
    list_pos = {d: i for i, d in enumerate(offs)}     # position in the emitted lists (routine by routine)
    rets: dict[int, set] = {}
    for k, ci in sorted(definite.items()):
        x = ex.inst[ci]
        if x["exp"] is None or k not in mmap:
            continue
        e = mmap[k]
        X = x["exp"]
        # --- called_in
        firsts = []
        for Y in ex.anc[X]:
            lo = min(members_pos[Y])
            # unknown macro ops (label jumps inside macros) before k might be the real first op of Y: then nothing is decided
            if lo == k and not any(u < k and u > max([d for d in offs if d < k and d in dmap] or [-1]) for u in unknown_macro_ops):
                firsts.append(Y)
        ci_act = e[4]
        if not firsts:
            lo_def = min(members_def[X])
            if ci_act is not None and lo_def < k:
                bad.append(("called_in_on_non_first_op", f"op {k} of macro {x['macro']} carries the call position {ci_act} but op {lo_def} of the same expansion precedes it"))
        else:
            sites = [ex.call_site(ex.exp[Y]) for Y in firsts]
            if ci_act is None:
                # was it put on an op that was dropped just before?
                prev_emitted = max([d for d in offs if d < k] or [0])
                dropped = [d for d in mmap if prev_emitted < d < k and d not in emitted and mmap[d][4] is not None]
                if dropped:      # (its call position may itself be that of a nested call: both defects combine)
                    bad.append(("called_in_on_dropped_first_op", f"expansion of {x['macro']}: the call position {sites[0]} is recorded on op {dropped[0]}, which jump elimination dropped; op {k}, the first emitted op, has none"))
                else:
                    bad.append(("called_in_missing", f"op {k} is the first op of an expansion of {x['macro']} called at {sites[0]} but carries no call position"))
            elif ci_act == sites[0]:
                st["called_in_exact"] += 1
                for Y, sY in list(zip(firsts, sites))[1:]:
                    bad.append(("outer_call_site_shadowed_by_nested_first_call", f"op {k} is also the first op of the expansion of {ex.exp[Y]['macro']} called at {sY}; the entry only carries the call of {x['macro']} at {ci_act}"))
            elif ci_act[1:] == sites[0][1:] and ci_act[0] in [relfile(project, d) for d in project["files"]
                                                            if d not in (main, ex.exp[firsts[0]]["site_file"]) and ex.exp[firsts[0]]["site_file"] in ex.imports_closure(d)]:
                bad.append(("macro_file_of_transitive_import", f"op {k}: call position {ci_act}, the call is written in {sites[0][0]!r} (imported through {ci_act[0]!r})"))
            elif ci_act[1:] == sites[0][1:]:
                bad.append(("called_in_file", f"op {k}: call position {ci_act}, the call is written in {sites[0][0]!r}"))
            else:
                bad.append(("called_in_wrong_position", f"op {k}: call position {ci_act}, the call statement begins at {sites[0]}"))
        # --- return address
        r = e[5]
        rets.setdefault(X, set()).add(r)
        hi = max(members_def[X])
        if r is None or r <= hi:
            bad.append(("return_addr_not_after_expansion", f"op {k} of macro {x['macro']}: return address {r}, op {hi} belongs to the same expansion"))
        else:
            after = [d for d in offs if d > hi and (d in dmap or (cands[d] and X not in possible[d]))]
            # … and in the order the ops are EMITTED (the op executed / listed next; op numbers need not follow that order):
            # the first op listed behind the last op of the expansion that cannot belong to it
            last_pos = max(list_pos[d] for d in members_def[X])
            behind = [d for d in offs[last_pos + 1:] if d in dmap or (cands[d] and X not in possible[d])]
            if after and r > min(after):
                bad.append(("return_addr_after_following_op", f"op {k} of macro {x['macro']}: return address {r}, the first op after the expansion is {min(after)}"))
            elif behind and r > behind[0]:
                bad.append(("return_addr_after_following_op", f"op {k} of macro {x['macro']}: return address {r}, but the op emitted right behind the expansion (after op {offs[last_pos]}) is op {behind[0]}: the return address skips it"))
            else:
                st["return_addr_checked"] += 1
    for X, rs in rets.items():
        if len(rs) > 1:
            bad.append(("return_addr_differs_within_expansion", f"expansion of {ex.exp[X]['macro']}: return addresses {sorted(rs, key=str)}"))

    # (c') census: every node has the entries it registers, at its own start — this is what pins the label jumps
    # (continue / break / break_loop / jump / call statements, loop, if and switch jumps) to their statements
    want_census = ex.census()
    got_census: Counter = Counter()
    for v in dmap.values():
        got_census[("d", (v[0], v[1]))] += 1
    for v in mmap.values():
        got_census[("m", v[1], (v[2], v[3]))] += 1
    macro_file = {n: fm[0] for n, fm in ex.macros.items()}
    nexp_by_macro = Counter(e["macro"] for e in ex.exp)
    for key in sorted(set(want_census) | set(got_census), key=str):
        n = got_census.get(key, 0)
        if key in want_census:
            lo, hi, labels = want_census[key]
            if not lo <= n <= hi:
                lab = "+".join(sorted(set(labels)))
                where = f"{key[-1]} of the compiled file" if key[0] == "d" else f"{key[-1]} of macro {key[1]}"
                bad.append((f"entry_count_at:{lab}", f"{n} source map entr{'y' if n == 1 else 'ies'} at {where} (start of: {lab}); the node(s) there register "
                            + (f"exactly {lo}" if lo == hi else f"{lo} to {hi}") + " (emitted or dropped ops)"))
            else:
                st["census_positions_ok"] += 1
        else:
            # not the start of any node: only the `else` keyword (jump ending the else block) is possible, once per expansion
            f_ = main if key[0] == "d" else macro_file.get(key[1])
            ls = lines.get(f_) if f_ else None
            l_, c_ = key[-1]
            mult = 1 if key[0] == "d" else max(1, nexp_by_macro.get(key[1], 0))
            if ls is None:
                continue
            if not (0 <= l_ < len(ls) and ls[l_][c_:c_ + 4] == "else" and n <= mult):
                bad.append(("entry_at_no_node_start", f"{n} source map entr{'y' if n == 1 else 'ies'} at {key[-1]} of {f_}, which is not the start of a statement, header, case, else or routine"))

    # (d) files named by macro entries = imported files that contributed ops
    named = {mmap[k][0] for k in emitted if k in mmap and mmap[k][0] is not None}
    contributing_min = {relfile(project, ex.inst[ci]["file"]) for k, ci in definite.items() if ex.inst[ci]["exp"] is not None} - {None}
    contributing_max = {relfile(project, e["def_file"]) for e in ex.exp} - {None}
    all_named = {v[0] for v in mmap.values() if v[0] is not None}
    if not any(k.startswith("macro_file") or k == "macro_entry_file" for k, _ in bad):
        if not contributing_min <= named:
            bad.append(("contributing_file_not_named", f"files {sorted(contributing_min - named)} contributed ops but no macro entry names them"))
        if not named <= contributing_max:
            extra = named - contributing_max
            contrib_files = {e["def_file"] for e in ex.exp}
            through = all(files_by_rel.get(nf) is not None and any(cf != files_by_rel[nf] and cf in ex.imports_closure(files_by_rel[nf]) for cf in contrib_files)
                          for nf in extra)
            kind = "macro_file_of_transitive_import" if through else "named_file_did_not_contribute"
            bad.append((kind, f"macro entries name {sorted(extra)}, which contributed no op" + (" (files through which a contributing file is imported)" if through else "")))
    inc = set(res.get("included", []))
    want_inc = {posixpath.normpath(posixpath.join(posixpath.dirname(main), f)) for f in all_named}
    if inc != want_inc:
        bad.append(("included_usage_map_differs_from_named_files", f"IncludedUsageMap gives {sorted(inc)}, the macro entries name {sorted(want_inc)}"))

    # (e) position marks
    em: Counter = Counter()
    for _, o in ops:
        for p in o["params"]:
            if isinstance(p, dict) and "pm" in p:
                em[tuple(p["pm"])] += 1
    rec: Counter = Counter()
    for t in sm["pos_marks"]:
        rec[tuple(t[4:9])] += 1
    for t in sm["macros"]["pos_marks"]:
        rec[tuple(t[2][4:9])] += 1
    if em or rec:
        st["programs_with_position_marks"] += 1
    if em != rec:
        surplus, missing = rec - em, em - rec
        call_marks = {tuple(m["mark"]) for m in ex.direct_marks + ex.macro_marks if m["call"]}
        multi = any(len(a["macros"]) >= 2 for a in project["files"].values())
        if (set(surplus) | set(missing)) <= call_marks:
            kind = "posmark_passed_as_macro_argument"
        elif not missing and multi and all(any(tuple(m["mark"]) == s for m in ex.macro_marks) for s in surplus):
            kind = "macro_posmarks_of_other_macros_of_the_file"
        else:
            kind = "position_marks_differ_from_parameters"
        bad.append((kind, f"recorded but not in any emitted parameter: {dict(surplus)}; emitted but not recorded: {dict(missing)}"))
    else:
        st["posmark_multisets_equal"] += 1
    for t in sm["pos_marks"]:
        if not any(m["span"] == t[0:4] and tuple(m["mark"]) == tuple(t[4:9]) for m in ex.direct_marks):
            bad.append(("direct_posmark_span", f"position mark {t}: no argument list of the compiled file with that mark spans {t[0:4]} (first token .. last token of the argument list)"))
    for f, mn, t in sm["macros"]["pos_marks"]:
        hits = [m for m in ex.macro_marks if m["span"] == t[0:4] and tuple(m["mark"]) == tuple(t[4:9])]
        if not hits:
            bad.append(("macro_posmark_span", f"macro position mark {[f, mn, t]}: no argument list of a macro with that mark spans {t[0:4]}"))
        elif not any(relfile(project, m["file"]) == f and m["macro"] == mn for m in hits):
            if any(relfile(project, m["file"]) == f for m in hits):
                bad.append(("macro_posmarks_of_other_macros_of_the_file", f"macro position mark {t[4:9]} is attributed to macro {mn!r} of {f!r} but is written in macro {hits[0]['macro']!r}"))
            else:
                hf = hits[0]["file"]
                through = [relfile(project, d) for d in project["files"] if d not in (main, hf) and hf in ex.imports_closure(d)]
                # some macro of that file calls a macro of the same file (expanded or not: all macros of a file share the tables)
                own = {m["name"] for m in project["files"][hf]["macros"]}
                nested_same_file = any(s_["t"] == "macrocall" and s_["name"] in own for m in project["files"][hf]["macros"]
                                       for blk in marked.all_blocks(m["body"]) for s_ in blk)
                if f in through:
                    kind = "macro_file_of_transitive_import"
                elif f is None and hf != main and nested_same_file:
                    kind = "macro_posmark_of_nested_same_file_call_has_null_file"
                else:
                    kind = "macro_posmark_file"
                bad.append((kind, f"macro position mark {t[4:9]} is attributed to file {f!r} but is written in {relfile(project, hf)!r}"))
    for t in sm["pos_marks"] + [y[2] for y in sm["macros"]["pos_marks"]]:
        if not (len(t) == DOC_POSMARK_FIELDS and isinstance(t[3], str)):
            bad.append(("posmark_tuple_layout_differs_from_docs", f"position mark tuple {t} has {len(t)} fields (line, column, end line, end column, name, …); docs/source_maps.rst documents 8 (line, column, argument index, name, …)"))
            break
    st["expansions"] += len(ex.exp)
    st["expansions_depth2"] += len([e for e in ex.exp if e["depth"] == 2])
    st["expansions_depth3"] += len([e for e in ex.exp if e["depth"] >= 3])
    st["definite_ops"] += len(definite)
    # one report per kind and project
    seen: set = set()
    out = []
    for k, w in bad:
        if k not in seen:
            seen.add(k)
            out.append((k, w))
    return out


# ----------------------------------------------------------------------------------------------------------------------
# model tie: replay of the recorded builder protocol, re-derivation of every build call, disciplines
# ----------------------------------------------------------------------------------------------------------------------
def canon_sm(sm: dict) -> dict:
    return {"map": sorted([int(k), v] for k, v in sm["map"].items()), "pos_marks": sm["pos_marks"],
            "macros": sorted([int(k), v[:6] + [sorted(dict(v[6]).items())]] for k, v in sm["macros"]["map"].items()),
            "macro_pos_marks": sm["macros"]["pos_marks"]}


def canon_model_sm(m: dict) -> dict:
    return {"map": sorted([k, v] for k, v in m["map"]), "pos_marks": m["pos_marks"],
            "macros": sorted([k, v[:6] + [sorted((a, b) for a, b in v[6])]] for k, v in m["macros"]),
            "macro_pos_marks": m["pos_marks_macro"]}


def tie_requests(res: dict) -> tuple[list[dict], list[tuple]]:
    tr = res["trace"]
    reqs, idx = [], []
    for i, log in enumerate(tr["logs"]):
        reqs.append({"op": "smb.replay", "cmds": log})
        idx.append(("replay", i))
    for j, b in enumerate(tr["builds"]):
        if "end" in b:
            reqs.append({"op": "smb.build", "macro": b["macro"], "count": b["count"], "bp": b["bp"]})
            idx.append(("build", j))
    return reqs, idx


def tie_check(res: dict, idx: list[tuple], reps: list[dict], st: Counter) -> list[str]:
    tr = res["trace"]
    out = []
    for (what, i), rep in zip(idx, reps):
        if "error" in rep:
            out.append(f"driver error on {what} {i}: {rep['error']}")
            continue
        if what == "replay":
            st["builders_replayed"] += 1
            if not rep.get("ok"):
                out.append(f"builder {i}: the model raises {rep.get('err')} on the recorded call sequence of a successful run")
                continue
            if canon_model_sm(rep["sm"]) != canon_sm(tr["finals"][i]):
                out.append(f"builder {i}: replaying the recorded calls through the Lean SourceMapBuilder gives other tables than the real object holds")
            d = rep["discipline"]
            if not (d["disjoint"] and d["depth_ok"] and d["bracketed"]) or rep["depth"] != 0:
                out.append(f"builder {i}: discipline of the theorems does not hold on the recorded run: {d}, final depth {rep['depth']}")
            if i == tr["routine_builder"]:
                st["routine_builders"] += 1
                if canon_sm(tr["finals"][i]) != canon_sm(res["source_map"]):
                    out.append("the compiled source map is not the table set of the routine visitor's builder")
        else:
            b = tr["builds"][i]
            st["builds_rederived"] += 1
            real = tr["logs"][b["builder"]][b["start"]:b["end"]]
            if not rep.get("ok"):
                out.append(f"build of {b['macro']['name']}: the model raises {rep.get('err')}")
            elif rep["cmds"] != real or rep["count"] != b["count_after"]:
                out.append(f"build of {b['macro']['name']} at counter {b['count']}: the Lean model of build derives other builder calls / counter than recorded")
            elif not rep.get("wf"):
                out.append(f"build of {b['macro']['name']}: the blueprint list fails the discipline wfBlueprint of ret_addr_bounds")
            elif rep.get("out") != b.get("out"):
                # the list build returns (start label with n_real + 1 and the pushed mapping, copied items whose nested start labels carry
                # the substituted mappings, end label) is what the model's buildItems says: it is the blueprint of the next level
                out.append(f"build of {b['macro']['name']}: the returned item list differs from the model's buildItems: {json.dumps(b.get('out'))[:300]} vs {json.dumps(rep.get('out'))[:300]}")
    if tr["routine_builder"] is None:
        out.append("no recorded builder owns the tables of the compiled source map")
    return out


# ----------------------------------------------------------------------------------------------------------------------
# witnesses of the known findings (deterministic, marked like generated programs)
# ----------------------------------------------------------------------------------------------------------------------
def _op(name: str, *args: Any) -> dict:
    return {"t": "op", "name": name, "args": [a if isinstance(a, dict) else {"k": "int", "v": a} for a in args], "trailing_comma": False}


def _v(n: str) -> dict:
    return {"k": "var", "v": n}


def _call(name: str, site: int, inner: bool = False, extra: list | None = None) -> dict:
    path = [_v("$p1"), _v("$p2")] if inner else [{"k": "int", "v": 0}, {"k": "int", "v": 0}]
    return {"t": "macrocall", "name": name, "args": [{"k": "int", "v": site}] + path + (extra or []), "trailing_comma": False}


def _macro(name: str, body: list, extra: list | None = None) -> dict:
    return {"name": name, "params": list(marked.PATH_PARAMS) + (extra or []), "body": body}


def _pathargs() -> list:
    return [_v(p) for p in marked.PATH_PARAMS]


def _proj(ident: str, main: str, files: dict, imports_of: dict) -> dict:
    root = posixpath.join(macrofiles.SCRATCH, ident)
    for f, a in files.items():
        a["imports"] = [("./" + posixpath.relpath(t, posixpath.dirname(f) or ".")) for t in imports_of.get(f, [])]
        a.setdefault("routines", [])
        a.setdefault("macros", [])
    return {"root": root, "main": main, "lookup": [], "files": files, "lay": {f: ["canonical", 0] for f in files}, "imports_of": imports_of, "mode": "witness"}


def witnesses() -> list[tuple[str, str | None, dict]]:
    """(name, kind of the known finding the project must exhibit | None = regression witness of a repaired finding
    that must pass like any other project, project)"""
    P = {"k": "pos", "name": "p", "x": "1", "y": "2.5", "quote": "'"}
    end = {"t": "ctrl", "k": "end"}
    out = []
    # (repaired by /repo commit 1dfd06a: kept as a regression witness; on the pinned tree compile() never returned)
    out.append(("hang", None, _proj("w_hang", "main.exps", {"main.exps": {
        "macros": [_macro("a", [_op("x", 200001, *_pathargs(), P)]), _macro("b", [_call("a", 200002, True)])],
        "routines": [{"kind": "def", "id": 0, "body": [_call("b", 200003), end]}]}}, {"main.exps": []})))
    out.append(("transitive", None, _proj("w_trans", "proj/main.exps", {
        "proj/main.exps": {"routines": [{"kind": "def", "id": 0, "body": [_call("mc", 200011), end]}]},
        "proj/sub/b.exps": {"macros": [_macro("mb", [_op("b1", 200012, *_pathargs())])]},
        "lib/c.exps": {"macros": [_macro("mc", [_op("c1", 200013, *_pathargs())])]}},
        {"proj/main.exps": ["proj/sub/b.exps"], "proj/sub/b.exps": ["lib/c.exps"], "lib/c.exps": []})))
    out.append(("posmarks_shared", None, _proj("w_marks", "main.exps", {
        "main.exps": {"routines": [{"kind": "def", "id": 0, "body": [_call("mb", 200021), end]}]},
        "lib.exps": {"macros": [_macro("ma", [_op("u", 200022, *_pathargs(), P)]), _macro("mb", [_op("w", 200023, *_pathargs())])]}},
        {"main.exps": ["lib.exps"], "lib.exps": []})))
    out.append(("shadow", "outer_call_site_shadowed_by_nested_first_call", _proj("w_shadow", "main.exps", {"main.exps": {
        "macros": [_macro("inner", [_op("i1", 200031, *_pathargs())]), _macro("outer", [_call("inner", 200032, True), _op("o1", 200033, *_pathargs())])],
        "routines": [{"kind": "def", "id": 0, "body": [_call("outer", 200034), end]}]}}, {"main.exps": []})))
    out.append(("posmark_null_file", None, _proj("w_nullfile", "main.exps", {
        "main.exps": {"routines": [{"kind": "def", "id": 0, "body": [_call("b", 200061), end]}]},
        "lib.exps": {"macros": [_macro("a", [_op("x", 200062, *_pathargs(), P)]), _macro("b", [_op("y", 200063, *_pathargs()), _call("a", 200064, True)])]}},
        {"main.exps": ["lib.exps"], "lib.exps": []})))
    hdr = {"h": "op", "left": _v("$p1"), "cmp": "==", "right": {"k": "int", "v": 200041}, "value_of": False}
    out.append(("dropped_first", "called_in_on_dropped_first_op", _proj("w_dropped", "main.exps", {"main.exps": {
        "macros": [_macro("m", [{"t": "while", "not": False, "header": hdr, "body": []}, _op("x1", 200042, *_pathargs())])],
        "routines": [{"kind": "def", "id": 0, "body": [_op("a", 200043), _call("m", 200044), end]}]}}, {"main.exps": []})))
    out.append(("param_depth3", None, _proj("w_depth3", "main.exps", {"main.exps": {
        "macros": [_macro("l3", [_op("z", 200051, *_pathargs(), _v("$q"))], ["$q"]),
                   _macro("l2", [_call("l3", 200052, True, [_v("$q")])], ["$q"]),
                   _macro("l1", [_op("y", 200053, *_pathargs()), _call("l2", 200054, True, [_v("$q")])], ["$q"])],
        "routines": [{"kind": "def", "id": 0, "body": [_call("l1", 200055, False, [{"k": "int", "v": 77}]), end]}]}}, {"main.exps": []})))
    return out


# ----------------------------------------------------------------------------------------------------------------------
# running
# ----------------------------------------------------------------------------------------------------------------------
def cfgs_for(tier: str) -> list[Cfg]:
    c = [Cfg(max_depth=2, max_stmts=3, max_routines=2), Cfg(max_depth=3, max_stmts=3, max_routines=1),
         Cfg(max_depth=2, max_stmts=4, max_routines=3, p_halt=0.15), Cfg(max_depth=3, max_stmts=3, max_routines=1, switches=True, loops=False),
         Cfg(max_depth=3, max_stmts=3, max_routines=1, loops=True, switches=False), Cfg(max_depth=1, max_stmts=5, max_routines=2, coro=True)]
    if tier == "thorough":
        c += [Cfg(max_depth=4, max_stmts=5, max_routines=3), Cfg(max_depth=2, max_stmts=8, max_routines=1)]
    for x in c:
        x.hdr_pos = 0.5      # position marks in condition operations too (also of loops inside macros)
    return c


def task_of(project: dict, texts: dict, trace: bool = True) -> dict:
    return {"root": project["root"], "main": project["main"], "texts": texts, "lookup": project["lookup"], "trace": trace,
            "warmup": bool(project.get("warmup"))}


def _answer(t: dict, s: Any) -> dict:
    macrofiles.cleanup(t["root"])
    if isinstance(s, dict) and ("__timeout__" in s or "__died__" in s or "__exc__" in s or s.get("error") == "MemoryError"):
        return {"error": "NoAnswer", "msg": json.dumps(s)[:200], "site": "", "no_answer": True}
    return s


def compile_projects(pool: core.Pool, tasks: list[dict], solo: int = 0, timeout: float = 90) -> list[dict]:
    """the first `solo` tasks run one per worker task with a short limit (witnesses, one of which hangs the pinned compiler)"""
    res: list[dict] = [_answer(t, s) for t, s in zip(tasks[:solo], pool.map("harness.impl_es:compile_project", tasks[:solo], timeout=8))]
    rest = tasks[solo:]
    chunk = 12
    chunks = [rest[i:i + chunk] for i in range(0, len(rest), chunk)]
    outs = pool.map("harness.impl_es:compile_project_many", chunks, timeout=timeout)
    for ch, o in zip(chunks, outs):
        if isinstance(o, list):
            res += o
            continue
        singles = pool.map("harness.impl_es:compile_project", ch, timeout=20)
        res += [_answer(t, s) for t, s in zip(ch, singles)]
    return res


def has_hang_shape(project: dict) -> bool:
    """a macro calls a macro of its own file while some macro of that file contains (or pulls in) a Position literal"""
    for f, ast in project["files"].items():
        names = {m["name"] for m in ast["macros"]}
        nested = any(s["t"] == "macrocall" and s["name"] in names for m in ast["macros"] for blk in marked.all_blocks(m["body"]) for s in blk)
        if nested and any(marked.has_pos(m["body"]) for a in project["files"].values() for m in a["macros"]):
            return True
    return False


def shrink_project(project: dict, kinds: set, budget: int) -> dict:
    from .. import impl_es

    def as_single(p: dict) -> dict:
        # the shrinker works on one AST: present all files as one program (macros of all files + routines of the compiled file)
        return {"imports": [], "macros": [], "routines": p["files"][p["main"]]["routines"]}

    def still(ast_main: dict) -> bool:
        q = copy.copy(project)
        q["files"] = dict(project["files"])
        q["files"][project["main"]] = dict(project["files"][project["main"]], routines=ast_main["routines"])
        texts, pos = macrofiles.texts_of(q)
        r = impl_es.compile_project(task_of(q, texts, False))
        if "error" in r:
            return False
        return any(k in kinds for k, _ in check_project(q, pos, r, texts=texts))
    import contextlib
    import io
    with contextlib.redirect_stderr(io.StringIO()):
        small = escommon.shrink(as_single(project), still, budget=budget)
    q = copy.copy(project)
    q["files"] = dict(project["files"])
    q["files"][project["main"]] = dict(project["files"][project["main"]], routines=small["routines"])
    return q


def run(run: core.Run) -> int:
    n = 260 if run.tier == "quick" else 8000
    prep = core.lean_prepare(MODULES)
    aud = core.audit(THEOREMS, MODULES) if prep["proofs_ok"] else {"obligations": len(THEOREMS), "discharged": 0, "ok": False, "theorems": {}}
    jobs = core.jobs_for(run.tier)
    st: Counter = Counter()
    gst: Counter = Counter()
    cfgs = cfgs_for(run.tier)
    cases: list[dict] = []
    for name, kind, p in witnesses():
        cases.append({"project": p, "witness": (name, kind)})
    rnd = run.rng
    for i in range(n):
        g = macrofiles.ProjectGen(random.Random(rnd.getrandbits(48)), cfgs[i % len(cfgs)], f"s{run.seed}_{os.getpid()}_{i}")
        p = g.project()
        macrofiles.layouts_for(p, random.Random(rnd.getrandbits(32)), "canonical" if i % 3 == 0 else "random")
        gst.update(g.stats)
        cases.append({"project": p})
    tasks = []
    for k_, c in enumerate(cases):
        c["texts"], c["pos"] = macrofiles.texts_of(c["project"])
        if k_ % 3 == 1 and len(c["texts"]) > 1:
            # a second script of the project (deeper directory, same imports) is compiled first in the same process
            c["project"]["warmup"] = True
            gst["warmup_compile_first"] += 1
        tasks.append(task_of(c["project"], c["texts"]))
    pool = core.Pool(jobs, mem_mb=2000)
    try:
        results = compile_projects(pool, tasks, solo=len(witnesses()))
    finally:
        pool.close()
        for c in cases:
            macrofiles.cleanup(c["project"]["root"])
    ok_cases = []
    n_viol = 0
    for c, r in zip(cases, results):
        p = c["project"]
        if "error" in r:
            st["compile_error:" + r["error"]] += 1
            if r.get("no_answer"):
                kind = "macro_posmark_nested_hang" if has_hang_shape(p) else "compiler_gives_no_answer"
                run.violation(kind, "compile neither returns nor raises a documented error (killed after the time limit)", {"texts": c["texts"], "main": p["main"]})
            elif c.get("witness"):
                run.violation("witness_does_not_compile", f"witness {c['witness'][0]} does not compile: {r['error']} {r['msg']}",
                              {"texts": c["texts"], "main": p["main"], "project": strip_ids(p)})
            continue
        ok_cases.append((c, r))
    # glue cross-check: the repo's parser sees the AST the generator printed (first cases only: the printer is shared with C01)
    glue_bad = 0
    from .. import astdump
    for c, r in ok_cases[:80]:
        p = c["project"]
        try:
            got = astdump.strip_hints(astdump.dump_text(c["texts"][p["main"]]))
            want = astdump.strip_hints(copy.deepcopy(p["files"][p["main"]]))
            if got["routines"] != want["routines"] or sorted(json.dumps(m, sort_keys=True) for m in got["macros"]) != sorted(json.dumps(m, sort_keys=True) for m in want["macros"]):
                glue_bad += 1
                if glue_bad <= 1:
                    run.broken_tie("printer/astdump glue: parsed AST differs from generated AST", {"text": c["texts"][p["main"]]})
        except Exception as e:  # noqa
            glue_bad += 1
            run.notes.append(f"glue check raised {type(e).__name__}: {e}")
    drv = core.Driver() if prep["driver_ok"] else None
    # model tie
    tie_bad = 0
    if drv is not None:
        reqs: list[dict] = []
        spans = []
        for c, r in ok_cases:
            q, idx = tie_requests(r)
            spans.append((len(reqs), len(reqs) + len(q), idx))
            reqs += q
        reps = drv.batch_parallel(reqs, jobs)
        for (c, r), (a, b, idx) in zip(ok_cases, spans):
            msgs = tie_check(r, idx, reps[a:b], st)
            c["tie"] = msgs
            if msgs:
                tie_bad += 1
    # oracle
    shrunk = 0
    for c, r in ok_cases:
        p = c["project"]
        bad = check_project(p, c["pos"], r, st, texts=c["texts"])
        kinds = {k for k, _ in bad}
        if c.get("witness"):
            name, kind = c["witness"]
            if kind is not None and kind not in kinds:
                run.notes.append(f"witness {name}: the recorded finding {kind} is no longer reported (kinds: {sorted(kinds)})")
        new = [(k, w) for k, w in bad if k not in KNOWN_KINDS]
        for k, w in bad:
            if k in KNOWN_KINDS:
                run.violation(k, w, {"texts": c["texts"], "main": p["main"]})
        if new:
            n_viol += 1
            rep_p, rep_texts = p, c["texts"]
            if shrunk < 2:
                shrunk += 1
                try:
                    small = shrink_project(p, {k for k, _ in new}, 60 if run.tier == "quick" else 200)
                    t2, pos2 = macrofiles.texts_of(small)
                    from .. import impl_es
                    r2 = impl_es.compile_project(task_of(small, t2, False))
                    b2 = [x for x in check_project(small, pos2, r2, texts=t2) if x[0] in {k for k, _ in new}] if "error" not in r2 else []
                    if b2:
                        rep_p, rep_texts, new = small, t2, b2
                except Exception as e:  # noqa
                    run.notes.append(f"shrinking failed: {type(e).__name__}: {e}")
            run.violation(new[0][0], new[0][1], {"texts": rep_texts, "main": rep_p["main"], "project": strip_ids(rep_p), "all": new[:6]})
        if c.get("tie") and not new:
            run.broken_tie("correspondence C08: " + c["tie"][0], {"texts": c["texts"], "main": p["main"], "all": c["tie"][:5]})
    if not prep["proofs_ok"] or not aud["ok"] or not prep["driver_ok"]:
        run.broken_tie("Lean obligations of C08 do not check (build/audit)", {"theorems": THEOREMS, "log": prep["log"][-3000:], "audit": {k: v for k, v in aud.items() if k != "theorems"}})
    sample = ok_cases[len(witnesses())] if len(ok_cases) > len(witnesses()) else (ok_cases[0] if ok_cases else None)
    cov = {
        "explanation": "oracle on the real compiler: marked multi-file projects (every op-producing node recognisable from the op's content), clause-by-clause check of "
                       "entries (designated node positions, macro file / name / position / call position on the first op / return address bounds / parameter mapping, "
                       "files named, position marks). protocol proof: SourceMapBuilder theorems for all command sequences and the counting lemma of build for all "
                       "blueprints; per-input validation: recorded builder calls replayed through the Lean model (tables identical), every build call re-derived by the "
                       "Lean model of build, disciplines of the theorems evaluated on the recorded sequences.",
        "evaluations": len(cases), "distinct_nontrivial": core.distinct(c["texts"] for c, _ in ok_cases), "programs_compiled": len(ok_cases),
        "rule": "ProgGen routines (all statement forms) marked with unique operands + 0-3 library files in other directories (relative ./ ../, absolute and lookup-path imports, "
                "transitive imports) + local macros, nested calls up to depth 3 across and inside files, layout styles canonical and random (several statements per line, "
                "arbitrary indentation, comments); non-trivial = compiles",
        "samples": [{"main": sample[0]["project"]["main"], "texts": sample[0]["texts"], "map": sample[1]["source_map"]}] if sample else [],
        "oracle_statistics": dict(st), "constructs_generated": dict(gst), "oracle_violations": n_viol, "tie_mismatches": tie_bad, "glue_mismatches": glue_bad,
        "obligations": aud["obligations"], "discharged": aud["discharged"] if prep["proofs_ok"] else 0, "theorems": THEOREMS, "axioms": aud.get("theorems", {}),
        "checker_cmd": "lake build ESV.Props.C08 && #print axioms (harness/core.py:audit); esvdrive smb.replay / smb.build",
        "trusted_base": ["Lean 4.33 kernel + propext/Classical.choice/Quot.sound", "harness printer positions (harness/gen/surface.py layout) and lowering table",
                         "trace wrappers in harness/impl_es.py (_SmbTrace)"],
    }
    return run.finish("other", cov, [
        "which source node an op belongs to is decided by unmodelled compile handlers: validated per input by the oracle, not proved",
        "label jumps (Jump / Call ops) carry no recognisable content: checked for an entry at the start of some statement, header or case",
        "aliasing of the position-mark lists between a macro's source map and the builder (macro_posmark_nested_hang) is outside the Lean model",
    ])


def strip_ids(project: dict) -> dict:
    return {k: project[k] for k in ("root", "main", "lookup", "files", "lay", "imports_of", "mode") if k in project}


def replay(run: core.Run, path: str) -> int:
    from .. import impl_es
    data = json.load(open(path))["replay"]
    if "project" in data:
        p = data["project"]
        texts, pos = macrofiles.texts_of(p)
        r = impl_es.compile_project(task_of(p, texts, False))
        if "error" in r:
            print("VIOLATION-REPLAY compile error", r)
            return 1
        bad = check_project(p, pos, r, texts=texts)
        for k, w in bad:
            print("VIOLATION-REPLAY", k, w)
        return 1 if bad else 0
    print("replay file carries texts only (a known finding or a tie break): nothing to re-evaluate")
    return 0
