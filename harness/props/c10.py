"""C10 — compilation fails only in documented ways and rejects meaningless programs.

Two deciding methods, reported separately in the evidence (MANIFEST category "other"):

A. PROOF for static rejection: Lean theorems ESV.C10.* about the model lean/ESV/Static/Wf.lean of the compiler's
   rejection sites (for ALL static ASTs / import worlds: every listed meaningless shape is rejected with a documented
   class).  The model is tied to /repo on every run: for every generated statically invalid program (one mutator per
   listed shape, plus combinations and collect-order probes) and every generated import world the real compiler's
   exception CLASS must equal the model's, and valid generated programs must be accepted by both.
   Property oracle (independent of the model): a program into which a listed defect was injected must be rejected,
   with a documented class, leaving no output object behind.
B. EXPLORATION for "never another exception type" over strings — no theorem reaches the ANTLR runtime: token- and
   character-level corruptions of valid programs, degenerate routines, routine headers, huge numbers, `//?:` attribute
   lines, SsbScript sources behind the attribute, random Unicode, deep nesting.  Oracle: success with all four output
   objects, or an exception whose class is (a subclass of) ParseError / SsbCompilerError / ValueError with no output
   object left; no hang, no crash.  Any other exception is reported as kind "<Type>@<file>:<function>" (innermost
   repository frame) with the delta-debugged input; (type, site) pairs of the pinned tree are listed in
   known_findings.jsonl, a new pair is a VIOLATION.
Plus: `python -m explorerscript.cli.compile` exits non-zero and prints no JSON on rejection.
"""
from __future__ import annotations

import json
import os
import random
import re
import time
from collections import Counter
from typing import Any, Callable

from .. import core
from ..gen import corrupt, invalid
from ..gen.surface import PERF_VAR

MODULES = ["ESV.Props.C10"]
THEOREMS = [
    "ESV.C10.rejects_break_outside", "ESV.C10.rejects_continue_outside", "ESV.C10.rejects_break_loop_outside",
    "ESV.C10.rejects_switch_ends_empty", "ESV.C10.rejects_two_defaults", "ESV.C10.rejects_stmts_in_message_switch",
    "ESV.C10.rejects_label_in_with", "ESV.C10.rejects_not_on_bit", "ESV.C10.rejects_unknown_macro",
    "ESV.C10.rejects_too_few_macro_args", "ESV.C10.rejects_fewer_args_than_params", "ESV.C10.tooFew_of_lt", "ESV.C10.rejects_recursive_macros",
    "ESV.C10.rejects_jump_undefined", "ESV.C10.rejects_jump_undefined_in_macro",
    "ESV.C10.rejects_bad_first_routine_id", "ESV.C10.rejects_fixed_routine_target",
    "ESV.C10.error_kinds_documented", "ESV.C10.world_error_kinds_documented",
    "ESV.C10.resolve_direct_none", "ESV.C10.resolve_lookup_none", "ESV.C10.resolve_lookup_first", "ESV.C10.imports_resolved_independently",
    "ESV.C10.rejects_missing_import_at", "ESV.C10.rejects_missing_import", "ESV.C10.rejects_failing_import", "ESV.C10.rejects_cyclic_import",
    "ESV.C10.rejects_routines_in_import", "ESV.C10.rejects_ssbscript_import",
    "ESV.C10.core_rejects_break_outside", "ESV.C10.core_rejects_continue_outside", "ESV.C10.core_rejects_break_loop_outside",
    "ESV.C10.core_rejects_switch_ends_empty", "ESV.C10.core_rejects_two_defaults", "ESV.C10.core_rejects_label_in_with",
    "ESV.C10.core_rejects_unknown_macro", "ESV.C10.core_rejects_too_few_macro_args", "ESV.C10.core_rejects_recursive_macros",
    "ESV.C10.core_rejects_jump_undefined", "ESV.C10.core_error_kinds_documented",
    "ESV.Static.collectS_fail", "ESV.Static.addOkS_fail", "ESV.Static.collectS_doc", "ESV.Static.macroCycle_of_closed",
    "ESV.Static.checkFile_fail_of_chain", "ESV.Static.checkFile_doc", "ESV.Static.checkLocal_doc",
]

DOCUMENTED = ("ParseError", "SsbCompilerError", "ValueError")
MODEL_CFG = {"perf": PERF_VAR}
MEM_MB = 1500

# inputs that exercise the counterexample theorems and the recorded defects on the real code (run first, every time)
SLOW_CORPUS: list[dict] = []
CORPUS = [
    {"text": "def 99999999999 { a(); }", "name": "routine id of 11 digits (pinned tree: no answer; repaired: SsbCompilerError)"},
    {"text": "macro a() { x(Position<'m', 1, 2>); } macro b() { ~a(); } def 0 { ~b(); }", "name": "A16 position mark in a macro called from a macro (pinned tree: no answer; repaired: compiles)"},
    {"text": "def 0 { " + "switch ($x) { case 1: " * 150 + "a();" + " }" * 150 + " }", "name": "150 nested switches (pinned tree: RecursionError; repaired: SsbCompilerError)"},
    {"text": "//?: is-ssb-script: true\ndef 0 for { a(); }", "name": "SsbScript listener on a syntax error (pinned tree: TypeError; repaired: ParseError)"},
    {"text": "//?: is-ssb-script: true\ndef -1 { a(); }", "name": "SsbScript negative routine id (pinned tree: IndexError; repaired: SsbCompilerError)"},
    {"text": "macro m() { @x; } def 0 { ~m(); }", "name": "error_kinds_counterexample (Lean: exLabelOnly)"},
    {"text": "macro m() { @x; } def 0 { ~m(); } def 1 { jump @nowhere; }", "name": "rejects_jump_undefined_counterexample (Lean: exLabelOnlyUndefined)"},
    {"text": "//?: a: b", "name": "A8 attribute lines only"},
    {"text": "def 1 { a(); } def 0 { b(); }", "name": "A11 descending routine ids"},
    {"text": "def 0 { @x; }", "name": "A11 routine holding only a label (repaired: compiles)"},
    {"text": "def 0 for actor 1.5 { a(); }", "name": "decimal routine target"},
    {"text": "def -1 { a(); }", "name": "negative routine id"},
]


# ----------------------------------------------------------------------------------------------------------------------
# running the implementation
# ----------------------------------------------------------------------------------------------------------------------
def no_answer(o: Any) -> bool:
    return isinstance(o, dict) and ("__timeout__" in o or "__died__" in o or "__exc__" in o or "__garbled__" in o)


def run_all(pool: core.Pool, fn_many: str, fn_one: str, args: list[dict], chunk: int, timeout: float, single_timeout: float,
            singletons: int = 0) -> list[dict]:
    """`singletons`: the first so many cases are known to be slow and get a task of their own (scheduled first)"""
    chunks = [[a] for a in args[:singletons]] + [args[i:i + chunk] for i in range(singletons, len(args), chunk)]
    outs = pool.map(fn_many, chunks, timeout=timeout)
    res: list[dict] = []
    for ch, o in zip(chunks, outs):
        if isinstance(o, list) and len(o) == len(ch):
            res += o
            continue
        if len(ch) == 1:
            res.append({"no_answer": True, "detail": {k: (v if k != "tb" else str(v)[-300:]) for k, v in o.items()} if isinstance(o, dict) else {"raw": str(o)[:200]}})
            continue
        # a whole chunk gave no answer: one by one, with a limit per case
        singles = pool.map(fn_one, ch, timeout=single_timeout)
        for s in singles:
            if no_answer(s):
                res.append({"no_answer": True, "detail": {k: (v if k != "tb" else str(v)[-300:]) for k, v in s.items()}})
            else:
                res.append(s)
    return res


def outcome_key(o: dict) -> str:
    if o.get("no_answer"):
        d = o.get("detail", {})
        return "NoAnswer(" + ("timeout" if "__timeout__" in d else "died" if "__died__" in d else str(d.get("__exc__", "?"))) + ")"
    if o.get("ok"):
        return "ok"
    return f"{o['error']}@{o.get('site', '')}"


HUGE_DEF = re.compile(r"\bdef\s+-?(?:[0-9]{7,}|0[xX][0-9a-fA-F]{6,}|0[bB][01]{23,}|0[oO][0-7]{8,})")


def classify(text: str, o: dict) -> tuple[str, str] | None:
    """the property oracle of part B on one outcome: None = fine, else (kind, what)"""
    if o.get("no_answer") or o.get("error") == "MemoryError":
        bare = " ".join(t for t in corrupt.split_tokens(text) if not (t.isspace() or t.startswith("//") or t.startswith("/*") or t == "\\"))
        if HUGE_DEF.search(bare):
            return "NoAnswer:routine_id_huge", "compile gives no answer (time / memory limit) for a routine id of 7+ digits: _enlarge_routine_info appends one entry per id"
        if "Position" in text and "macro" in text:
            return "NoAnswer:position_mark_in_nested_macro", "compile gives no answer: a macro holding a Position<> literal is called from another macro of the same file (macro.py build iterates the list it appends to)"
        return "NoAnswer", f"compile gives no answer ({outcome_key(o)})"
    if o.get("ok"):
        if not o.get("has_all"):
            return "ok_without_output", "compile returned but an output attribute is None"
        return None
    if o.get("partial_output"):
        return f"output_left_after:{o['error']}@{o.get('site', '')}", "an output attribute is set after compile raised"
    if o.get("documented"):
        return None
    return f"{o['error']}@{o.get('site', '')}", f"undocumented exception {o['error']} ({o.get('msg', '')[:120]}) raised from {o.get('site', '')}"


def shrink_text(pool: core.Pool, text: str, kind: str, budget_s: float = 25.0, extra: dict | None = None) -> str:
    """delta debugging on the text: remove lines, then tokens, then characters while the same kind persists"""
    t0 = time.time()
    cur = text
    for level in (0, 1, 2):
        progress = True
        while progress and time.time() - t0 < budget_s:
            progress = False
            cands = corrupt.shrink_candidates(cur, level)
            if level == 2 and len(cur) > 400:
                break
            for i in range(0, len(cands), 32):
                batch = cands[i:i + 32]
                outs = pool.map("harness.impl_c10:compile_one", [dict({"text": c}, **(extra or {})) for c in batch], timeout=20)
                hit = None
                for c, o in zip(batch, outs):
                    if no_answer(o):
                        o = {"no_answer": True, "detail": o}
                    v = classify(c, o)
                    if v and v[0] == kind and len(c) < len(cur):
                        hit = c
                        break
                if hit is not None:
                    cur = hit
                    progress = True
                    break
                if time.time() - t0 > budget_s:
                    break
    return cur


# ----------------------------------------------------------------------------------------------------------------------
# part A
# ----------------------------------------------------------------------------------------------------------------------
def gen_part_a(rng: random.Random, n_invalid: int) -> list[dict]:
    cases: list[dict] = []
    shapes = list(invalid.MUTATORS)
    extra = list(invalid.EXTRA_MUTATORS)
    i = 0
    while sum(1 for c in cases if c["shapes"]) < n_invalid:
        base = invalid.base_program(rng)
        cases.append({"ast": base, "shapes": [], "infos": [], "listed": False})
        per_base = 3
        for _ in range(per_base):
            c = rng.random()
            if c < 0.62:
                sh = [shapes[i % len(shapes)]]
            elif c < 0.72:
                sh = [rng.choice(extra)]
            elif c < 0.92:
                sh = rng.sample(shapes + extra, 2)
            else:
                sh = rng.sample(shapes, 3)
            i += 1
            m = invalid.mutate(base, rng, sh)
            if m is None:
                continue
            listed = [s for s in sh if s in invalid.MUTATORS]
            cases.append({"ast": m[0], "shapes": sh, "infos": m[1], "listed": bool(listed)})
    for c in cases:
        c["text"] = invalid.print_program(c["ast"], random.Random(rng.getrandbits(32)), rng.choice(["canonical", "canonical", "dense"]))
        c["static"] = invalid.to_static(c["ast"])
    return cases


def part_a(run: core.Run, pool: core.Pool, drv_ok: bool, jobs: int, n_invalid: int, n_worlds: int, stats: dict) -> None:
    rng = run.rng
    cases = gen_part_a(rng, n_invalid)
    res = run_all(pool, "harness.impl_c10:compile_many", "harness.impl_c10:compile_one", [{"text": c["text"]} for c in cases], 25, 120, 20)
    worlds = []
    for i in range(n_worlds):
        w = invalid.gen_world(rng, invalid.WORLD_KINDS[i % len(invalid.WORLD_KINDS)])
        w["texts"] = invalid.world_texts(w)
        worlds.append(w)
    # import lists: found / missing statements of every style at every position, also inside imported files
    missing_stats: Counter = Counter()
    for i in range(n_worlds * 3):
        w = invalid.gen_import_world(rng)
        w["texts"] = invalid.world_texts(w)
        worlds.append(w)
        for m in w["info"]:
            missing_stats[f"{'main' if m['depth'] == 0 else 'imported'}:{m['pos']}:{m['style']}:after={m['after']}:lookups={m['lookups']}"] += 1
    wres = run_all(pool, "harness.impl_c10:worlds_many", "harness.impl_c10:compile_world",
                   [{"files": w["texts"], "root": w["root"], "lookup": w["lookup"]} for w in worlds], 10, 120, 30)
    per_shape: Counter = Counter()
    classes: Counter = Counter()
    sites: Counter = Counter()
    # ---- property oracle on the real outcomes
    for c, o in zip(cases, res):
        name = "+".join(c["shapes"]) or "valid"
        for s in c["shapes"] or ["valid"]:
            per_shape[s] += 1
        classes[(name if len(c["shapes"]) <= 1 else "combination", "ok" if o.get("ok") else ("NoAnswer" if o.get("no_answer") else o["error"]))] += 1
        sites[outcome_key(o)] += 1
        bad = classify(c["text"], o)
        if bad:
            run.violation(bad[0], f"statically {'invalid' if c['shapes'] else 'valid'} program ({name}): {bad[1]}", {"text": c["text"], "shapes": c["shapes"], "impl": o})
        elif c["listed"] and o.get("ok"):
            run.violation("accepted:" + name, f"a program with the defect(s) {name} compiles ({o.get('ops')} ops)", {"text": c["text"], "shapes": c["shapes"], "infos": c["infos"], "impl": o})
    for w, o in zip(worlds, wres):
        per_shape["world:" + w["kind"]] += 1
        classes[("world:" + w["kind"], "ok" if o.get("ok") else ("NoAnswer" if o.get("no_answer") else o["error"]))] += 1
        sites[outcome_key(o)] += 1
        bad = classify("", o)
        if bad:
            run.violation(bad[0], f"import world {w['kind']}: {bad[1]}", {"world": w["texts"], "root": w["root"], "lookup": w["lookup"], "impl": o})
        elif w["expect_reject"] and o.get("ok"):
            if w["kind"] == "import_list":
                m = w["info"][0]
                run.violation("missing_import_accepted", f"an import world with a missing import ({m['style']} style, {m['pos']} statement of the list"
                              f"{' of an imported file' if m['depth'] else ''}, after a {m['after']} import, {m['lookups']} lookup paths) compiles",
                              {"world": w["texts"], "root": w["root"], "lookup": w["lookup"], "missing": w["info"], "impl": o})
                continue
            run.violation(w["kind"] + "_accepted", f"import world of kind {w['kind']} compiles", {"world": w["texts"], "root": w["root"], "lookup": w["lookup"], "impl": o})
    tf: Counter = Counter()
    for c in cases:
        for i in c["infos"]:
            if i.get("shape") == "too_few_macro_arguments":
                tf[f"{i['pattern']}:{i['args']}of{i['params']}:{i['site']}"] += 1
    stats["a_too_few_argument_cells"] = dict(sorted(tf.items()))
    stats["a_programs"] = len(cases)
    stats["a_invalid"] = sum(1 for c in cases if c["shapes"])
    stats["a_worlds"] = len(worlds)
    stats["a_import_lists"] = sum(1 for w in worlds if w["kind"] == "import_list")
    stats["a_import_lists_with_missing"] = sum(1 for w in worlds if w["kind"] == "import_list" and w["expect_reject"])
    pos: Counter = Counter()
    for k, v in missing_stats.items():
        a = k.split(":")
        pos[f"{a[0]}:{a[1]}"] += v
        pos["style " + a[2]] += v
        pos[a[3]] += v
    stats["a_missing_import_positions"] = dict(sorted(pos.items()))
    stats["a_missing_import_cells"] = len(missing_stats)
    stats["a_per_shape"] = dict(sorted(per_shape.items()))
    stats["a_classes"] = {f"{k[0]} -> {k[1]}": v for k, v in sorted(classes.items())}
    stats["a_sites"] = dict(sites.most_common())
    stats["a_samples"] = [{"shapes": c["shapes"], "text": c["text"]} for c in cases if c["shapes"]][:2]
    # ---- correspondence with the Lean model: class equality
    mism = 0
    if drv_ok:
        drv = core.Driver()
        reqs = [{"op": "static.check", "world": [["main", c["static"]]], "root": "main", "cfg": MODEL_CFG} for c in cases]
        wmodelled = [(w, o) for w, o in zip(worlds, wres) if w["modelled"]]
        reqs += [dict({"op": "static.check", "cfg": MODEL_CFG}, **invalid.world_static(w)) for w, _ in wmodelled]
        # the core AST side: programs the surface lowering can express are also checked through Static.check
        from ..gen import surface
        core_cases = []
        for c, o in zip(cases, res):
            try:
                core_cases.append((c, o, surface.lower_program(c["ast"])))
            except Exception:
                pass
        reqs += [{"op": "static.check_core", "prog": p} for _, _, p in core_cases]
        reps = drv.batch_parallel(reqs, jobs)
        pairs = list(zip([(c["text"], c["shapes"], o) for c, o in zip(cases, res)], reps[:len(cases)]))
        pairs += list(zip([(json.dumps(w["texts"])[:3000], [w["kind"]], o) for w, o in wmodelled], reps[len(cases):len(cases) + len(wmodelled)]))
        model_phase: Counter = Counter()
        for (text, shapes, o), m in pairs:
            if o.get("no_answer"):
                continue
            ic = "ok" if o.get("ok") else o["error"]
            mc = "ok" if m.get("ok") else m.get("error", "driver:" + str(m)[:80])
            model_phase[m.get("phase", "accepted") if not m.get("ok") else "accepted"] += 1
            if ic != mc:
                mism += 1
                if mism <= 3:
                    run.broken_tie(f"correspondence C10/static: real compiler gives {ic} at {o.get('site')}, model gives {mc} ({m.get('phase')}) for {'+'.join(shapes) or 'valid'}",
                                   {"channel": "static.check", "text": text, "shapes": shapes, "impl": o, "model": m})
        core_mism = 0
        core_seen = 0
        for (c, o, _p), m in zip(core_cases, reps[len(cases) + len(wmodelled):]):
            # the core AST has lost: message switches, string cases, `not` on bit tests, inline contexts; compare where nothing was lost
            lossy = any(s in ("statements_in_message_switch", "not_on_bit_of_ordinary_variable", "string_case_in_ordinary_switch", "inline_context_inside_with",
                              "routine_id_negative_or_gap", "decimal_routine_target") for s in c["shapes"])
            lossy = lossy or any(i.get("variant") in ("message_switch", "new_string_default_last", "if_header_vs_block", "switch_string_case_after_body") for i in c["infos"])
            if lossy or o.get("no_answer"):
                continue
            core_seen += 1
            ic = "ok" if o.get("ok") else o["error"]
            mc = "ok" if m.get("ok") else m.get("error", "driver:" + str(m)[:80])
            if ic != mc:
                core_mism += 1
                if core_mism <= 2:
                    run.broken_tie(f"correspondence C10/static core: real compiler gives {ic}, Static.check on the lowered core program gives {mc}",
                                   {"channel": "static.check_core", "text": c["text"], "shapes": c["shapes"], "impl": o, "model": m})
        stats["a_model_phases"] = dict(model_phase.most_common())
        stats["a_core_compared"] = core_seen
        mism += core_mism
    stats["a_correspondence_mismatches"] = mism


# ----------------------------------------------------------------------------------------------------------------------
# part B
# ----------------------------------------------------------------------------------------------------------------------
def gen_part_b(rng: random.Random, n_tok: int, tier: str) -> list[dict]:
    bases = [invalid.base_program(rng, with_macros=(i % 3 == 0)) for i in range(max(20, n_tok // 12))]
    cases: list[dict] = [dict(c, kind="corpus_slow") for c in SLOW_CORPUS] + [dict(c, kind="corpus") for c in CORPUS]
    cases += corrupt.degenerate(rng)
    cases += corrupt.headers(rng)
    cases += corrupt.semantic_sites(rng)
    cases += corrupt.numbers(rng)
    ssbs, ssbs_texts = corrupt.ssbscript(rng, 25 if tier == "quick" else max(200, n_tok // 40))
    cases += ssbs
    es_texts = [invalid.print_program(b) for b in bases[:10]]
    cases += corrupt.meta(rng, es_texts, ssbs_texts)
    cases += corrupt.unicode_texts(rng, 80 if tier == "quick" else max(500, n_tok // 20))
    cases += corrupt.nesting(rng)
    cases += corrupt.token_level(bases, rng, n_tok)
    # intact programs: the oracle's success branch
    for b in bases[: 20 if tier == "quick" else 200]:
        cases.append({"text": invalid.print_program(b, random.Random(rng.getrandbits(32)), "random"), "kind": "valid_random_layout"})
    return cases


def part_b(run: core.Run, pool: core.Pool, n_tok: int, stats: dict) -> None:
    cases = gen_part_b(run.rng, n_tok, run.tier)
    res = run_all(pool, "harness.impl_c10:compile_many", "harness.impl_c10:compile_one", [{"text": c["text"]} for c in cases], 40, 240, 15,
                  singletons=len(SLOW_CORPUS))
    hist: Counter = Counter()
    by_kind: dict[str, Counter] = {}
    found: dict[str, list] = {}
    for c, o in zip(cases, res):
        k = outcome_key(o)
        hist[k] += 1
        by_kind.setdefault(c["kind"].split("+")[0], Counter())["ok" if o.get("ok") else ("NoAnswer" if o.get("no_answer") else o["error"])] += 1
        bad = classify(c["text"], o)
        if bad:
            found.setdefault(bad[0], []).append((c, o, bad[1]))
    known_kinds = {k["kind"] for k in run.known}
    minimal: dict[str, str] = {}
    for kind, lst in sorted(found.items()):
        lst.sort(key=lambda x: len(x[0]["text"]))
        c, o, what = lst[0]
        text = c["text"]
        if kind not in known_kinds and not kind.startswith("NoAnswer"):
            text = shrink_text(pool, text, kind)
        minimal[kind] = text if len(text) <= 300 else text[:300] + "…"
        for j, (c2, o2, w2) in enumerate(lst):
            run.violation(kind, w2 + f" — input {text!r}" if j == 0 else w2, {"text": text if j == 0 else c2["text"], "generator": c2["kind"], "impl": o2, "original_text": c2["text"][:2000]})
    stats["b_strings"] = len(cases)
    stats["b_distinct"] = len({c["text"] for c in cases})
    stats["b_exception_histogram"] = dict(hist.most_common())
    stats["b_outcomes_by_generator"] = {k: dict(v) for k, v in sorted(by_kind.items())}
    stats["b_undocumented_or_no_answer"] = {k: {"count": len(v), "smallest_input": minimal[k]} for k, v in sorted(found.items())}
    stats["b_samples"] = [{"kind": c["kind"], "text": c["text"][:400], "outcome": outcome_key(o)} for c, o in list(zip(cases, res))[len(CORPUS) + 200::max(1, len(cases) // 6)]][:6]


def part_cli(run: core.Run, pool: core.Pool, stats: dict) -> None:
    cases = [
        {"text": "def 0 { Wait(1); }", "expect_ok": True},
        {"text": "def 0 { Wait(1) }", "expect_ok": False},                                      # ParseError
        {"text": "def 0 { break; }", "expect_ok": False},                                       # SsbCompilerError
        {"text": "macro m($a) { Use($a); } def 0 { ~m(); }", "expect_ok": False},               # ValueError
        {"text": "def 0 { jump @nowhere; }", "expect_ok": False},                               # SsbCompilerError, after all routines compiled
    ]
    outs = pool.map("harness.impl_c10:cli_compile", cases, timeout=120)
    rows = []
    for c, o in zip(cases, outs):
        if no_answer(o) or o.get("timeout"):
            run.violation("cli_no_answer", "the compile CLI gave no answer", {"case": c, "out": o})
            continue
        rows.append({"text": c["text"], "rc": o["rc"], "stdout_json": o["stdout_json"], "stderr_last": o["stderr_last"]})
        if c["expect_ok"]:
            if o["rc"] != 0 or not o["stdout_json"]:
                run.violation("cli_valid_program_fails", f"the compile CLI fails on a valid program (rc={o['rc']})", {"case": c, "out": o})
        else:
            if o["rc"] == 0:
                run.violation("cli_exit_zero_on_rejection", "the compile CLI exits 0 although compilation was rejected", {"case": c, "out": o})
            if o["stdout_json"] or o["stdout_len"]:
                run.violation("cli_output_on_rejection", "the compile CLI prints to stdout although compilation was rejected", {"case": c, "out": o})
    stats["cli"] = rows


# ----------------------------------------------------------------------------------------------------------------------
def run(run: core.Run) -> int:
    quick = run.tier == "quick"
    n_invalid = 1500 if quick else 12000
    n_worlds = 65 if quick else 650
    n_tok = 2000 if quick else 110000
    prep = core.lean_prepare(MODULES)
    aud = core.audit(THEOREMS, MODULES) if prep["proofs_ok"] else {"obligations": len(THEOREMS), "discharged": 0, "ok": False, "theorems": {}}
    jobs = core.jobs_for(run.tier)
    if not quick:
        jobs = max(jobs, min(16, (os.cpu_count() or 4)))
    stats: dict = {}
    pool = core.Pool(jobs, mem_mb=MEM_MB)
    try:
        t0 = time.time()
        part_a(run, pool, prep["driver_ok"], jobs, n_invalid, n_worlds, stats)
        stats["a_wall_s"] = round(time.time() - t0, 1)
        t0 = time.time()
        part_b(run, pool, n_tok, stats)
        stats["b_wall_s"] = round(time.time() - t0, 1)
        part_cli(run, pool, stats)
    finally:
        pool.close()
    if not prep["proofs_ok"] or not aud["ok"] or not prep["driver_ok"]:
        run.broken_tie("Lean obligations of C10 do not check (build/audit)", {"theorems": THEOREMS, "log": prep["log"][-3000:], "audit": {k: v for k, v in aud.items() if k != "theorems"}})
    cov = core.proof_coverage(run, prep, aud, MODULES, THEOREMS, {
        "explanation": "Split claim. (A) PROOF: Lean theorems over ALL static ASTs and import worlds that each listed statically meaningless shape is rejected "
                       "by the model of the compiler's rejection sites with a documented class (obligations/discharged); the model is tied to /repo on this run "
                       "by exception-class equality on generated invalid/valid programs and import worlds (a_* keys). (B) EXPLORATION: the exception type of "
                       "compile() on generated strings (b_* keys); no theorem reaches the ANTLR runtime, so 'never another exception type' is searched, not proved.",
        "evaluations": stats.get("a_programs", 0) + stats.get("a_worlds", 0) + stats.get("b_strings", 0),
        "distinct_nontrivial": stats.get("a_invalid", 0) + stats.get("b_distinct", 0),
        "rule": "A: valid generated programs (harness/gen/programs.py, with and without macros) with exactly one listed defect injected per mutator "
                "(harness/gen/invalid.py), plus 2-3 defect combinations and collect-order probes; import worlds of 13 kinds in temporary directories. "
                "B: harness/gen/corrupt.py families (token/char corruption, degenerate routines, headers, huge numbers, attribute lines, SsbScript, Unicode, nesting <= 200). "
                "non-trivial = an invalid program (A) or a distinct string (B); valid programs are the accept-side control.",
        "samples": stats.get("a_samples", []) + stats.get("b_samples", []),
        "generator_stats": stats,
    })
    return run.finish("other", cov, [
        "the ANTLR runtime and the generated lexer/parser are not modelled: part B is exploration only",
        "Static.check models the rejection sites, not the back end: the order check on op offsets (routines written twice or out of id order, "
        "SsbCompilerError) and LabelFinalizer are outside the model; generated programs write each id once, ascending",
        "the order in which the macros of one file are compiled (macro resolution order) is not modelled: generated macro call graphs are forests",
        "the harness does the path arithmetic of imports (directory of the importing file, lookup paths, posix normalisation); which candidate is a file and which lookup path wins is decided by the model; os.path.realpath/symlinks are not modelled",
        "worker processes run compile() with Python's default recursion limit (1000) and RLIMIT_AS 1500 MB",
    ])


def replay(run: core.Run, path: str) -> int:
    from .. import impl_c10
    data = json.load(open(path))
    rp = data["replay"]
    kind = data.get("kind", "")
    if "world" in rp:
        o = impl_c10.compile_world({"files": rp["world"], "root": rp["root"], "lookup": rp.get("lookup", [])})
        bad = classify("", o)
        if not bad and o.get("ok") and kind.endswith("_accepted"):
            bad = (kind, "import world compiles")
    else:
        text = rp["text"]
        pool = core.Pool(1, mem_mb=MEM_MB)
        try:
            o = pool.map("harness.impl_c10:compile_one", [{"text": text}], timeout=30)[0]
        finally:
            pool.close()
        if no_answer(o):
            o = {"no_answer": True, "detail": o}
        bad = classify(text, o)
        if not bad and o.get("ok") and kind.startswith("accepted:"):
            bad = (kind, "program with injected defect compiles")
    print("outcome:", outcome_key(o))
    if bad:
        print("VIOLATION-REPLAY", bad[0], bad[1])
        return 1
    return 0
