"""C13 — flat structured programs decompile back to structured, jump-free text.
Deciding method: translation validation per input (kernel-checked checker, as C02) + two decidable predicates on the
decompiled AST (no jump statement; every operation of the source printed exactly once). The decompiler is not modelled."""
from __future__ import annotations

import copy
import json
import os
from collections import Counter
from typing import Any

from .. import core, escommon, decomp_common as dc
from ..gen import surface
from ..gen.programs import Cfg
from . import c02

MODULES = c02.MODULES
THEOREMS = c02.THEOREMS


def events(core_prog: dict) -> Counter:
    """multiset of operations (name, params) a core program prints: plain ops, context ops, condition/switch/case headers"""
    out: Counter = Counter()

    def ev(name: str, params: list) -> None:
        out[json.dumps([name, params], sort_keys=True)] += 1

    def stmt(s: list) -> None:
        t = s[0]
        if t == "op":
            ev(s[1], s[2])
        elif t == "ctx":
            ev(s[1], s[2]); stmt(s[3])
        elif t == "if":
            for neg, tests, body in s[1]:
                for nm, ps in tests:
                    ev(nm, ps)
                for b in body:
                    stmt(b)
            for b in (s[2] or []):
                stmt(b)
        elif t == "switch":
            ev(s[1][0], s[1][1])
            for isd, test, body in s[2]:
                if test is not None:
                    ev(test[0], test[1])
                for b in body:
                    stmt(b)
        elif t in ("forever",):
            for b in s[1]:
                stmt(b)
        elif t == "while":
            ev(s[2][0], s[2][1])
            for b in s[3]:
                stmt(b)
        elif t == "for":
            stmt(s[1]); ev(s[2][0], s[2][1]); stmt(s[3])
            for b in s[4]:
                stmt(b)
        elif t in ("ret", "end", "hold"):
            ev(t, [])
    for r in core_prog["routines"]:
        for s in (r or []):
            stmt(s)
    return out


def has_jump(core_prog: dict) -> bool:
    return '"jump"' in json.dumps(core_prog) and any(_hj(s) for r in core_prog["routines"] for s in (r or []))


def _hj(s: list) -> bool:
    t = s[0]
    if t == "jump":
        return True
    if t == "ctx":
        return _hj(s[3])
    if t == "if":
        return any(_hj(b) for _, _, body in s[1] for b in body) or any(_hj(b) for b in (s[2] or []))
    if t == "switch":
        return any(_hj(b) for _, _, body in s[2] for b in body)
    if t == "forever":
        return any(_hj(b) for b in s[1])
    if t == "while":
        return any(_hj(b) for b in s[3])
    if t == "for":
        return any(_hj(b) for b in s[4])
    return False


def source_shapes(ast: dict) -> list[str]:
    """named shapes of the SOURCE program (only used to match known findings)"""
    out = []
    for r in ast["routines"]:
        for s in (r["body"] or []):
            if s["t"] == "switch":
                cs = s["cases"]
                if any(len(c["body"]) == 1 and c["body"][0]["t"] == "ctrl" for c in cs):
                    out.append("switch_case_with_only_break")
                for i, c in enumerate(cs):
                    if c.get("default") and ((not c["body"] and i + 1 < len(cs)) or (i > 0 and not cs[i - 1]["body"])):
                        out.append("default_grouped_with_case")
    return out


def run(run: core.Run) -> int:
    n = 1500 if run.tier == "quick" else 12000
    prep = core.lean_prepare(MODULES)
    aud = core.audit(THEOREMS, MODULES) if prep["proofs_ok"] else {"obligations": len(THEOREMS), "discharged": 0, "ok": False, "theorems": {}}
    if not prep["driver_ok"]:
        run.broken_tie("Lean driver does not build", {"log": prep["log"][-3000:]})
        return run.finish("translation_validation", {"programs": 1, "disagreements_checked": 0, "samples": ["driver unavailable"]}, [])
    jobs = core.jobs_for(run.tier)
    drv = core.Driver()
    pool = core.Pool(jobs)
    cnt: Counter = Counter()
    try:
        cfgs = [Cfg(flat=True, reader_shaped=True, max_stmts=2, max_routines=1), Cfg(flat=True, reader_shaped=True, max_stmts=3, max_routines=2),
                Cfg(flat=True, reader_shaped=True, max_stmts=5, max_routines=2), Cfg(flat=True, reader_shaped=True, max_stmts=3, max_routines=3, coro=True)]
        for c_ in cfgs:
            c_.with_halt = 0.15      # `with (actor X) { end; }` is a plain with-block statement: behind a context op nothing stops the routine
        sets = dc.routine_sets_from_programs(run, pool, n, cfgs)
        sets = c02.wf_filter(sets, drv, jobs)
        for i, s_ in enumerate(sets):
            s_["twice"] = i % 6 == 5     # every sixth set: the answer of a second convert() of the same decompiler object
        results = dc.pipeline_all(pool, sets, timeout=40, single_timeout=12)
    finally:
        pool.close()
    fails, cnt2 = c02.evaluate(sets, results, drv, jobs)
    n_viol = 0
    for s, r, f in zip(sets, results, fails):
        ast = s["origin"]["ast"]
        bad: list[tuple[str, str]] = []
        d = r["dec"]
        if "error" in d:
            bad.append(("no_text", f"decompiler gave no text: {d['error']}"))
        elif r.get("fallback"):
            cnt["fallback"] += 1
            bad.append(("fallback", "decompiler fell back to SsbScript (labels and Jump ops) for a flat structured program"))
        elif r.get("core") is None:
            bad.append(("unparsable", "decompiled text cannot be parsed"))
        else:
            cnt["structured"] += 1
            if has_jump(r["core"]):
                cnt["has_jump"] += 1
                bad.append(("jump_statement", "decompiled text contains a jump statement"))
            src = events(dc.canon_dmode_core(surface.lower_program(ast)))
            # the source was made reader-shaped before decompiling (numeric dungeon modes, safe strings): compare with the input ops instead
            inp: Counter = Counter()
            for rt in s["rs"]["ops"]:
                for o in rt:
                    ps = o["params"][:-1] if o["name"] in dc.JUMPY else o["params"]
                    nm = {"Return": "ret", "End": "end", "Hold": "hold"}.get(o["name"], o["name"])
                    if o["name"] != "Jump":
                        inp[json.dumps([nm, ps if nm not in ("ret", "end", "hold") else []], sort_keys=True)] += 1
            dec = events(dc.canon_dmode_core(copy.deepcopy(r["core"])))
            # terminators may be merged/duplicated by layout; operations proper must match exactly
            strip = lambda c: Counter({k: v for k, v in c.items() if json.loads(k)[0] not in ("ret", "end", "hold")})  # noqa
            if strip(dec) != strip(inp):
                extra = strip(dec) - strip(inp)
                missing = strip(inp) - strip(dec)
                bad.append(("ops_not_once", f"operations printed differ from the source: extra {list(extra)[:2]} missing {list(missing)[:2]}"))
        for stage, what, _ in f:
            bad.append((stage, what))
        if bad:
            n_viol += 1
            sh = source_shapes(ast)
            kind = f"flat_not_structured:{sh[0]}" if sh else bad[0][0]
            run.violation(kind, bad[0][1], {"text": s["origin"]["text"], "rs": s["rs"], "decompiled": d.get("text"), "all": bad[:5]})
    if not prep["proofs_ok"] or not aud["ok"]:
        run.broken_tie("Lean obligations (checker soundness) do not check", {"theorems": THEOREMS, "log": prep["log"][-3000:]})
    cov = {
        "programs": len(sets), "disagreements_checked": n_viol,
        "samples": [{"source": s["origin"]["text"], "decompiled": r["dec"].get("text")} for s, r in list(zip(sets, results))[:2]],
        "outcomes": dict(cnt), "validation": dict(cnt2),
        "evaluations": len(sets), "distinct_nontrivial": core.distinct(s["origin"]["text"] for s in sets),
        "rule": "flat structured programs: plain statements (ops, assignments, with-blocks, message switches), if/elseif/else chains with ||/not/empty blocks, break-terminated switches with grouped cases and default, one terminator; compiled by the real compiler, made reader-shaped, decompiled by the real decompiler",
        "obligations": aud["obligations"], "discharged": aud["discharged"] if prep["proofs_ok"] else 0,
        "checker_cmd": "lake build ESV.Props.C01; esvdrive beh.validate", "trusted_base": ["Lean kernel", "astdump glue", "lowering table"],
        "theorems": THEOREMS,
    }
    return run.finish("translation_validation", cov, ["the decompiler is not modelled; per-input validation only"])


def replay(run: core.Run, path: str) -> int:
    from .. import impl_es
    data = json.load(open(path))
    rs = data["replay"]["rs"]
    pool = core.Pool(1)
    try:
        r = dc.pipeline_all(pool, [{"rs": rs}])[0]
    finally:
        pool.close()
    if "error" in r["dec"] or r.get("fallback") or r.get("core") is None or has_jump(r["core"]):
        print("VIOLATION-REPLAY not structured / has jump")
        return 1
    return 0
