"""C02 — decompiled source denotes the input routines; recompiling preserves behaviour.
Deciding method: translation validation with the kernel-checked checker (ESV.Beh.check_sound): the real
decompiler's text is (a) parsed by the repo's parser and given meaning by the Lean source semantics, validated against
the input routine set on the Lean SSB machine, and (b) compiled by the real compiler, the result validated
machine-vs-machine against the input."""
from __future__ import annotations

import copy
import json
import os
from collections import Counter
from typing import Any

from .. import core, escommon, decomp_common as dc, decomp_front as dfr
from ..gen.programs import Cfg

MODULES = ["ESV.Props.C01"] + dfr.MODULES
THEOREMS = ["ESV.Beh.check_sound", "ESV.Beh.validate_sound", "ESV.C01.routine_validated", "ESV.C01.machines_validated",
            "ESV.C01.equivalent_halting_trace", "ESV.C01.tables_tied", "ESV.Beh.Equivalent.trans", "ESV.Beh.Equivalent.symm"]
THEOREMS += dfr.THEOREMS


# ---- named shape predicates of INPUT routine sets (only used to match known findings) --------------------------------
def shapes(rs: dict) -> list[str]:
    out = []
    ops = [o for r in rs["ops"] for o in r]
    offs = {}
    for ri, r in enumerate(rs["ops"]):
        for o in r:
            offs[o["off"]] = ri
    if any(r and r[0]["name"] == "Jump" for r in rs["ops"]):
        out.append("routine_starts_with_jump")
    if any(o["name"] == "Call" for o in ops):
        out.append("has_call_op")
    cross = False
    back = False
    for ri, r in enumerate(rs["ops"]):
        for o in r:
            if o["name"] in dc.JUMPY and o["params"] and isinstance(o["params"][-1], int):
                t = o["params"][-1]
                if offs.get(t, ri) != ri:
                    cross = True
                if t <= o["off"]:
                    back = True
    if cross:
        out.append("cross_routine_jump")
    case_targets = {o["params"][-1] for o in ops if o["name"].startswith("Case") and o["name"] in dc.JUMPY and o["params"]}
    for r in rs["ops"]:
        for a, b in zip(r, r[1:]):
            if b["off"] in case_targets and a["name"] not in ("Jump", "Return", "End", "Hold", "Destroy", "JumpCommon") \
                    and not a["name"].startswith("Case") and not a["name"].startswith("Switch") and a["name"] not in SWITCH_HEADERS:
                out.append("switch_fallthrough")
                break
    for r in rs["ops"]:
        for a, b in zip(r, r[1:]):
            if b["name"] == "Jump" and b["params"] and b["params"][-1] == a["off"] and a["name"] in dc.JUMPY and a["name"] not in ("Jump", "Call"):
                out.append("empty_body_loop")
                break
    if "empty_body_loop" not in out and any(o["name"] in dc.JUMPY and o["name"] not in ("Jump", "Call") and o["params"] and o["params"][-1] == o["off"] for o in ops):
        out.append("empty_body_loop")     # a test op that branches to itself ('while (c) { }')
    for r in rs["ops"]:
        edges = [(o["params"][-1], o["off"]) for o in r if o["name"] in dc.JUMPY and o["params"] and isinstance(o["params"][-1], int) and o["params"][-1] <= o["off"]]
        complex_ = any(t1 != t2 and not (s1 < t2 or s2 < t1) for i, (t1, s1) in enumerate(edges) for (t2, s2) in edges[i + 1:])
        for t, s_ in edges:
            # a simple loop is straight-line code plus its own test and back jump (forever / while / while not / for as compiled)
            if sum(1 for o in r if t <= o["off"] <= s_ and o["name"] in dc.JUMPY) > 2:
                complex_ = True
        if complex_:
            out.append("complex_loop")
            break
    targets: dict = {}
    for o in ops:
        if o["name"] in dc.JUMPY and o["params"] and isinstance(o["params"][-1], int):
            targets.setdefault(o["params"][-1], set()).add(o["off"])
    for r in rs["ops"]:
        for a, b in zip(r, r[1:]):
            if a["name"].startswith("Branch") and (targets.get(b["off"], set()) - {a["off"]}):
                out.append("test_falls_into_join")   # the not-taken path of a condition enters a point other ops jump to
                break
        else:
            continue
        break
    jump_targets = {o["params"][-1] for o in ops if o["name"] == "Jump" and o["params"]}
    if any(o["name"].startswith("Branch") and o["params"] and o["params"][-1] in jump_targets for o in ops):
        out.append("branch_to_shared_join")   # e.g. 'if (c) { break; }' folded into the branch: its target is a join other jumps use
    # a loop (ops between the target and the source of a backward jump) that is left towards two or more different places:
    # structured source (while/for/forever with break_loop) leaves a loop at one place only
    multi = False
    for r in rs["ops"]:
        ro = [o["off"] for o in r]
        for o in r:
            if o["name"] in dc.JUMPY and o["params"] and isinstance(o["params"][-1], int) and o["params"][-1] <= o["off"] and o["params"][-1] in ro:
                t, s_ = o["params"][-1], o["off"]
                exits = set()
                for q in r:
                    if t <= q["off"] <= s_ and q["name"] in dc.JUMPY and q["name"] != "Call" and q["params"] and isinstance(q["params"][-1], int):
                        if q["params"][-1] > s_ or q["params"][-1] not in ro:
                            exits.add(q["params"][-1])
                nxt = [x for x in ro if x > s_]
                if o["name"] != "Jump" and nxt:
                    exits.add(nxt[0])      # a test as the last op of the loop also leaves it by falling through
                if len(exits) >= 2:
                    multi = True
    if multi:
        out.append("multi_exit_loop")
    # a test whose target is the op right behind it (an if with an empty block: both outcomes continue at the same place)
    for r in rs["ops"]:
        if any(a["name"].startswith("Branch") and a["params"] and a["params"][-1] == b["off"] for a, b in zip(r, r[1:])):
            out.append("empty_test")
            break
    if rs.get("_unreachable"):
        out.append("unreachable_ops")
    if back:
        out.append("backward_jump")
    return out


SWITCH_HEADERS = {"message_SwitchMenu", "message_SwitchMenu2", "ProcessSpecial", "message_Menu", "main_EnterAdventure", "main_EnterRescueUser",
                  "main_EnterTraining", "main_EnterTraining2"}


def first_kind(rs: dict, stage: str) -> str:
    """the kind names a narrow input class (only used to match known findings); the failing stage goes into the description.
    After the repairs of build round 2 (see known_findings.jsonl, status fixed) the decompiler is wrong on two classes only;
    every other failing input is unclassified and therefore a VIOLATION."""
    sh = set(shapes(rs))
    cyclic = sh & {"backward_jump", "complex_loop", "empty_body_loop"}
    if "has_call_op" in sh and cyclic:
        return "decompiled_wrong:call_in_cyclic_flow"
    if "routine_starts_with_jump" in sh and "complex_loop" in sh:
        return "decompiled_wrong:starts_with_jump_into_complex_loop"
    if "empty_test" in sh and "complex_loop" in sh:
        return "decompiled_wrong:empty_test_in_complex_loop"
    if "multi_exit_loop" in sh and ("test_falls_into_join" in sh or "complex_loop" in sh):
        return "decompiled_wrong:multi_exit_loop"
    if "has_call_op" in sh and "cross_routine_jump" in sh and "switch_fallthrough" in sh:
        return "decompiled_wrong:call_cross_routine_and_switch_fallthrough"
    return f"{stage}:unclassified"


def cfgs_for(tier: str) -> list[Cfg]:
    # (with_halt: `with (actor X) { end; }` - behind a context op nothing stops the routine, for both compilers and decompilers)
    good = dict(reader_shaped=True, labels=False, with_halt=0.2)
    return [Cfg(max_depth=2, max_stmts=2, max_routines=1, **good), Cfg(max_depth=2, max_stmts=3, max_routines=2, **good),
            Cfg(max_depth=3, max_stmts=3, max_routines=2, **good), Cfg(flat=True, max_stmts=3, max_routines=2, **good),
            Cfg(max_depth=2, max_stmts=3, max_routines=2, loops=False, **good), Cfg(max_depth=2, max_stmts=3, max_routines=1, switches=False, **good),
            Cfg(max_depth=2, max_stmts=3, max_routines=2, coro=True, **good),
            Cfg(max_depth=2, max_stmts=3, max_routines=2, reader_shaped=True), Cfg(max_depth=3, max_stmts=4, max_routines=3, reader_shaped=True),
            # "other layouts of the same flow graphs": branch ops aiming anywhere (lone jumps folded into the branch), no Jump between tests
            Cfg(max_depth=1, max_stmts=2, max_routines=1, reader_shaped=True, goto_style=1.0),
            Cfg(max_depth=1, max_stmts=4, max_routines=1, reader_shaped=True, goto_style=1.0, switches=False, loops=False),
            Cfg(max_depth=2, max_stmts=4, max_routines=2, reader_shaped=True, goto_style=0.7)]


def evaluate(sets: list[dict], results: list[dict], drv: core.Driver, jobs: int) -> tuple[list[list[tuple[str, str, dict]]], Counter]:
    """-> per set: list of (stage, what, detail) failures; and outcome counts"""
    fails: list[list[tuple[str, str, dict]]] = [[] for _ in sets]
    cnt: Counter = Counter()
    reqs, idx = [], []
    for i, (s, r) in enumerate(zip(sets, results)):
        x = s["rs"]
        d = r["dec"]
        if "error" in d:
            cnt["decompiler_raised" if not d.get("no_answer") else "decompiler_no_answer"] += 1   # C06's business
            continue
        y = r["recompiled"]
        if "error" in y:
            cnt["recompile_error"] += 1
            fails[i].append(("not_accepted", f"decompiled text is rejected by the compiler: {y['error']}: {y['msg'][:120]}", {"text": d["text"]}))
            continue
        tm = dc.tables_equal(x, y)
        if tm:
            fails[i].append(("tables", tm, {"text": d["text"]}))
        reqs.append(dc.mm_request(dc.canon_dmode_ops(copy.deepcopy(y["ops"])), x["ops"], len(x["ops"])))
        idx.append((i, "recompiled"))
        if r.get("fallback"):
            cnt["fallback"] += 1
            continue
        cnt["structured"] += 1
        if r.get("core") is None:
            fails[i].append(("unparsable", f"decompiled text cannot be read back: {r.get('ast_error')}", {"text": d["text"]}))
            continue
        reqs.append({"op": "beh.validate", "prog": dc.canon_dmode_core(copy.deepcopy(r["core"])), "ops": x["ops"]})
        idx.append((i, "denotes"))
    reps = drv.batch_parallel(reqs, jobs)
    for (i, stage), rep in zip(idx, reps):
        for v in escommon.routine_verdicts(rep):
            cnt[stage + ":" + v["verdict"]] += 1
            if v["verdict"] in escommon.BAD_VERDICTS or v["verdict"] == "silent-left":
                fails[i].append((stage, f"routine {v['r']}: {v['verdict']} {v.get('why', '')} after test outcomes {v.get('path')}",
                                 {"verdict": v, "text": results[i]["dec"].get("text")}))
    return fails, cnt


def wf_filter(sets: list[dict], drv: core.Driver, jobs: int) -> list[dict]:
    """quantifier of C02: every path of every routine ends in a flow-ending op (nothing runs off the end of a
    routine or jumps to a missing op) and no cycle consists of Jump ops only"""
    reps = drv.batch_parallel([{"op": "beh.wf", "ops": s["rs"]["ops"], "n": len(s["rs"]["ops"])} for s in sets], jobs)
    out = []
    for s, w in zip(sets, reps):
        if "routines" not in w:
            continue
        ok = True
        reached: set = set()
        for v, ops in zip(w["routines"], s["rs"]["ops"]):
            if ops and (v["falls_off"] or v["stuck"] or v["silent_cycle"]):
                ok = False
            reached |= set(v.get("reached", []))
        if ok:
            s["rs"]["_unreachable"] = sum(len(r) for r in s["rs"]["ops"]) - len(reached)
            s["rs"]["_reached"] = sorted(reached)     # positions (in the flattened op list) some routine entry reaches
            out.append(s)
    return out


def run(run: core.Run) -> int:
    n = 2000 if run.tier == "quick" else 8000
    prep = core.lean_prepare(MODULES)
    aud = core.audit(THEOREMS, MODULES) if prep["proofs_ok"] else {"obligations": len(THEOREMS), "discharged": 0, "ok": False, "theorems": {}}
    if not prep["driver_ok"]:
        run.broken_tie("Lean driver does not build", {"log": prep["log"][-3000:]})
        return run.finish("translation_validation", {"programs": 1, "disagreements_checked": 0, "samples": ["driver unavailable"]}, [])
    jobs = core.jobs_for(run.tier)
    drv = core.Driver()
    pool = core.Pool(jobs)
    try:
        sets = []
        corpus = os.path.join(core.ROOT, "corpus", "c02.jsonl")
        if os.path.exists(corpus):
            for l in open(corpus):
                if l.strip():
                    sets.append({"rs": json.loads(l)["rs"], "origin": {"kind": "corpus"}})
        sets += dc.routine_sets_from_programs(run, pool, n, cfgs_for(run.tier))
        sets = wf_filter(sets, drv, jobs)
        for i, s_ in enumerate(sets):
            s_["twice"] = i % 6 == 5     # every sixth set: the answer of a second convert() of the same decompiler object
        results = dc.pipeline_all(pool, sets, timeout=30, single_timeout=8)
        fails, cnt = evaluate(sets, results, drv, jobs)
        front = dfr.front_channels(run, pool, drv, sets, jobs)
        n_viol = 0
        shape_cnt: Counter = Counter()
        kind_cnt: Counter = Counter()
        class_cnt: Counter = Counter()
        for s, r, f in zip(sets, results, fails):
            shape_cnt.update(shapes(s["rs"]) or ["plain"])
            class_cnt[first_kind(s["rs"], "none")] += 1
            if not f:
                continue
            n_viol += 1
            stage = f[0][0]
            kind = first_kind(s["rs"], stage)
            kind_cnt[kind] += 1
            replay = {"rs": s["rs"], "origin_text": s["origin"].get("text"), "failures": [(a, b) for a, b, _ in f], "decompiled": r["dec"].get("text")}
            if kind.endswith(":unclassified") and sum(1 for v in run.violations) < 3:
                # shrink the routine set while an unclassified failure of the same stage persists
                def still(t: dict) -> bool:
                    if not first_kind(t, stage).endswith(":unclassified"):
                        return False
                    rr = dc.pipeline_all(pool, [{"rs": t}], single_timeout=20)
                    ff, _ = evaluate([{"rs": t}], rr, drv, 1)
                    return any(a == stage for a, _, _ in ff[0])
                small = dc.shrink_rs(s["rs"], still, budget=60)
                rr = dc.pipeline_all(pool, [{"rs": small}])
                replay = {"rs": small, "decompiled": rr[0]["dec"].get("text"), "original_rs": s["rs"], "failures": [(a, b) for a, b, _ in f]}
            run.violation(kind, f"[{stage}] " + f[0][1], replay)
    finally:
        pool.close()
    if not prep["proofs_ok"] or not aud["ok"]:
        run.broken_tie("Lean obligations of C02 do not check (build/audit/table tie)", {"theorems": THEOREMS, "log": prep["log"][-3000:]})
    cov = {
        "programs": len(sets), "disagreements_checked": n_viol,
        "samples": [{"rs": s["rs"], "decompiled": r["dec"].get("text")} for s, r in list(zip(sets, results))[:2]],
        "front_phases": front, "outcomes": dict(cnt), "input_shapes": dict(shape_cnt), "failure_kinds": dict(kind_cnt),
        "inputs_per_known_finding_class": dict(class_cnt),   # 'none:unclassified' = inputs on which every failure is a VIOLATION
        "evaluations": len(sets), "distinct_nontrivial": core.distinct(s["rs"]["ops"] for s in sets),
        "rule": "routine sets = real compiler output of generated programs (reader-shaped: numeric dungeon modes and flags), filtered to sets without Jump-only cycles; mostly label-free structured control flow (ifs, switches with fall-through, loops, message switches, with-blocks, coroutines), a share with user labels/jump/call incl. cross-routine jumps",
        "obligations": aud["obligations"], "discharged": aud["discharged"] if prep["proofs_ok"] else 0,
        "checker_cmd": "lake build ESV.Props.C01; esvdrive beh.validate / beh.validate_mm (search + verified check)",
        "trusted_base": ["Lean 4.33 kernel + propext/Classical.choice/Quot.sound", "Lean compiler executing the validator",
                         "astdump glue (repo parser -> AST) and the lowering table harness/gen/surface.py"],
        "theorems": THEOREMS, "tables": prep.get("tables"),
    }
    return run.finish("translation_validation", cov, [
        "the decompiler is not modelled (igraph heuristics); every verdict is per input, by a proven checker",
        "decompiler exceptions/timeouts are C06's business and only counted here",
        "a dungeon-mode number 0..3 may come back as its configured constant (compared by number)",
    ])


def replay(run: core.Run, path: str) -> int:
    data = json.load(open(path))
    rs = data["replay"]["rs"]
    core.lean_prepare([], need_driver=True)
    pool = core.Pool(1)
    try:
        rr = dc.pipeline_all(pool, [{"rs": rs}])
    finally:
        pool.close()
    ff, _ = evaluate([{"rs": rs}], rr, core.Driver(), 1)
    for a, b, _ in ff[0]:
        print("VIOLATION-REPLAY", a, b)
    return 1 if ff[0] else 0
