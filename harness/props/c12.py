"""C12 — Concurrent compilation and decompilation give the sequential results.

Deciding method (MANIFEST category "other" = proof of the lock protocol + schedule exploration of the real code):
* Lean theorems ESV.C12.* about the memo table shared by any number of threads under EVERY interleaving of the atomic
  sections the real functions consist of (lean/ESV/Cache/Threads.lean).
* Tie (trace validation): real concurrent runs with the lock, the cache functions and the graph mutators wrapped from
  outside; the recorded global order of sections is replayed through the Lean threaded machine (events must agree).
* Property oracle on the real code: every call's result in a concurrent run equals (canonical JSON) the result of the
  same call alone in a fresh process, and — in "warm" runs — the result of the same call run sequentially in the same
  process just before; no call raises what it does not raise alone.  Two ways of exploring schedules, each run in a
  fresh process:
    (a) deterministic scheduler: a sys.settrace line hook on graph_utils / graph_minimizer / ssb_decompiler /
        explorerscript_reader / macro / compiler utils / ssb_compiler (and, in half of the runs, the antlr4 runtime's
        ATN simulators and DFA, which hold the parsers' shared caches) parks every thread at every traced line; a PRNG
        decides at each such point whether another thread continues.  The list of switches [point number, thread] is
        the schedule and the replay.
    (b) free running threads (2-8) with sys.setswitchinterval(1e-6).
"""
from __future__ import annotations

import copy
import json
import random
from collections import Counter
from typing import Any

import os

from .. import cachehist, core, fresh, shared_inventory
from . import c11

MODULES = ["ESV.Props.C12"]
THEOREMS = ["ESV.C12.interleave_safe", "ESV.C12.interleave_safe_start", "ESV.C12.interleave_no_keyerror",
            "ESV.C12.interleave_sequential", "ESV.C12.interleave_sequential_finished", "ESV.C12.interleave_stale_counterexample",
            "ESV.C12.shared_inventory_pinned"]
THREADS = "harness.impl_cache:run_threads"
COMPILE_THREADS = "harness.impl_cache:run_compile_threads"


def gen_threads(r: random.Random, pools: c11.Pools, n_threads: int, max_calls: int, flavour: str) -> list[list[dict]]:
    out = []
    for _ in range(n_threads):
        calls = []
        for _ in range(r.randint(1, max_calls)):
            c = r.random()
            if flavour == "decompile":
                c = c * 0.55
            elif flavour == "compile":
                c = 0.55 + c * 0.45
            if c < 0.2 and pools.rs:
                calls.append(copy.deepcopy(r.choice(pools.rs)))
            elif c < 0.32:
                calls.append(copy.deepcopy(r.choice(pools.rs_abort)))
            elif c < 0.44:
                calls.append(copy.deepcopy(r.choice(pools.rs_switch)))
            elif c < 0.5 and pools.rs_broken:
                calls.append(copy.deepcopy(r.choice(pools.rs_broken)))
            elif c < 0.55 and pools.cd:
                calls.append(copy.deepcopy(r.choice(pools.cd)))
            elif c < 0.85 and pools.texts:
                calls.append(copy.deepcopy(r.choice(pools.texts)))
            elif pools.bad_texts:
                calls.append(copy.deepcopy(r.choice(pools.bad_texts)))
        out.append(calls or [copy.deepcopy(r.choice(pools.rs_switch))])
    return out


def gen_samekeys(r: random.Random, n_threads: int) -> list[list[dict]]:
    """threads whose graphs produce the SAME memo keys (edge-index strings): routine sets of the abort / switch-first families
    with matching prefixes, so that an entry leaking from one thread's table into another's would be hit"""
    pre = r.choice([0, 1, 2])
    out = []
    for t in range(n_threads):
        calls = []
        for _ in range(r.randint(2, 3)):
            k = r.choice([1, 3, 8])
            calls.append({"kind": "decompile", "rs": c11.rs_abort(k, pre + 2) if r.random() < 0.4 else c11.rs_switch(k, pre)})
        out.append(calls)
    return out


SHARED_ML = "'shared first line\\nshared second line\\n  third'"
SHARED_LS = "{ english='one\\ntwo', german='eins\\nzwei' }"


def pipe_text(depth: int, tag: int) -> str:
    """a script that uses the SAME multi-line string literals as the other pipeline scripts, at block depth `depth`"""
    ind = lambda d: "    " * (d + 1)  # noqa
    body = ""
    for d in range(depth):
        body += f"{ind(d)}if ($P{tag} == {d}) {{\n"
    for k in range(12):          # many writes of the shared literals: the window is one statement wide
        body += f"{ind(depth)}message_Notice({SHARED_ML.replace('third', 'third ' + str(k % 3))});\n"
    body += f"{ind(depth)}message_Talk({SHARED_ML});\n{ind(depth)}own_{tag}({tag}, {SHARED_ML});\n{ind(depth)}message_Mail({SHARED_LS});\n"
    for d in reversed(range(depth)):
        body += f"{ind(d)}}}\n"
    return f"def 0 {{\n{body}    t_{tag}({SHARED_ML});\n    end;\n}}\n"


def gen_pipeline_case(r: random.Random, i: int, sched: bool, pipe_rs: dict[int, dict]) -> dict:
    """compile -> decompile pipelines: every thread compiles its own script once and then decompiles the compiled OBJECTS again and again;
    the scripts share equal multi-line constant / language strings at different block depths (objects shared between compile results
    would be written concurrently).  pipe_rs: depth -> routine-set JSON of the compiled script (for the references)"""
    n = r.choice([3, 4]) if sched else r.choice([4, 6, 8])
    depths = r.sample(sorted(pipe_rs), min(n, len(pipe_rs)))
    reps = 3 if sched else r.choice([10, 20])
    threads = [[{"kind": "compile", "text": pipe_text(d, d), "lookup": [], "store": "p"}] + [{"kind": "decompile", "rs": pipe_rs[d], "obj": "p"}] * reps for d in depths]
    if sched:
        # yield points only where parameters and statements are written: the threads meet in the writers, not in the graph passes
        return {"threads": threads, "mode": "sched", "seed": r.randint(0, 10**9), "p_switch": r.choice([0.05, 0.1, 0.3]), "warm": False, "antlr": False,
                "trace_only": [os.path.join("simple_ops", "simple.py"), "switch_start.py", "message_switches_cases.py", "ssb_decompiler.py"],
                "budget_s": 150, "instrument": False, "flavour": "pipeline"}
    return {"threads": threads, "mode": "free", "switchinterval": 1e-6, "warm": False, "budget_s": 150, "instrument": False, "flavour": "pipeline"}


def gen_project_case(r: random.Random, pools: c11.Pools, i: int, sched: bool) -> dict:
    """files of ONE project on disk (relative './x' and '../x' imports, transitive imports, the same relative names in different directories)
    compiled concurrently, a thread's top-level file being what another thread's file imports"""
    gs = [g for g in pools.graphs if g and "project" in g[0]]
    g = [c for c in r.choice(gs) if not c.get("macros_only")]
    n = r.choice([3, 4]) if sched else r.choice([4, 6, 8])
    threads = [[copy.deepcopy(r.choice(g)) for _ in range(r.randint(2, 4))] for _ in range(n)]
    if sched:
        return {"threads": threads, "mode": "sched", "seed": r.randint(0, 10**9), "p_switch": r.choice([0.05, 0.2, 0.5]), "warm": False, "antlr": False,
                "budget_s": 150, "instrument": False, "flavour": "project"}
    return {"threads": threads, "mode": "free", "switchinterval": r.choice([1e-6, 1e-5]), "warm": False, "budget_s": 150, "instrument": False, "flavour": "project"}


def gen_cold_case(r: random.Random, pools: c11.Pools, i: int) -> dict:
    """cold start: a fresh interpreter in which nothing of the implementation has been imported or run; its very first
    compile()/convert() calls are made by 6-8 threads at once (lazy initialisation, first-use caches, imports inside functions)"""
    n = r.choice([6, 7, 8])
    threads = []
    for t in range(n):
        c = r.random()
        if c < 0.55 and pools.cold_rs:
            first = copy.deepcopy(r.choice(pools.cold_rs))              # convert() of a set with assignments, ctx ops, keywords, message switches
        elif c < 0.8 and pools.cold_cd:
            first = copy.deepcopy(r.choice(pools.cold_cd))              # compile() + convert() of such a script
        elif pools.graphs and c < 0.9:
            g = r.choice(pools.graphs)
            first = copy.deepcopy(r.choice([x for x in g if not x.get("macros_only")] or g))   # compile() of a file with imports
        else:
            first = copy.deepcopy(r.choice(pools.cold_cd or pools.texts))
        calls = [first]
        if r.random() < 0.5 and pools.cold_rs:
            calls.append(copy.deepcopy(r.choice(pools.cold_rs)))
        threads.append(calls)
    return {"threads": threads, "mode": "free", "cold": True, "switchinterval": r.choice([1e-6, 1e-6, 1e-5]), "warm": False, "budget_s": 150,
            "instrument": False, "flavour": "cold"}


def gen_case(r: random.Random, pools: c11.Pools, i: int, sched: bool) -> dict:
    flavour = r.choice(["mixed", "mixed", "decompile", "compile", "samekeys"])
    if flavour == "samekeys":
        if sched:
            return {"threads": gen_samekeys(r, r.choice([2, 3, 4])), "mode": "sched", "seed": r.randint(0, 10**9), "p_switch": r.choice([0.05, 0.2, 0.5]),
                    "warm": False, "antlr": False, "budget_s": 150, "instrument": False, "flavour": flavour}
        return {"threads": gen_samekeys(r, r.choice([3, 4, 8])), "mode": "free", "switchinterval": 1e-6, "warm": False, "budget_s": 150, "instrument": False, "flavour": flavour}
    if sched:
        n = r.choice([2, 2, 3, 4])
        return {"threads": gen_threads(r, pools, n, 2, flavour), "mode": "sched", "seed": r.randint(0, 10**9),
                "p_switch": r.choice([0.002, 0.02, 0.1, 0.5]), "warm": r.random() < 0.5, "antlr": r.random() < 0.5, "budget_s": 150,
                "instrument": False, "flavour": flavour}
    n = r.choice([2, 3, 4, 6, 8])
    return {"threads": gen_threads(r, pools, n, 3, flavour), "mode": "free", "switchinterval": r.choice([1e-6, 1e-6, 1e-5, 1e-4]),
            "warm": r.random() < 0.5, "budget_s": 150, "instrument": False, "flavour": flavour}


def deep_text(r: random.Random, depth: int, tag: int) -> str:
    """a valid script whose blocks nest `depth` deep (ifs, whiles, fors, switch cases mixed)"""
    open_, close = [], []
    for d in range(depth):
        k = r.random()
        ind = " " * (d + 1)
        if k < 0.6:
            open_.append(f"{ind}if ($SCENARIO_MAIN == {d}) {{\n{ind} deep_{tag}({d});\n")
            close.append(f"{ind}}}\n")
        elif k < 0.75:
            open_.append(f"{ind}while ($X < {d}) {{\n")
            close.append(f"{ind}}}\n")
        elif k < 0.9:
            open_.append(f"{ind}switch ($Y) {{\n{ind}case {d}:\n")
            close.append(f"{ind}}}\n")
        else:
            open_.append(f"{ind}if not (debug) {{\n{ind} a();\n{ind}}} else {{\n")
            close.append(f"{ind}}}\n")
    return "def 0 {\n" + "".join(open_) + " " * (depth + 1) + f"bottom_{tag}();\n" + "".join(reversed(close)) + "    end;\n}\n"


def small_text(n: int) -> str:
    body = ""
    for k in range(2 + n % 3):
        body += f"    if ($L{k} == {n}) {{\n        s_{n}_a({k});\n    }} else {{\n        s_{n}_b({k}, 'text {n}');\n    }}\n"
    body += f"    switch ($EVENT_LOCAL) {{\n        case {n}:\n            c_{n}();\n            break;\n        default:\n            d_{n}();\n            break;\n    }}\n"
    return f"macro m{n}($x) {{\n    in_macro_{n}($x);\n}}\ndef 0 {{\n{body}    ~m{n}({n});\n    end;\n}}\ncoro CORO_{n} {{\n    hold;\n}}\n"


def gen_deep_case(r: random.Random, i: int) -> dict:
    """compiler-only process at the interpreter's default recursion limit: 2-3 threads compile scripts nested 130-200 deep (and some
    moderately nested ones), 2 threads keep compiling small scripts meanwhile (save/modify/restore of an interpreter-wide setting by
    one call would be undone under another call's feet)"""
    threads = []
    for t in range(r.choice([2, 3])):
        calls = [{"kind": "compile", "text": deep_text(r, r.randint(130, 200), 10 * i + t), "lookup": []}]
        if r.random() < 0.5:
            calls.append({"kind": "compile", "text": deep_text(r, r.randint(30, 70), 10 * i + t + 5), "lookup": []})
        threads.append({"calls": calls, "loop": False})
    for t in range(2):
        threads.append({"calls": [{"kind": "compile", "text": small_text(3 * i + t), "lookup": []}], "loop": True})
    return {"threads": threads, "recursion_limit": 1000, "switchinterval": r.choice([1e-6, 1e-6, 1e-5]), "pause_ms": r.choice([0, 1, 2, 5]),
            "repeat": r.choice([2, 3, 5]), "budget_s": 120, "mode": "compiler_only"}


def check_deep(case: dict, out: dict, refs_co: dict) -> list[dict]:
    diffs = []
    for ti, (sp, rows) in enumerate(zip(case["threads"], out["results"])):
        calls = sp["calls"]
        for ri, row in enumerate(rows):
            call = calls[ri % len(calls)]
            ref = refs_co.get(c11.spec_key(call))
            if ref is None or ref.get("no_answer"):
                continue
            if row["digest"] != ref["digest"]:
                kind, what = classify(call, row, ref)
                diffs.append({"thread": ti, "index": ri % len(calls), "kind": kind + "_compiler_only_process",
                              "what": what + " [process that imports only the compiler, interpreter's default recursion limit; compared with the call alone in such a process]", "against": "alone"})
                break
    pb, pa = out.get("process_before", {}), out.get("process_after", {})
    for k in ("recursion_limit", "cwd", "decompiler_imported"):
        if pb.get(k) != pa.get(k):
            diffs.append({"thread": -1, "index": 0, "kind": "process_setting_changed_after_concurrent_calls",
                          "what": f"after the concurrent compile() calls the process-wide {k} is {pa.get(k)!r}, it was {pb.get(k)!r}", "against": "-"})
    return diffs


def classify(call: dict, got: dict, exp: dict) -> tuple[str, str]:
    gs, es = got["summary"], exp["summary"]
    if gs.get("error") == "ParseError" == es.get("error") and gs.get("site") == es.get("site") and gs.get("msg") != es.get("msg"):
        return ("parse_error_message_depends_on_antlr_shared_atn",
                f"the MESSAGE of the ParseError of a malformed source differs when other threads have parsed before/meanwhile ({gs.get('msg')!r} instead of {es.get('msg')!r}; "
                "same class and position): the generated parsers share their ATN / DFA caches as class attributes")
    if "error" in gs and "error" not in es:
        return ("exception_only_when_concurrent", f"{call['kind']} raises {gs['error']} at {gs.get('site')} ({gs.get('msg', '')[:120]}) when run concurrently, not when run alone")
    if "error" in es and "error" not in gs:
        return ("exception_missing_when_concurrent", f"{call['kind']} raises {es['error']} alone but returns a result when run concurrently")
    return ("concurrent_result_differs", f"{call['kind']} returns another result when run concurrently than when run alone"
            + (" (SsbScript fallback only in one of them)" if gs.get("fallback") != es.get("fallback") else ""))


def check_run(case: dict, out: dict, refs: dict) -> list[dict]:
    """-> list of differences {thread, index, kind, what, against}"""
    diffs = []
    for ti, (calls, rows) in enumerate(zip(case["threads"], out["results"])):
        for ci, call in enumerate(calls):
            if ci >= len(rows):
                diffs.append({"thread": ti, "index": ci, "kind": "call_did_not_finish", "what": f"thread {ti} did not finish call {ci}: {out['errors'][ti]}", "against": "-"})
                break
            ref = refs.get(c11.spec_key(call))
            cands = []
            if ref is not None and not ref.get("no_answer"):
                cands.append(("alone in a fresh process", ref))
            if out.get("warm_results"):
                cands.append(("sequentially in the same process", out["warm_results"][ti][ci]))
            for against, exp in cands:
                if rows[ci]["digest"] != exp["digest"]:
                    kind, what = classify(call, rows[ci], exp)
                    diffs.append({"thread": ti, "index": ci, "kind": kind, "what": what + f" [compared with the call run {against}]", "against": against})
                    break
            if rows[ci].get("input_same") is False:
                diffs.append({"thread": ti, "index": ci, "kind": "input_meaning_changed_by_decompile", "what": "the caller's routine set changed (beyond indent) during a concurrent convert()", "against": "-"})
    pb, pa = out.get("process_before") or {}, out.get("process_after") or {}
    for k in ("cwd",):          # (the recursion limit is raised by the import of graph_minimizer: compared in the compiler-only scenario)
        if pb.get(k) != pa.get(k):
            diffs.append({"thread": 0, "index": 0, "kind": "process_setting_changed_after_concurrent_calls",
                          "what": f"after the concurrent calls the process-wide {k} is {pa.get(k)!r}, it was {pb.get(k)!r}", "against": "-"})
    return diffs


def run(run: core.Run) -> int:
    quick = run.tier == "quick"
    n_sched, n_free, n_instr, n_prog = (14, 14, 6, 24) if quick else (500, 400, 60, 100)
    jobs = core.jobs_for(run.tier)
    stamp0 = fresh.tree_stamp()
    inv = shared_inventory.inventory(core.REPO)
    shared_inventory.write_lean(inv)
    prep = core.lean_prepare(MODULES)
    aud = core.audit(THEOREMS, MODULES) if prep["proofs_ok"] else {"obligations": len(THEOREMS), "discharged": 0, "ok": False, "theorems": {}}
    drv = core.Driver() if prep["driver_ok"] else None
    pinned: list[str] = []
    inv_new: list[str] = []
    inv_gone: list[str] = []
    if drv is not None:
        pinned, inv_new, inv_gone = shared_inventory.diff_with_pinned(drv, inv)
        if inv_new or inv_gone:
            run.broken_tie("static inventory C12: the writes to process-wide state in the current source differ from the list the thread model is built over "
                           f"(lean/ESV/Cache/Shared.lean): new {inv_new}, no longer present {inv_gone}", {"new": inv_new, "gone": inv_gone})
    setting_like = any(x.startswith(("call|", "global|", "class-write|")) for x in inv_new)
    object_like = any(x.startswith(("module-object|", "class-object|", "antlr|")) for x in inv_new)
    n_deep = (4 if quick else 40) + (14 if setting_like else 0)
    if object_like:          # targeted search: more schedules in which the threads' graphs / parsers meet
        n_sched += 14
        n_free += 10
    pools, refs, stats = c11.build_pools(run, jobs, n_prog, light=True)
    # compiler-only scenario: deep inputs next to small ones
    deep_cases = [gen_deep_case(run.rng, i) for i in range(n_deep)]
    co_calls = {c11.spec_key(c): c for dc in deep_cases for sp in dc["threads"] for c in sp["calls"]}
    co_keys = list(co_calls)
    co_res = fresh.run_fresh_many([(c11.SESSION, {"calls": [co_calls[k]], "compiler_only": True, "recursion_limit": 1000}) for k in co_keys], jobs, timeout=120)
    refs_co = {k: (x["results"][0] if not fresh.failed(x) and "results" in x else {"no_answer": True}) for k, x in zip(co_keys, co_res)}
    for k, x in zip(co_keys, co_res):
        if not fresh.failed(x) and x.get("process", {}).get("decompiler_imported"):
            raise core.Infra("the compiler-only reference process has the decompiler imported: the scenario no longer tests what it is meant to")
    deep_outs = fresh.run_fresh_many([(COMPILE_THREADS, {k: v for k, v in dc.items() if k != "mode"}) for dc in deep_cases], max(2, jobs // 2), timeout=200)
    lazy_like = any("@fn" in x or x.startswith("default-arg|") for x in inv_new)
    n_cold = (10 if quick else 100) + (20 if (object_like or lazy_like) else 0)
    cases = [gen_case(run.rng, pools, i, True) for i in range(n_sched)] + [gen_case(run.rng, pools, i, False) for i in range(n_free)]
    cases += [gen_cold_case(run.rng, pools, i) for i in range(n_cold)]
    memo_like = any(x.startswith("memo|") for x in inv_new)
    n_pipe = (4 if quick else 40) + (12 if (memo_like or object_like or lazy_like) else 0)
    n_proj = (6 if quick else 60) + (14 if (setting_like or lazy_like) else 0)
    # the pipeline scripts compiled alone (fresh processes): their routine sets are what the threads' decompile calls are compared on
    pipe_rs: dict[int, dict] = {}
    pcalls = {d: {"kind": "compile", "text": pipe_text(d, d), "lookup": []} for d in range(0, 9)}
    for d, x in zip(pcalls, fresh.run_fresh_many([(c11.SESSION, {"calls": [pcalls[d]], "full": "all"}) for d in pcalls], jobs, timeout=120)):
        if not fresh.failed(x) and "results" in x and x["results"][0].get("full", {}).get("ops") is not None:
            full = x["results"][0]["full"]
            refs[c11.spec_key(pcalls[d])] = x["results"][0]
            pipe_rs[d] = {"infos": full["infos"], "coros": full["coros"], "ops": [[{"off": o["off"], "name": o["name"], "params": o["params"]} for o in rt] for rt in full["ops"]]}
    extra = ([gen_pipeline_case(run.rng, i, i % 2 == 1, pipe_rs) for i in range(n_pipe)] if len(pipe_rs) >= 4 else []) \
        + [gen_project_case(run.rng, pools, i, i % 3 == 2) for i in range(n_proj)]
    # references of the calls these scenarios introduce (each alone in a fresh process)
    need = {c11.spec_key(c): c for cs in extra for t in cs["threads"] for c in t if c11.spec_key(c) not in refs}
    nk = list(need)
    for k, x in zip(nk, fresh.run_fresh_many([(c11.SESSION, {"calls": [c11.alone(need[k])]}) for k in nk], jobs, timeout=120)):
        refs[k] = x["results"][0] if not fresh.failed(x) and "results" in x else {"no_answer": True}
    cases += extra
    instr = []
    for i in range(n_instr):
        c = gen_case(run.rng, pools, i, i % 3 != 2)
        c["instrument"] = True
        c["warm"] = False
        if i % 2 == 0:
            c["threads"] = gen_threads(run.rng, pools, len(c["threads"]), 2, "decompile")
        elif i % 4 == 1:
            c["threads"] = gen_samekeys(run.rng, len(c["threads"]))
        instr.append(c)
    cases += instr
    # the Lean witness on the real code: thread A = routine sets whose convert() is abandoned midway, thread B = switch-first sets
    cases.append({"threads": [[{"kind": "decompile", "rs": c11.rs_abort(8, 2)}] * 2, [{"kind": "decompile", "rs": c11.rs_switch(8, 0)}] * 2], "mode": "sched", "seed": 7,
                  "p_switch": 0.05, "warm": False, "antlr": False, "budget_s": 150, "instrument": False, "flavour": "witness"})

    # threads that are all inside loop bodies (with a break_loop) at the same time: what one decompilation knows about its open
    # loops is its own
    for sd in (3, 11, 29, 57):
        cases.append({"threads": [[{"kind": "decompile", "rs": c11.rs_loops(4, "x")}] * 2, [{"kind": "decompile", "rs": c11.rs_loops(5, "y")}] * 2,
                                  [{"kind": "decompile", "rs": c11.rs_loops(3, "z")}] * 2], "mode": "sched", "seed": sd,
                      "p_switch": 0.3 if sd % 2 else 0.1, "warm": False, "antlr": False, "budget_s": 150, "instrument": False, "flavour": "loops",
                      # yield points in the loop / block / if writers only: the threads meet inside loop bodies
                      "trace_only": ["forever_start.py", "forever_break.py", "forever_continue.py", "block.py", "if_start.py", "label.py"]})

    # references of the calls of the fixed scenarios above (each alone in a fresh process)
    need2 = {c11.spec_key(c): c for cs in cases for t in cs["threads"] for c in t if c11.spec_key(c) not in refs}
    nk2 = list(need2)
    for k, x in zip(nk2, fresh.run_fresh_many([(c11.SESSION, {"calls": [c11.alone(need2[k])]}) for k in nk2], jobs, timeout=120)):
        refs[k] = x["results"][0] if not fresh.failed(x) and "results" in x else {"no_answer": True}

    def strip(c: dict) -> dict:
        return {k: v for k, v in c.items() if k != "flavour"}
    outs = fresh.run_fresh_many([(THREADS, strip(c)) for c in cases], max(2, jobs // 2), timeout=200)
    infra = 0
    st: Counter = Counter()
    found: dict[str, dict] = {}
    per_kind: Counter = Counter()
    tv: Counter = Counter()
    for c, o in zip(cases, outs):
        if fresh.failed(o) or o.get("broken") or any(e and e.startswith(("sched", "harness")) for e in o.get("errors", [])):
            o2 = fresh.run_fresh(THREADS, strip(c), timeout=300)       # once more, alone on the machine
            if fresh.failed(o2) or o2.get("broken") or any(e and e.startswith(("sched", "harness")) for e in o2.get("errors", [])):
                infra += 1
                run.notes.append("run without verdict: " + json.dumps({k: o2.get(k) for k in ("broken", "errors", "__timeout__", "__died__", "__exc__")} if isinstance(o2, dict) else str(o2))[:300])
                continue
            o = o2
        st["runs_" + c["mode"]] += 1
        st["runs_cold_start"] += bool(c.get("cold"))
        if c.get("cold") and o.get("implementation_modules_before_threads"):
            raise core.Infra("a cold-start run had modules of the implementation imported before its threads started: the scenario no longer tests a cold start")
        st["runs_warm"] += bool(c.get("warm"))
        st["threads"] += len(c["threads"])
        st["calls"] += sum(len(t) for t in c["threads"])
        st["yield_points"] += o.get("points") or 0
        st["switches"] += len(o.get("switches") or [])
        st["replay_divergences"] += o.get("diverged") or 0
        for row in [x for t in o["results"] for x in t]:
            st["outcome:" + (("error:" + row["summary"]["error"]) if "error" in row["summary"] else ("fallback" if row["summary"].get("fallback") else "ok"))] += 1
        diffs = check_run(c, o, refs)
        for d in diffs:
            st["differences"] += 1
            st["difference_kind:" + d["kind"]] += 1
            per_kind[d["kind"]] += 1
            sig = d["kind"] + "|" + str(min(per_kind[d["kind"]], 3))      # up to three representatives of every kind
            if sig not in found and len(found) < 30:
                found[sig] = {"case": c, "out": o, "diff": d}
        if c.get("instrument") and drv is not None and "events" in o:
            m = cachehist.to_model(o["events"])
            tv["runs_replayed"] += 1
            tv["sections"] += len(m["ops"])
            tv["thread_changes_between_consecutive_sections"] += sum(1 for a, b in zip(m["tids"], m["tids"][1:]) if a != b)
            rep = drv.batch([cachehist.replay_mt_request(m)])[0]
            if "error" in rep:
                run.broken_tie("trace validation C12: the driver rejected a recorded concurrent run", {"error": rep["error"]})
                continue
            bad = cachehist.compare_events(m, rep["events"]) + m["problems"] + o.get("problems", [])
            if bad:
                tv["runs_disagreeing"] += 1
                if tv["runs_disagreeing"] <= 2:
                    run.broken_tie("trace validation C12: the threaded memo machine and the recorded concurrent run of graph_utils disagree: " + bad[0],
                                   {"first": bad[:5], "threads": [[x["kind"] for x in t] for t in c["threads"]], "mode": c["mode"]})
            disc = [d for _, d in rep["disciplined"]]
            tv["threads_disciplined"] += sum(disc)
            tv["threads_total"] += len(disc)
            if all(disc):
                tv["runs_with_all_threads_disciplined"] += 1
                if not rep["safe"]:
                    run.broken_tie("trace validation C12: all threads Disciplined but a recorded query result is not the recomputed one (contradicts interleave_safe)", {"events": rep["events"][:40]})
            sr = cachehist.stale_report(m)
            for k, v in sr["counts"].items():
                tv["oracle_" + k] += v
            if sr["counts"].get("stale_from_dead_graph"):
                run.violation("stale_memo_entry_seen_by_concurrent_convert", "a concurrent convert() was answered from the memo entry of another (dead) graph", {"examples": sr["examples"], "threads": c["threads"]})
    deep_stats: Counter = Counter()
    for dc, o in zip(deep_cases, deep_outs):
        if fresh.failed(o) or o.get("broken") or any(o.get("errors") or []):
            o = fresh.run_fresh(COMPILE_THREADS, {k: v for k, v in dc.items() if k != "mode"}, timeout=300)
            if fresh.failed(o) or o.get("broken") or any(o.get("errors") or []):
                infra += 1
                run.notes.append("compiler-only run without verdict: " + json.dumps(o)[:200])
                continue
        deep_stats["runs"] += 1
        deep_stats["calls"] += sum(len(t) for t in o["results"])
        deep_stats["decompiler_imported"] += bool(o["process_before"].get("decompiler_imported"))
        for t in o["results"]:
            for row in t:
                deep_stats["outcome:" + (row["summary"].get("error") or "ok")] += 1
        for d in check_deep(dc, o, refs_co):
            st["differences"] += 1
            per_kind[d["kind"]] += 1
            sig = d["kind"] + "|" + str(min(per_kind[d["kind"]], 2))
            if sig not in found and len(found) < 30:
                found[sig] = {"case": dc, "out": o, "diff": d}
    if deep_stats["decompiler_imported"]:
        raise core.Infra("the compiler-only scenario ran in a process that had imported the decompiler")
    if infra > max(2, len(cases) // 10):
        raise core.Infra(f"{infra} of {len(cases)} concurrent runs gave no verdict (scheduler time-outs / worker deaths): {run.notes[:3]}")

    for sig, f in found.items():
        c, d = f["case"], f["diff"]
        if c["mode"] == "compiler_only":
            replay_arg = {k: v for k, v in c.items() if k != "mode"}
            # shrink: the thread of the differing call with its one call, and one looping thread
            if d["thread"] >= 0:
                small = dict(replay_arg, threads=[{"calls": [c["threads"][d["thread"]]["calls"][d["index"]]], "loop": False}] + [sp for sp in c["threads"] if sp.get("loop")][:1],
                             repeat=max(3, c.get("repeat", 2)))
                for _ in range(3):
                    o2 = fresh.run_fresh(COMPILE_THREADS, small, timeout=300)
                    if not fresh.failed(o2) and any(x["kind"] == d["kind"] for x in check_deep(dict(small, mode="compiler_only"), o2, refs_co)):
                        replay_arg, c = small, dict(small, mode="compiler_only")
                        d = dict(d, thread=0, index=0)
                        break
            again, tries = 0, 3
            for _ in range(tries):
                o2 = fresh.run_fresh(COMPILE_THREADS, replay_arg, timeout=300)
                if not fresh.failed(o2) and any(x["kind"] == d["kind"] for x in check_deep(c, o2, refs_co)):
                    again += 1
            st["kind:" + d["kind"]] += 1
            run.violation(d["kind"], d["what"] + f" (seen again in {again} of {tries} re-runs)",
                          {"compile_threads": replay_arg, "difference": d,
                           "observed_call": c["threads"][d["thread"]]["calls"][d["index"]] if d["thread"] >= 0 else None,
                           "how_to_replay": "./check C12 --replay <this file>: runs `compile_threads` in a fresh compiler-only process and compares every call with the same call alone in such a process"})
            continue
        replay_arg = strip(dict(c, switches=f["out"].get("switches"))) if c["mode"] == "sched" else strip(c)
        # does it show again? (same schedule for (a); for (b) the same threads a few more times)
        again = 0
        tries = 2 if c["mode"] == "sched" else 4
        for _ in range(tries):
            o2 = fresh.run_fresh(THREADS, replay_arg, timeout=300)
            if not fresh.failed(o2) and any(x["kind"] == d["kind"] and x["thread"] == d["thread"] and x["index"] == d["index"] for x in check_run(c, o2, refs)):
                again += 1
        st["kind:" + d["kind"]] += 1
        run.violation(d["kind"], d["what"] + f" (seen again in {again} of {tries} re-runs)",
                      {"run": replay_arg, "difference": d, "observed_call": c["threads"][d["thread"]][d["index"]],
                       "how_to_replay": "./check C12 --replay <this file>: runs `run` (for the deterministic scheduler: with the recorded switch list) in a fresh process and compares every call with the same call alone"})
    if fresh.tree_stamp() != stamp0:
        raise core.Infra("the files under " + core.REPO + "/explorerscript changed while the check was running: references and sessions saw different trees; run again")
    if not prep["proofs_ok"] or not aud["ok"] or drv is None:
        run.broken_tie("Lean obligations of C12 do not check (build/audit)", {"theorems": THEOREMS, "log": prep["log"][-3000:], "audit": aud})
    c11.cleanup_projects()
    if (inv_new or inv_gone) and pinned:
        shared_inventory.write_lean(pinned)
    sample = [{"mode": c["mode"], "threads": [[x["kind"] for x in t] for t in c["threads"]], **{k: c[k] for k in ("seed", "p_switch", "warm", "antlr", "switchinterval") if k in c}} for c in cases[:2] + cases[n_sched:n_sched + 1]]
    cov = core.proof_coverage(run, prep, aud, MODULES, THEOREMS, {
        "explanation": "Kernel-checked theorem: under every interleaving of the locked sections of graph_utils' cache functions, threads that own their graphs and follow the clear "
                       "protocol get exactly the recomputed values and never a KeyError (K3 model, any number of threads, recyclable ids); tied to the code by replaying recorded "
                       "concurrent runs through the Lean machine. The property itself is explored on the real code under a deterministic line-level scheduler and under free running "
                       "threads. NOT modellable here and covered by exploration only: CPython's choice of recycled ids, the GIL's real switch points inside C code (igraph, dict), the "
                       "ANTLR runtime's shared ATN/DFA caches.",
        "evaluations": int(st["calls"]), "distinct_nontrivial": len({json.dumps([c["threads"], c.get("seed"), c["mode"]], sort_keys=True) for c in cases}),
        "rule": "a case = 2-8 threads, each with 1-3 compile/decompile calls on inputs from the pools of C11 (compiled programs, failing sources, abort / switch-first / broken routine sets), "
                "run in a fresh process under (a) the PRNG-driven line scheduler with switch probability 0.002-0.5 per traced line, or (b) free running with switch interval 1e-6..1e-4 s; "
                "half of the runs first compute the sequential results in the same process; evaluations = calls compared; non-trivial = distinct (threads, schedule seed) cases",
        "samples": sample, "stats": dict(st), "runs_without_verdict": infra,
        "traces_validated_against_impl": int(tv["runs_replayed"]), "trace_validation": dict(tv),
        "reference_stats": dict(stats), "compiler_only_scenario": dict(deep_stats),
        "shared_state_inventory": {"entries": len(inv), "new": inv_new, "gone": inv_gone},
    })
    return run.finish("other", cov, [
        "CPython's GIL: a thread switch happens between bytecodes; switches inside C extension calls (igraph) are not controlled by the scheduler (a)",
        "the scheduler serialises the threads: it explores interleavings at traced-line granularity of the listed files only",
        "live objects have distinct id(); which ids are recycled is decided by the allocator",
        "the graph search `_impl` is a parameter of the model",
    ])


def replay(run: core.Run, path: str) -> int:
    data = json.load(open(path))
    if "compile_threads" in data["replay"]:
        arg = data["replay"]["compile_threads"]
        o = fresh.run_fresh(COMPILE_THREADS, arg, timeout=300)
        if fresh.failed(o) or o.get("broken"):
            print("REPLAY: no verdict", json.dumps(o)[:300])
            return 2
        refs_co = {}
        for sp in arg["threads"]:
            for c in sp["calls"]:
                x = fresh.run_fresh(c11.SESSION, {"calls": [c], "compiler_only": True, "recursion_limit": arg.get("recursion_limit", 1000)}, timeout=120)
                refs_co[c11.spec_key(c)] = x["results"][0] if not fresh.failed(x) else {"no_answer": True}
        diffs = check_deep(dict(arg, mode="compiler_only"), o, refs_co)
        for d in diffs:
            print("VIOLATION-REPLAY", d["kind"], d["what"][:300])
        return 1 if diffs else 0
    arg = data["replay"]["run"]
    o = fresh.run_fresh(THREADS, arg, timeout=300)
    if fresh.failed(o) or o.get("broken"):
        print("REPLAY: no verdict", json.dumps(o)[:300])
        return 2
    refs = {}
    calls = [c for t in arg["threads"] for c in t]
    for c in calls:
        k = c11.spec_key(c)
        if k not in refs:
            x = fresh.run_fresh(c11.SESSION, {"calls": [c11.alone(c)]}, timeout=120)
            refs[k] = x["results"][0] if not fresh.failed(x) else {"no_answer": True}
    diffs = check_run(arg, o, refs)
    for d in diffs:
        print("VIOLATION-REPLAY", d["kind"], d["what"][:300])
    return 1 if diffs else 0
