"""C15 — the compile CLI prints what the decompile CLI (and the docs) expect.

Deciding method: Lean theorems ESV.C15.* about the model lean/ESV/Cli/Model.lean of cli/compile.py (build_ops,
build_routines_json) and cli/decompile.py (parse_pos_mark_arg, read_ops, read_routines, check_settings, the decompiler's
id -> name table) and of the documented structure (DocShape).  The model is tied to the code by exact comparison with the
real functions (in-process) and with what the real commands print (subprocesses).  The property oracle is evaluated on
real subprocess runs of `python -m explorerscript.cli.compile|decompile`: exit status, documented structure (hand-written
validator from docs/cli_api_usage.rst and the Lean DocShape), jump parameters = 1-based positions of the targets computed
from the in-process compile, and the end-to-end round trip validated behaviourally by the kernel-checked validator
(beh.validate, translation validation) against the ops of the in-process compile."""
from __future__ import annotations

import contextlib
import copy
import io
import json
import os
import random
import re
from collections import Counter
from typing import Any

from .. import core, decomp_common, escommon, impl_cli
from ..gen import surface
from ..gen.programs import Cfg
from .c01 import table_mismatch

MODULES = ["ESV.Props.C15"]
THEOREMS = [
    "ESV.C15.cli_docshape", "ESV.C15.cli_settings_complete", "ESV.C15.cli_accepts_documented", "ESV.C15.docShapeStr_documented",
    "ESV.C15.cli_roundtrip", "ESV.C15.cli_build_positional", "ESV.C15.cli_positional", "ESV.C15.cli_conservative",
    "ESV.C15.cli_coroutines_named", "ESV.C15.cli_offsets_from_zero_example",
    "ESV.C15.cli_raw_positional", "ESV.C15.cli_raw_positional_only", "ESV.C15.cli_raw_positional_iff",
    # witnesses of the repaired defects, against the old behaviour (lean/ESV/Cli/Pinned.lean)
    "ESV.C15.cli_gap_counterexample", "ESV.C15.cli_gap_wrong_op_counterexample", "ESV.C15.cli_out_of_order_counterexample",
    "ESV.C15.cli_coroutine_counterexample", "ESV.C15.cli_target_null_counterexample", "ESV.C15.cli_posmark_int_counterexample",
    "ESV.Cli.cliParsePos_posFinal",
]

SETTINGS = impl_cli.SETTINGS
ROUTINE_TYPES = ("COROUTINE", "GENERIC", "ACTOR", "OBJECT", "PERFORMER")
# beh.validate {prog = decompiled text, ops = compiled ops}: silent-right = the *source* has an op-free cycle (outside the quantifier)
BAD = ("differ", "silent-left", "check-rejected")

# fixed programs that always run first: the witnesses of the Lean counterexample theorems (defects repaired by fix: commits —
# a regression is a VIOLATION) and every documented feature
CORPUS = [
    ("gap_if", "def 0 { if ($X == 1) { a(); } b(); }"),
    ("gap_wrong_op", "def 0 { jump @l; @l; jump @m; a(); @m; b(); c(); }"),
    ("coroutine", "coro FOO { a(); }"),
    ("all_args", "def 0 { a(Position<'m', 1, 2.5>, 1.25, \"s\", {english=\"x\", german=\"y\"}, C, -3, $V); return; }\n"
                 "def 1 for actor(ACTOR_X) { b(); hold; }\ndef 2 for object(7) { b(); end; }\ndef 3 for performer(0) { c(); return; }"),
    ("target_minus_one", "def 0 { a(); return; }\ndef 1 for actor(-1) { b(); return; }"),
    ("id_gap", "def 1 { a(); }"),
    ("empty", ""),
    ("cross_routine", "def 0 { jump @x; }\ndef 1 { a(); @x; b(); return; }"),
    ("out_of_order", "def 0 { switch ($X) { case 1: a(); default: b(); } c(); }"),
    ("def_then_coro", "def 0 { a(); return; }\ncoro X { b(); return; }"),
    ("coro_def_coro", "coro A { a(); return; }\ndef 1 { b(); return; }\ncoro B { c(); jump @l; }\ndef 3 for actor(ACTOR_X) { @l; d(); hold; }"),
    ("actor_coro_alias", "def 0 for object(3) { a(); end; }\ncoro C { b(); return; }\ndef 2 { alias previous; }"),
    # SsbScript sources: the SsbScript compiler numbers ops from 0
    ("ssbs_first_op", "//?: is-ssb-script: true\ndef 0 {\n    @top;\n    WaitFrames(1);\n    BranchBit($FLAG, 3, @done);\n    Jump(@top);\n    @done;\n"
                      "    Return();\n}\ndef 1 for_actor(3) {\n    Call(@top);\n    Hold();\n}\n"),
    ("ssbs_cross_coro_alias", "//?: is-ssb-script: true\ndef 0 {\n    Jump(@x);\n}\ncoro NAME {\n    a(1, 'str');\n    @x;\n    b();\n    Call(@first);\n    Return();\n}\n"
                              "def 2 for object OBJ {\n    alias previous;\n}\ndef 3 for performer 0 {\n    @first;\n    c();\n    Jump(@first);\n}\n"),
    ("unparsable", "def 0 { a(; }"),
    ("undefined_label", "def 0 { jump @nolabel; }"),
]


def cfgs_for(tier: str) -> list[Cfg]:
    base = dict(strings_nl=False)
    cfgs = [Cfg(max_depth=2, max_stmts=2, max_routines=1, **base), Cfg(max_depth=2, max_stmts=3, max_routines=2, **base),
            Cfg(max_depth=3, max_stmts=4, max_routines=3, **base), Cfg(max_depth=1, max_stmts=3, max_routines=2, p_halt=0.2, **base),
            Cfg(max_depth=3, max_stmts=3, max_routines=1, switches=True, loops=False, **base),
            Cfg(max_depth=3, max_stmts=3, max_routines=1, loops=True, switches=False, **base),
            Cfg(max_depth=2, max_stmts=3, max_routines=2, coro=True, **base),
            Cfg(max_depth=1, max_stmts=4, max_routines=3, labels=False, **base)]
    if tier == "thorough":
        cfgs += [Cfg(max_depth=4, max_stmts=6, max_routines=4, **base)]
    return cfgs


def mix_coroutines(rng: random.Random, ast: dict) -> dict | None:
    """turn some plain `def N` routines of a generated program into `coro NAME` routines, so that coroutines stand before,
    between and after routines of the other kinds (a coroutine takes the id after the previous routine: ids stay as they are)"""
    rts = ast["routines"]
    idx = [i for i, r in enumerate(rts) if r["kind"] == "def" and r.get("body") is not None and r["id"] == i]
    if len(rts) < 2 or not idx or any(r["kind"] == "coro" for r in rts):
        return None
    out = copy.deepcopy(ast)
    chosen = [i for i in idx if rng.random() < 0.5] or [rng.choice(idx)]
    for i in chosen:
        out["routines"][i] = {"kind": "coro", "id": i, "name": f"CORO_{i}", "body": out["routines"][i]["body"]}
    return out


def jumps_to(rs: dict, off: int, jt: dict) -> int:
    """number of ops of the set whose jump parameter is `off`"""
    return sum(1 for rt in rs["ops"] for o in rt if o["name"] in jt and jt[o["name"]] < len(o["params"]) and o["params"][jt[o["name"]]] == off)


SSBS_MARKER = "//?: is-ssb-script: true\n"


def corrupt(rng: random.Random, text: str) -> str:
    """make a source statically invalid or unparsable (whether it really is, the in-process compile decides)"""
    c = rng.random()
    if c < 0.3 and "{" in text:
        i = text.index("{")
        return text[:i + 1] + " jump @no_such_label_zz; " + text[i + 1:]
    if c < 0.45 and "{" in text:
        i = text.index("{")
        return text[:i + 1] + " @dup_zz; @dup_zz; " + text[i + 1:]
    if c < 0.7 and "}" in text:
        i = text.rindex("}")
        return text[:i] + text[i + 1:]
    if c < 0.85 and ";" in text:
        i = text.index(";")
        return text[:i] + " ( ;" + text[i + 1:]
    return text + "\n}} garbage ((("


# ----------------------------------------------------------------------------------------------------------------------
# the documented structure, written from docs/cli_api_usage.rst by hand (the `jsonschema` of the design, without the library)
# ----------------------------------------------------------------------------------------------------------------------
NUM_RE = re.compile(r"^-?[0-9]+(\.[0-9]+)?$")
COORD_RE = re.compile(r"^-?(0|[1-9][0-9]*)(\.5)?$")


def is_int(v: Any) -> bool:
    return isinstance(v, int) and not isinstance(v, bool)


def param_errors(p: Any, ints: bool = True) -> list[str]:
    if is_int(p):
        return []
    if not isinstance(p, dict) or "type" not in p or "value" not in p:
        return ["argument is neither an integer nor an object with type and value"]
    t, v = p["type"], p["value"]
    if t == "FIXED_POINT":
        return [] if isinstance(v, str) and NUM_RE.match(v) else [f"FIXED_POINT value {v!r} is not a number string"]
    if t in ("CONSTANT", "CONST_STRING"):
        return [] if isinstance(v, str) else [f"{t} value is not a string"]
    if t == "LANG_STRING":
        return [] if isinstance(v, dict) and all(isinstance(x, str) for x in v.values()) else ["LANG_STRING value is not an object of strings"]
    if t == "POSITION_MARK":
        if not isinstance(v, dict) or not isinstance(v.get("name"), str):
            return ["POSITION_MARK without a name"]
        out = []
        for k in ("x", "y"):
            c = v.get(k)
            if not ((ints and is_int(c)) or (isinstance(c, str) and COORD_RE.match(c))):
                out.append(f"POSITION_MARK {k} = {c!r} is neither an integer nor a whole/half tile string")
        return out
    return [f"unknown argument type {t!r}"]


def doc_errors(doc: Any, ints: bool = True) -> list[str]:
    """[] iff the document follows docs/cli_api_usage.rst (ints=False: position coordinates must be strings)"""
    if not isinstance(doc, dict):
        return ["not an object"]
    out: list[str] = []
    st = doc.get("settings")
    if not isinstance(st, dict) or not isinstance(st.get("performance_progress_list_var_name"), str):
        out.append("settings.performance_progress_list_var_name missing")
    dm = st.get("dungeon_mode_constants") if isinstance(st, dict) else None
    if not isinstance(dm, dict) or not all(isinstance(dm.get(k), str) for k in ("open", "closed", "request", "open_request")):
        out.append("settings.dungeon_mode_constants missing or malformed")
    rs = doc.get("routines")
    if not isinstance(rs, list):
        return out + ["routines is not a list"]
    for i, r in enumerate(rs):
        if not isinstance(r, dict) or r.get("type") not in ROUTINE_TYPES:
            out.append(f"routine {i}: unknown type")
            continue
        if r["type"] == "COROUTINE" and not isinstance(r.get("name"), str):
            out.append(f"routine {i}: COROUTINE without a name")
        if r["type"] in ("ACTOR", "OBJECT", "PERFORMER") and not (is_int(r.get("target_id")) or isinstance(r.get("target_id"), str)):
            out.append(f"routine {i}: target_id {r.get('target_id')!r} is neither an integer nor a string")
        ops = r.get("ops")
        if not isinstance(ops, list):
            out.append(f"routine {i}: ops is not a list")
            continue
        for k, o in enumerate(ops):
            if not isinstance(o, dict) or not isinstance(o.get("opcode"), str) or not isinstance(o.get("params"), list):
                out.append(f"routine {i} op {k}: opcode/params missing")
                continue
            for p in o["params"]:
                out += [f"routine {i} op {k}: {e}" for e in param_errors(p, ints)]
    return out


# ----------------------------------------------------------------------------------------------------------------------
# documented JSON <-> routine set JSON (harness/rsjson.py format), by this project's reading of the documentation
# ----------------------------------------------------------------------------------------------------------------------
def coord_of(c: Any) -> tuple[int, int]:
    if is_int(c):
        return c, 0
    if c.endswith(".5"):
        return int(c[:-2]), 2
    return int(c), 0


def param_of_doc(p: Any) -> Any:
    if is_int(p):
        return p
    t, v = p["type"], p["value"]
    if t == "FIXED_POINT":
        return {"fx": v}
    if t == "CONSTANT":
        return {"c": v}
    if t == "CONST_STRING":
        return {"s": v}
    if t == "LANG_STRING":
        return {"ls": [[k, x] for k, x in v.items()]}
    xr, xo = coord_of(v["x"])
    yr, yo = coord_of(v["y"])
    return {"pm": [v["name"], xo, yo, xr, yr]}


def doc_to_rs(doc: dict) -> dict:
    """"The indices start at 1!", "the opcode offset plus the length of all previous routines" """
    infos, coros, ops = [], [], []
    n = 0
    for r in doc["routines"]:
        t = r["type"]
        tid = r.get("target_id")
        infos.append({"type": t, "linked_to": tid if is_int(tid) else -1, "linked_to_name": tid if isinstance(tid, str) else None})
        coros.append(r.get("name") if t == "COROUTINE" else None)
        row = []
        for o in r["ops"]:
            n += 1
            row.append({"off": n, "name": o["opcode"], "params": [param_of_doc(p) for p in o["params"]]})
        ops.append(row)
    return {"infos": infos, "coros": coros, "ops": ops}


def param_to_doc(p: Any) -> Any:
    if isinstance(p, int):
        return p
    if "fx" in p:
        return {"type": "FIXED_POINT", "value": p["fx"]}
    if "c" in p:
        return {"type": "CONSTANT", "value": p["c"]}
    if "s" in p:
        return {"type": "CONST_STRING", "value": p["s"]}
    if "ls" in p:
        return {"type": "LANG_STRING", "value": {k: v for k, v in p["ls"]}}
    name, xo, yo, xr, yr = p["pm"]
    return {"type": "POSITION_MARK", "value": {"name": name, "x": f"{xr}.5" if xo > 1 else str(xr), "y": f"{yr}.5" if yo > 1 else str(yr)}}


def jump_table() -> dict:
    # the pinned specification table (generated from lean/ESV/Beh/Spec.lean), never the table of the /repo under test:
    # an edited OPS_WITH_JUMP_TO_MEM_OFFSET must not move the oracle along with the code (its tie is ESV.TableTie)
    from .. import spec_tables
    return dict(spec_tables.OPS_WITH_JUMP)


def positions(rs: dict) -> dict:
    """internal offset -> 1-based position across all routines"""
    pos: dict = {}
    n = 0
    for r in rs["ops"]:
        for o in r:
            n += 1
            pos.setdefault(o["off"], n)
    return pos


def rs_to_doc(rs: dict, jt: dict) -> dict:
    """the document the documentation describes for a compiled routine set: jump parameters are positions"""
    pos = positions(rs)
    routines = []
    for info, name, ops in zip(rs["infos"], rs["coros"], rs["ops"]):
        r: dict = {"type": info["type"]}
        if info["type"] == "COROUTINE":
            r["name"] = name
        elif info["type"] != "GENERIC":
            r["target_id"] = info["linked_to_name"] if info["linked_to_name"] is not None else info["linked_to"]
        r["ops"] = []
        for o in ops:
            ps = [param_to_doc(p) for p in o["params"]]
            idx = jt.get(o["name"])
            if idx is not None and idx < len(ps) and isinstance(ps[idx], int):
                ps[idx] = pos.get(ps[idx], ps[idx])
            r["ops"].append({"opcode": o["name"], "params": ps})
        routines.append(r)
    return {"settings": copy.deepcopy(SETTINGS["settings"]), "routines": routines}


def strip_rs(r: dict) -> dict:
    return {"infos": r["infos"], "coros": r["coros"],
            "ops": [[{"off": o["off"], "name": o["name"], "params": o["params"]} for o in rt] for rt in r["ops"]]}


# ----------------------------------------------------------------------------------------------------------------------
# property oracle for one compiled program, on what the real commands did
# ----------------------------------------------------------------------------------------------------------------------
def parse_stdout(s: str) -> tuple[Any, str | None]:
    try:
        return json.loads(s), None
    except Exception as e:  # noqa
        return None, str(e)[:100]


def jump_oracle(doc: dict, ref: dict, jt: dict) -> list[tuple[str, str]]:
    """(iii) every jump parameter equals the 1-based position of its target op, everything else is as compiled"""
    bad: list[tuple[str, str]] = []
    pos = positions(ref)
    if len(doc["routines"]) != len(ref["ops"]):
        return [("ops_differ", f"{len(doc['routines'])} routines printed, {len(ref['ops'])} compiled")]
    for ri, (r, ops) in enumerate(zip(doc["routines"], ref["ops"])):
        if len(r["ops"]) != len(ops):
            bad.append(("ops_differ", f"routine {ri}: {len(r['ops'])} ops printed, {len(ops)} compiled"))
            continue
        for k, (po, co) in enumerate(zip(r["ops"], ops)):
            idx = jt.get(co["name"])
            exp = [param_to_doc(p) for p in co["params"]]
            got = list(po["params"])
            if po["opcode"] != co["name"] or len(got) != len(exp):
                bad.append(("ops_differ", f"routine {ri} op {k}: printed {po['opcode']}/{len(got)} params, compiled {co['name']}/{len(exp)}"))
                continue
            if idx is not None and idx < len(exp) and isinstance(exp[idx], int):
                internal = exp[idx]
                want = pos.get(internal)
                if got[idx] != want:
                    bad.append(("jump_param_is_not_position", f"routine {ri} op {k} ({co['name']}): printed jump parameter {got[idx]}, the target is op number {want} (internal offset {internal})"))
                exp[idx] = got[idx] = None
            if got != exp:
                bad.append(("params_differ", f"routine {ri} op {k} ({co['name']}): printed {json.dumps(po['params'])[:150]}, compiled {json.dumps(co['params'])[:150]}"))
    return bad


def info_oracle(doc: dict, ref: dict) -> list[tuple[str, str]]:
    bad = []
    for ri, (r, info, name) in enumerate(zip(doc["routines"], ref["infos"], ref["coros"])):
        if not isinstance(r, dict) or r.get("type") != info["type"]:
            bad.append(("routine_type_differs", f"routine {ri}: printed type {r.get('type') if isinstance(r, dict) else r!r}, compiled {info['type']}"))
            continue
        if info["type"] == "COROUTINE" and r.get("name") != name:
            bad.append(("coroutine_name_differs", f"routine {ri}: printed name {r.get('name')!r}, compiled {name!r}"))
        if info["type"] in ("ACTOR", "OBJECT", "PERFORMER"):
            want = info["linked_to_name"] if info["linked_to_name"] is not None else info["linked_to"]
            if r.get("target_id") != want:
                bad.append(("target_differs", f"routine {ri}: printed target_id {r.get('target_id')!r}, compiled {want!r}"))
    return bad


# ----------------------------------------------------------------------------------------------------------------------
# generated documented documents (v)
# ----------------------------------------------------------------------------------------------------------------------
NAMES = ["ACTOR_PLAYER", "OBJECT_D01P11B2_12", "PERF_1", "X", "ACTOR_NPC_TEST"]
CONST_POOL = ["LEVEL_XYZ", "DIRECTION_DOWN", "$SCENARIO_MAIN", "FACE_HAPPY", "PROCESS_SPECIAL_X"]
STR_POOL = ["Hello World", "", "a b,c.", "ünï", "Hallo Welt!", "x: y; [z]"]
FIXED_POOL = ["123.456", "0.5", "-1.25", "10.0", "-0.5", "7.250"]
LANG_POOL = ["english", "german", "french", "italian", "spanish"]


def gen_extra_param(rng: random.Random, int_coords: bool) -> Any:
    c = rng.random()
    if c < 0.2:
        return rng.choice([0, 1, -3, 255, 70000])
    if c < 0.35:
        return {"type": "FIXED_POINT", "value": rng.choice(FIXED_POOL)}
    if c < 0.5:
        return {"type": "CONSTANT", "value": rng.choice(CONST_POOL)}
    if c < 0.65:
        return {"type": "CONST_STRING", "value": rng.choice(STR_POOL)}
    if c < 0.8:
        return {"type": "LANG_STRING", "value": {l: rng.choice(STR_POOL) for l in rng.sample(LANG_POOL, rng.randint(1, 3))}}
    if int_coords:
        return {"type": "POSITION_MARK", "value": {"name": rng.choice(["m0", "Name of the mark", ""]), "x": rng.choice([10, 0, -2]), "y": rng.choice([20, 3])}}
    return {"type": "POSITION_MARK", "value": {"name": rng.choice(["m0", "Name of the mark", ""]),
                                                 "x": rng.choice(["10", "10.5", "0", "-3", "-2.5"]), "y": rng.choice(["20", "0.5", "7"])}}


def gen_doc(rng: random.Random, base_sets: list[dict], jt: dict) -> dict:
    """a documented document: a compiled routine set written as the documentation says (positional jumps), its routine
    types / targets re-drawn over all five documented types and extra arguments of all six documented types added to plain ops"""
    rs = copy.deepcopy(rng.choice(base_sets))
    doc = rs_to_doc(rs, jt)
    mode = rng.random()      # all coroutines | coroutines mixed with the other types in any order | no coroutine
    int_coords = rng.random() < 0.15
    for i, r in enumerate(doc["routines"]):
        if mode < 0.1:
            t = "COROUTINE"
        elif mode < 0.45:
            t = rng.choice(["COROUTINE", "COROUTINE", "GENERIC", "ACTOR", "OBJECT", "PERFORMER"])
        else:
            t = rng.choice(["GENERIC", "GENERIC", "ACTOR", "OBJECT", "PERFORMER"])
        for k in ("name", "target_id"):
            r.pop(k, None)
        r["type"] = t
        if t == "COROUTINE":
            r["name"] = f"CORO_{rng.choice(['A', 'B', 'NAME'])}_{i}"
        elif t != "GENERIC":
            r["target_id"] = rng.choice(NAMES) if rng.random() < 0.5 else rng.choice([0, 2, 12, 300])
        # key order is free in JSON
        if rng.random() < 0.3:
            items = list(r.items())
            rng.shuffle(items)
            doc["routines"][i] = dict(items)
        for o in doc["routines"][i]["ops"]:
            if o["opcode"] not in jt and o["opcode"][:1].islower() and "_" not in o["opcode"] and rng.random() < 0.5:
                for _ in range(rng.randint(1, 3)):
                    o["params"].append(gen_extra_param(rng, int_coords))
    if rng.random() < 0.2:
        doc["extra_member"] = "ignored"
    return doc


def rst_documents() -> list[dict]:
    """the examples of docs/cli_api_usage.rst as documents: fixed witnesses that run first"""
    out = []
    try:
        txt = open(os.path.join(core.REPO, "docs", "cli_api_usage.rst"), encoding="utf-8").read()
    except OSError:
        return out
    for m in re.finditer(r"\.\. code:: json\n\n((?:    .*\n|\n)+)", txt):
        body = "\n".join(l[4:] if l.startswith("    ") else l for l in m.group(1).split("\n"))
        try:
            d = json.loads(body)
        except Exception:
            continue
        if isinstance(d, dict) and "routines" in d and isinstance(d.get("settings"), dict):
            out.append(d)
    # the "General structure" example with its placeholders filled in (<<SETTINGS>>, <<OPERATION>>, <<ARG_INT or ARG_CONSTANT>>),
    # in every order of its three routines, and the examples of the section "Argument types" as arguments of one operation
    arg_examples = []
    for m in re.finditer(r"\.\. code:: json\n\n((?:    .*\n|\n)+)", txt):
        body = "\n".join(l[4:] if l.startswith("    ") else l for l in m.group(1).split("\n"))
        body = body.replace('"<<SETTINGS>>"', json.dumps(SETTINGS["settings"])).replace('"<<OPERATION>>"', '{"opcode": "op_a", "params": [1]}, {"opcode": "Return", "params": []}')
        if "<<ARG_INT or ARG_CONSTANT>>" in body:
            for tgt in ('7', '"ACTOR_TARGET"'):
                try:
                    d = json.loads(body.replace('"<<ARG_INT or ARG_CONSTANT>>"', tgt))
                except Exception:
                    continue
                if isinstance(d, dict) and isinstance(d.get("routines"), list):
                    rts = d["routines"]
                    import itertools
                    for perm in itertools.permutations(range(len(rts))) if len(rts) <= 3 else [tuple(range(len(rts)))]:
                        out.append(dict(d, routines=[copy.deepcopy(rts[i]) for i in perm]))
            continue
        try:
            d = json.loads(body)
        except Exception:
            continue
        if isinstance(d, dict) and set(d) == {"type", "value"}:
            arg_examples.append(d)
    if arg_examples:
        out.append({"settings": copy.deepcopy(SETTINGS["settings"]), "routines": [
            {"type": "GENERIC", "ops": [{"opcode": "op_b", "params": [5] + arg_examples}, {"opcode": "Return", "params": []}]}]})
    return out


def malform(rng: random.Random, doc: dict) -> dict:
    """documents read_routines/read_ops refuse on purpose, or on which a documented-looking value has the wrong JSON type"""
    d = copy.deepcopy(doc)
    rts = [r for r in d["routines"]]
    ops = [o for r in rts for o in r["ops"]]
    params = [(o, i) for o in ops for i, p in enumerate(o["params"]) if isinstance(p, dict)]
    c = rng.randrange(16)
    if c == 0 and rts:
        rng.choice(rts).pop("ops")
    elif c == 1 and rts:
        rng.choice(rts).pop("type")
    elif c == 2 and rts:
        rng.choice(rts)["type"] = rng.choice(["FOO", "generic", 3, None])
    elif c == 3 and rts:
        r = rng.choice(rts)
        r.pop("name", None); r.pop("target_id", None)
    elif c == 4 and ops:
        rng.choice(ops).pop("params")
    elif c == 5 and ops:
        rng.choice(ops).pop("opcode")
    elif c == 6 and params:
        o, i = rng.choice(params)
        o["params"][i].pop(rng.choice(["type", "value"]))
    elif c == 7 and params:
        o, i = rng.choice(params)
        o["params"][i]["type"] = rng.choice(["FIXED", "constant", 7, None])
    elif c == 8 and ops:
        rng.choice(ops)["params"].append(rng.choice(["str", None, 1.5, [1]]))
    elif c == 9 and ops:
        rng.choice(ops)["params"].append({"type": "FIXED_POINT", "value": rng.choice(["abc", "1.x", "", "-", "1.2.3", "--1", 5, None, "1e5"])})
    elif c == 10 and ops:
        rng.choice(ops)["params"].append({"type": "POSITION_MARK", "value": {"name": "m", "x": rng.choice(["1.2", "1.5.5", "", "abc", "1.", ".5", 3, None, "0x10", "0b11", "-0"]), "y": rng.choice(["2", "2.5"])}})
    elif c == 11 and ops:
        v = {"name": "m", "x": "1", "y": "2"}
        v.pop(rng.choice(["name", "x", "y"]))
        rng.choice(ops)["params"].append({"type": "POSITION_MARK", "value": rng.choice([v, "str", 5, None, [1]])})
    elif c == 12:
        d["settings"].pop(rng.choice(list(d["settings"])))
    elif c == 13:
        d["settings"]["dungeon_mode_constants"].pop(rng.choice(["open", "closed", "request", "open_request"]))
    elif c == 14:
        d.pop(rng.choice(["settings", "routines"]))
    elif c == 15 and rts:
        r = rng.choice(rts)
        if "target_id" in r:
            r["target_id"] = None
    return d


# ----------------------------------------------------------------------------------------------------------------------
def random_rs(rng: random.Random, base_sets: list[dict]) -> dict:
    """routine sets for the build correspondence: compiled sets with perturbed infos/coros/params (incl. list length mismatch)"""
    rs = copy.deepcopy(rng.choice(base_sets))
    c = rng.random()
    for info in rs["infos"]:
        if rng.random() < 0.3:
            info["linked_to"] = rng.choice([-1, 0, 5, -2])
            info["linked_to_name"] = rng.choice([None, "NAME", ""])
        if rng.random() < 0.05:
            info["type"] = "INVALID"
    if c < 0.1 and rs["coros"]:
        rs["coros"].pop()
    elif c < 0.2 and rs["ops"]:
        rs["ops"].append([])
    for r in rs["ops"]:
        for o in r:
            if rng.random() < 0.2:
                o["params"].append(rng.choice([{"pm": ["n", rng.choice([0, 1, 2, 3, -1]), rng.choice([0, 2, 4]), rng.randint(-5, 40), 7]},
                                               {"fx": rng.choice(["1.5", "007.250", "-0.0", "5."])}, {"ls": []}, {"s": "x\ny"}, -2**40]))
    return rs


def lookup_case(run: core.Run, jt: dict, stats: Counter) -> None:
    """--lookup: an imported macro file found through a lookup path given relative to the working directory"""
    import shutil
    import tempfile
    from .. import impl_es
    files = {"lk/m.exps": "macro foo($n) {\n    if ($n == 1) { x($n); }\n    y();\n}\n"}
    text = 'import "m.exps";\ndef 0 {\n    ~foo(1);\n    ~foo(2);\n    z();\n}\n'
    d = tempfile.mkdtemp(prefix="c15_lk_", dir="/tmp")
    try:
        os.makedirs(os.path.join(d, "lk"))
        for rel, txt in files.items():
            with open(os.path.join(d, rel), "w") as fh:
                fh.write(txt)
        ref = impl_es.compile_text({"text": text, "file": os.path.join(d, "main.exps"), "lookup": [os.path.join(d, "lk")]})
    finally:
        shutil.rmtree(d, ignore_errors=True)
    cc = impl_cli.cli_compile({"text": text, "files": files, "lookup": ["lk"]})
    nolk = impl_cli.cli_compile({"text": text, "files": files})
    rep = {"text": text, "files": files, "lookup": ["lk"], "rc": cc["rc"], "stderr": cc["stderr_last"], "stdout": cc["stdout"][:600]}
    stats["lookup_case"] += 1
    if "error" in ref:
        run.notes.append(f"lookup case does not compile in-process: {ref}")
        return
    if cc["rc"] != 0:
        run.violation("exit_nonzero_on_success", f"compile command with --lookup exits {cc['rc']} ({cc['stderr_last'][:120]}) although the compiler accepts the program", rep)
        return
    doc, perr = parse_stdout(cc["stdout"])
    if perr or not isinstance(doc, dict) or doc_errors(doc):
        run.violation("not_documented_structure", f"--lookup case: {perr or doc_errors(doc)[:2]}", rep)
        return
    for kind, what in info_oracle(doc, strip_rs(ref)) + jump_oracle(doc, strip_rs(ref), jt)[:2]:
        run.violation(kind, "--lookup case: " + what, rep)
    if nolk["rc"] == 0 or nolk["stdout"].strip():
        run.violation("exit0_on_failure", "compile command without the lookup path exits 0 / prints output although the import cannot be resolved", dict(rep, lookup=[]))


# ----------------------------------------------------------------------------------------------------------------------
# settings documents ("Structure of settings" of the documentation) through both commands
# ----------------------------------------------------------------------------------------------------------------------
SETTINGS_PROGRAM = ("def 0 { a(); dungeon_mode(3) = DMODE_OPEN; $PERFORMANCE_PROGRESS_LIST[2] = 1; "
                    "if ($PERFORMANCE_PROGRESS_LIST[1]) { b(); } return; }\ndef 1 for actor(ACTOR_X) { c(); hold; }")
SETTINGS_ROUTINES = [{"type": "GENERIC", "ops": [{"opcode": "a", "params": []}, {"opcode": "flag_SetDungeonMode", "params": [3, 1]},
                                                  {"opcode": "flag_SetPerformance", "params": [2, 1]}, {"opcode": "Return", "params": []}]}]
DM_KEYS = ("open", "closed", "request", "open_request")
EXC_RE = re.compile(r"^(Traceback|[A-Za-z_][\w.]*(Error|Exception)\b)")


def settings_stream(rng: random.Random, quick: bool) -> list[dict]:
    """[{"name", "settings_text", "expect": ok|reject|either, "part": name of the missing part, "value": parsed value or None}]
    ok      the block is what the documentation asks for (additional members anywhere are allowed)
    reject  exactly a documented member is missing at some level
    either  a member has the wrong JSON type: the documentation does not say; only consistency is required"""
    full = copy.deepcopy(SETTINGS["settings"])
    dm = full["dungeon_mode_constants"]
    out: list[dict] = []

    def add(name: str, value: Any, expect: str, part: str | None = None, text: str | None = None) -> None:
        out.append({"name": name, "settings_text": json.dumps(value) if text is None else text, "expect": expect, "part": part,
                    "value": value if text is None else None})
    add("complete", {"settings": full}, "ok")
    add("complete_other_names", {"settings": {"performance_progress_list_var_name": "$PPL", "dungeon_mode_constants":
                                              {"open_request": "OR", "request": "R", "closed": "C", "open": "O"}}}, "ok")
    add("complete_extra_members", {"more": [1, {"x": None}], "settings": dict(full, extra=1.5, dungeon_mode_constants=dict(dm, extra="x"))}, "ok")
    add("missing_settings", {}, "reject", "settings")
    add("missing_settings_other_member", {"Settings": full, "routines": []}, "reject", "settings")
    add("missing_performance_progress_list_var_name", {"settings": {k: v for k, v in full.items() if k != "performance_progress_list_var_name"}},
        "reject", "performance_progress_list_var_name")
    add("missing_dungeon_mode_constants", {"settings": {k: v for k, v in full.items() if k != "dungeon_mode_constants"}}, "reject", "dungeon_mode_constants")
    add("empty_settings", {"settings": {}}, "reject", "performance_progress_list_var_name")
    add("empty_dungeon_mode_constants", {"settings": dict(full, dungeon_mode_constants={})}, "reject", "dungeon_mode_constants")
    for k in DM_KEYS:
        add("missing_dmc_" + k, {"settings": dict(full, dungeon_mode_constants={x: v for x, v in dm.items() if x != k})}, "reject", "dungeon_mode_constants")
        add("only_dmc_" + k, {"settings": dict(full, dungeon_mode_constants={k: dm[k]})}, "reject", "dungeon_mode_constants")
        add("missing_dmc_" + k + "_with_extra", {"settings": dict(full, dungeon_mode_constants=dict({x: v for x, v in dm.items() if x != k}, **{k.upper(): "x"}))},
            "reject", "dungeon_mode_constants")
    for a_, b_ in ([("open", "closed"), ("request", "open_request")] if quick else [(a_, b_) for a_ in DM_KEYS for b_ in DM_KEYS if a_ < b_]):
        add(f"missing_dmc_{a_}_{b_}", {"settings": dict(full, dungeon_mode_constants={x: v for x, v in dm.items() if x not in (a_, b_)})}, "reject", "dungeon_mode_constants")
    # wrong JSON types
    for v in (5, None, [], "performance_progress_list_var_name dungeon_mode_constants", ["performance_progress_list_var_name", "dungeon_mode_constants"]):
        add("settings_is_" + type(v).__name__, {"settings": v}, "either")
    for v in (None, 5, "x", [], "open closed request open_request", list(DM_KEYS)):
        add("dmc_is_" + type(v).__name__ + ("_with_all_names" if v in ("open closed request open_request", list(DM_KEYS)) else ""),
            {"settings": dict(full, dungeon_mode_constants=v)}, "either")
    add("top_level_list", ["settings"], "either")
    add("top_level_number", 7, "either")
    add("perf_is_int", {"settings": dict(full, performance_progress_list_var_name=5)}, "either")
    add("perf_is_null", {"settings": dict(full, performance_progress_list_var_name=None)}, "either")
    add("dmc_value_is_int", {"settings": dict(full, dungeon_mode_constants=dict(dm, open=5))}, "either")
    add("dmc_value_is_null", {"settings": dict(full, dungeon_mode_constants=dict(dm, open_request=None))}, "either")
    add("not_json", None, "either", text="{\"settings\": ")
    add("empty_file", None, "either", text="")
    return out


def diagnostic_ok(stderr_last: str, part: str | None) -> bool:
    """the last line on stderr is a message about the missing part, not the last line of a Python traceback"""
    if not stderr_last.strip() or EXC_RE.match(stderr_last.strip()):
        return False
    return part is None or (part if part != "settings" else "ettings") in stderr_last


def settings_oracle(run: core.Run, case: dict, rt: dict, dd: dict | None, stats: Counter) -> None:
    """rt: compile command (+ decompile command on its output) with this settings file; dd: decompile command on a document
    whose settings member is this value"""
    rep = {"settings_text": case["settings_text"], "text": SETTINGS_PROGRAM, "case": case["name"]}
    cc = rt["compile"]
    if cc.get("rc") is None:
        run.notes.append(f"settings case {case['name']}: no answer")
        return
    rep.update(compile_rc=cc["rc"], compile_stderr=cc["stderr_last"], compile_stdout=cc["stdout"][:400])
    exp = case["expect"]
    stats["settings:" + exp] += 1
    v = case["value"]
    dmc = v["settings"].get("dungeon_mode_constants") if isinstance(v, dict) and isinstance(v.get("settings"), dict) else None
    odd_dmc = exp == "either" and dmc is not None and not isinstance(dmc, dict)
    if cc["rc"] == 0:
        stats["settings_accepted"] += 1
        if exp == "reject":
            run.violation("exit0_with_incomplete_settings", f"compile command exits 0 although '{case['part']}' is incomplete in the settings file ({case['name']})", rep)
        doc, perr = parse_stdout(cc["stdout"])
        if perr is not None or not isinstance(doc, dict):
            run.violation("stdout_not_json", f"settings case {case['name']}: compile command exits 0 but stdout is not one JSON document", rep)
        else:
            if exp == "ok" and doc.get("settings") != v["settings"]:
                run.violation("settings_not_echoed", f"settings case {case['name']}: the settings member of the output differs from the settings block given", rep)
            if exp == "ok" and doc_errors(doc):
                run.violation("not_documented_structure", f"settings case {case['name']}: " + "; ".join(doc_errors(doc)[:2]), rep)
        d = rt.get("decompile")
        if d is not None and d.get("rc") is not None and d["rc"] != 0:
            kind = "settings_dungeon_mode_constants_not_an_object_accepted" if odd_dmc else "decompile_rejects_compile_output"
            run.violation(kind, f"settings case {case['name']}: the compile command exits 0 and the decompile command refuses its output: {d['stderr_last'][:120]}",
                          dict(rep, decompile_rc=d["rc"], decompile_stderr=d["stderr_last"]))
    else:
        stats["settings_rejected"] += 1
        if cc["stdout"].strip():
            run.violation("json_printed_on_failure", f"settings case {case['name']}: compile command prints output and exits non-zero", rep)
        if exp == "ok":
            run.violation("exit_nonzero_on_success", f"compile command exits {cc['rc']} ({cc['stderr_last'][:100]}) with a complete settings file ({case['name']})", rep)
        elif exp == "reject" and not diagnostic_ok(cc["stderr_last"], case["part"]):
            run.violation("settings_rejected_without_diagnostic", f"compile command refuses the settings file ({case['name']}) without naming '{case['part']}': {cc['stderr_last'][:120]!r}", rep)
        elif exp == "either" and EXC_RE.match(cc["stderr_last"].strip() or "x") and "JSONDecodeError" not in cc["stderr_last"]:
            stats["settings_wrong_type_traceback"] += 1
    if dd is None or dd.get("rc") is None:
        return
    rep2 = {"document": json.dumps(dict(v, routines=SETTINGS_ROUTINES)) if isinstance(v, dict) else None, "case": case["name"],
            "decompile_rc": dd["rc"], "decompile_stderr": dd["stderr_last"]}
    if dd["rc"] == 0:
        if exp == "reject":
            run.violation("exit0_with_incomplete_settings", f"decompile command exits 0 although '{case['part']}' is incomplete in the document ({case['name']})", rep2)
    else:
        if dd["stdout"].strip():
            run.violation("text_printed_on_failure", f"settings case {case['name']}: decompile command prints output and exits non-zero", rep2)
        if exp == "ok":
            run.violation("decompile_rejects_documented_input", f"decompile command exits {dd['rc']} ({dd['stderr_last'][:100]}) on a document with complete settings ({case['name']})", rep2)
        elif exp == "reject" and not diagnostic_ok(dd["stderr_last"], case["part"]):
            run.violation("settings_rejected_without_diagnostic", f"decompile command refuses the document ({case['name']}) without naming '{case['part']}': {dd['stderr_last'][:120]!r}", rep2)



def pmap(pool: core.Pool, fn: str, args: list, chunk: int, timeout: float, default: dict) -> list:
    """pool.map over chunks; a chunk without an answer yields `default` for each of its elements"""
    chunks = [args[i:i + chunk] for i in range(0, len(args), chunk)]
    outs = pool.map(fn, chunks, timeout=timeout) if chunks else []
    res: list = []
    for ch, o in zip(chunks, outs):
        if isinstance(o, list) and len(o) == len(ch):
            res += o
            continue
        # the chunk as a whole gave no answer (worker died / timed out): ask element by element
        singles = pool.map(fn.replace("_many", ""), ch, timeout=timeout)
        for x in singles:
            ok = isinstance(x, dict) and not ("__timeout__" in x or "__died__" in x or "__exc__" in x or "__garbled__" in x)
            res.append(x if ok else dict(default, detail=json.dumps(x)[:300], chunk_detail=json.dumps(o)[:300]))
    return res


def run(run: core.Run) -> int:
    from .. import impl_es, astdump  # noqa
    quick = run.tier == "quick"
    n_sub = 60 if quick else 2000            # programs through both real commands
    n_inproc = 500 if quick else 6000        # additional programs / documents in-process only
    n_docs_sub = 40 if quick else 600        # generated documents through the real decompile command
    prep = core.lean_prepare(MODULES)
    aud = core.audit(THEOREMS, MODULES) if prep["proofs_ok"] else {"obligations": len(THEOREMS), "discharged": 0, "ok": False, "theorems": {}}
    jobs = core.jobs_for(run.tier)
    jt = jump_table()
    stats: Counter = Counter()
    rng = run.rng

    # ---- cases --------------------------------------------------------------------------------------------------------
    cases: list[dict] = [{"text": t, "name": n} for n, t in CORPUS]
    progs = escommon.gen_programs(rng, n_sub + n_inproc, cfgs_for(run.tier))
    for i, p in enumerate(progs):
        c = {"text": p["text"], "ast": p["ast"]}
        if i < n_sub and rng.random() < 0.15:
            c = {"text": corrupt(rng, p["text"]), "corrupted": True}
        elif rng.random() < 0.25:
            mixed = mix_coroutines(rng, p["ast"])
            if mixed is not None:
                c = {"text": surface.print_program(mixed)[0], "ast": mixed, "mixed": True}
                stats["programs_mixing_coroutines"] += 1
        cases.append(c)
    # SsbScript sources (first line `//?: is-ssb-script: true`): the real SsbScript decompiler's text for (a) compiled routine
    # sets of the first programs (loops at the start of routine 0 jump to the very first op, offset 0 of the SsbScript compiler),
    # (b) random routine sets of the C07 generator (jumps anywhere incl. the first op and other routines, coroutines, empty routines)
    n_ssbs = 16 if quick else 300
    pre_pool = core.Pool(jobs)
    try:
        pre = escommon.compile_all(pre_pool, [c["text"] for c in cases[len(CORPUS):len(CORPUS) + n_ssbs] if not c.get("corrupted")])
        src_sets = [strip_rs(r) for r in pre if "error" not in r and all(i is not None for i in r["infos"]) and any(r["ops"])]
        first = [x for x in src_sets if x["ops"][0] and jumps_to(x, x["ops"][0][0]["off"], jt)]
        from ..gen import ssb as gen_ssb
        src_sets = first + src_sets[:n_ssbs // 2] + [gen_ssb.gen_set(rng) for _ in range(n_ssbs // 2)]
        stexts = pmap(pre_pool, "harness.impl_es:decompile_many", [{"rs": x, "ssbs": True} for x in src_sets], 10, 300, {"error": "NoAnswer"})
    finally:
        pre_pool.close()
    ssbs_cases = [{"text": SSBS_MARKER + t["text"], "ssbs": True} for t in stexts if "text" in t]
    stats["ssbs_sources"] = len(ssbs_cases)
    cases[len(CORPUS):len(CORPUS)] = ssbs_cases
    n_cli = len(CORPUS) + len(ssbs_cases) + n_sub
    lookup_case(run, jt, stats)
    pool = core.Pool(jobs)
    try:
        refs = escommon.compile_all(pool, [c["text"] for c in cases])
        subs = pmap(pool, "harness.impl_cli:cli_roundtrip_many", [{"text": c["text"], "source_map": k % 3 == 0} for k, c in enumerate(cases[:n_cli])],
                    4, 600, {"infra": True})

        # ---- (i)-(iii) on the compile command -----------------------------------------------------------------------
        docs_printed: dict[int, Any] = {}
        for k in range(n_cli):
            c, ref, s = cases[k], refs[k], subs[k]
            if "infra" in s or s["compile"].get("timeout"):
                run.notes.append(f"subprocess gave no answer for case {k}: {s}")
                stats["sub_no_answer"] += 1
                continue
            cc = s["compile"]
            rep = {"text": c["text"], "rc": cc["rc"], "stderr": cc["stderr_last"], "stdout": cc["stdout"][:600]}
            ok_ref = "error" not in ref
            stats["compile_ok" if ok_ref else "compile_error:" + ref["error"]] += 1
            if not ok_ref:
                if cc["rc"] == 0:
                    run.violation("exit0_on_failure", f"compile command exits 0 although the compiler raises {ref['error']}: {ref.get('msg', '')[:100]}", rep)
                if cc["stdout"].strip():
                    run.violation("json_printed_on_failure", f"compile command prints output although the compiler raises {ref['error']}", rep)
                continue
            if cc["rc"] != 0:
                run.violation("exit_nonzero_on_success", f"compile command exits {cc['rc']} ({cc['stderr_last'][:120]}) although the compiler accepts the program", rep)
                if cc["stdout"].strip():
                    run.violation("json_printed_on_failure", "compile command prints output and exits non-zero", rep)
                continue
            doc, perr = parse_stdout(cc["stdout"])
            if perr is not None or not isinstance(doc, dict):
                run.violation("stdout_not_json", f"compile command exits 0 but stdout is not one JSON document: {perr}", rep)
                continue
            docs_printed[k] = doc
            if doc.get("settings") != SETTINGS["settings"]:
                run.violation("settings_not_echoed", "the settings member of the output differs from the settings given", rep)
            if "source_map" in cc or k % 3 == 0:
                try:
                    sm_file = json.loads(cc.get("source_map", "null"))
                    if sm_file != ref["source_map"] and sm_file == impl_es.compile_text({"text": c["text"]}).get("source_map"):
                        # the reference computed in a long-lived worker differs from a fresh compile of the same text, which
                        # agrees with the command (seen once under heavy machine load, not reproducible): history dependence of
                        # the in-process compile is C11's business, not the command's
                        stats["stale_worker_reference_source_map"] += 1
                        diff = [k2 for k2 in (ref["source_map"] or {}) if (sm_file or {}).get(k2) != ref["source_map"][k2]]
                        run.notes.append(f"source map of the worker's compile differs from a fresh compile (tables {diff}) for: {c['text'][:200]!r}; worker: {json.dumps(ref['source_map'])[:400]}; fresh/command: {json.dumps(sm_file)[:400]}")
                    elif sm_file != ref["source_map"]:
                        run.violation("source_map_file_differs", "--source-map file differs from the compiler's source map",
                                      dict(rep, source_map_file=cc.get("source_map", "<missing>")[:3000], source_map_compiler=json.dumps(ref["source_map"])[:3000]))
                    stats["source_map_files_checked"] += 1
                except Exception:
                    run.violation("source_map_file_differs", "--source-map file missing or unparsable", rep)
            errs = doc_errors(doc)
            ref_rs = strip_rs(ref)
            ibad = info_oracle(doc, ref_rs) if not errs or isinstance(doc.get("routines"), list) else []
            for kind, what in ibad:
                run.violation(kind, what, rep)
            if errs:
                stats["docshape_fail"] += 1
                run.violation("not_documented_structure", "; ".join(errs[:3]), rep)
                c["doc_errors"] = errs
            jbad = jump_oracle(doc, ref_rs, jt) if isinstance(doc.get("routines"), list) and not errs else []
            for kind, what in jbad[:2]:
                run.violation(kind, what, rep)
            stats["positional" if not jbad else "not_positional"] += 1
            if c.get("ssbs") or c.get("name", "").startswith("ssbs"):
                stats["ssbs_compiled"] += 1
                stats["ssbs_jumps_to_offset_0"] += jumps_to(ref_rs, 0, jt)
            c["jbad"] = jbad
        noans = {"rc": None, "stdout": "", "stderr_last": "no answer"}

        # in-process decompile of the positional form (to tell a decompiler defect from a CLI defect)
        canon_sets = {k: doc_to_rs(rs_to_doc(strip_rs(refs[k]), jt)) for k in docs_printed}
        for k, cs in canon_sets.items():       # keep what JSON does not carry
            cs["infos"] = [dict(i) for i in refs[k]["infos"]]
        keys = sorted(canon_sets)
        inproc_flat = pmap(pool, "harness.impl_cli:decompile_inproc_many", [{"rs": canon_sets[k]} for k in keys], 10, 300, {"err": "NoAnswer"})
        inproc_text = dict(zip(keys, inproc_flat))

        # ---- (v) generated documented documents -----------------------------------------------------------------------
        base_sets = [strip_rs(r) for r in refs if "error" not in r and all(i is not None for i in r["infos"]) and any(r["ops"])]
        docs: list[dict] = [{"doc": d, "tag": "rst"} for d in rst_documents()]
        if base_sets:
            docs += [{"doc": gen_doc(rng, base_sets, jt), "tag": "gen"} for _ in range(n_docs_sub + n_inproc)]
        n_docs_cli = min(len(docs), len(rst_documents()) + n_docs_sub)
        dsub_flat = pmap(pool, "harness.impl_cli:cli_decompile_many", [{"doc_text": json.dumps(d["doc"]), "source_map": rng.random() < 0.2} for d in docs[:n_docs_cli]],
                         4, 600, noans)
        # settings documents through both commands
        sstream = settings_stream(rng, quick)
        srt = pmap(pool, "harness.impl_cli:cli_roundtrip_many", [{"text": SETTINGS_PROGRAM, "settings_text": c["settings_text"]} for c in sstream],
                   3, 600, {"compile": {"rc": None, "stdout": "", "stderr_last": "no answer"}})
        sdirect_idx = [i for i, c in enumerate(sstream) if isinstance(c["value"], dict)]
        sdd = pmap(pool, "harness.impl_cli:cli_decompile_many", [{"doc_text": json.dumps(dict(sstream[i]["value"], routines=SETTINGS_ROUTINES))} for i in sdirect_idx],
                   3, 600, noans)
        sdd_by = dict(zip(sdirect_idx, sdd))
        for i, c in enumerate(sstream):
            settings_oracle(run, c, srt[i], sdd_by.get(i), stats)
        mal = [{"doc": malform(rng, d["doc"]), "tag": "malformed"} for d in docs for _ in range(1)] if docs else []
        mal += [{"doc": dict(sstream[i]["value"], routines=SETTINGS_ROUTINES), "tag": "gen" if sstream[i]["expect"] == "ok" else "malformed"} for i in sdirect_idx]
        mal += [{"doc": x, "tag": "malformed"} for x in ({}, {"settings": {}}, dict(SETTINGS), dict(SETTINGS, routines=[]))]
        n_mal_cli = min(len(mal), 12 if quick else 150)
        msub_flat = pmap(pool, "harness.impl_cli:cli_decompile_many", [{"doc_text": json.dumps(d["doc"])} for d in mal[:n_mal_cli]], 4, 600, noans)
        doc_inproc = pmap(pool, "harness.impl_cli:decompile_inproc_many", [{"rs": doc_to_rs(d["doc"])} for d in docs[:n_docs_cli]], 10, 300, {"err": "NoAnswer"})
        all_docs = docs + mal
        reads_flat = pmap(pool, "harness.impl_cli:read_many", [{"doc": d["doc"]} for d in all_docs], 50, 300, {"err": "NoAnswer"})
        # in-process build of compiled + perturbed sets
        build_sets = [strip_rs(r) for r in refs if "error" not in r and all(i is not None for i in r["infos"])]
        build_sets += [random_rs(rng, base_sets) for _ in range(n_inproc // 2)] if base_sets else []
        bargs = [{"rs": b, "settings": SETTINGS["settings"]} for b in build_sets]
        builds_flat = pmap(pool, "harness.impl_cli:build_many", bargs, 50, 300, {"err": "NoAnswer"})
    finally:
        pool.close()

    # ---- Lean driver: validation of the round trips + correspondence ---------------------------------------------------
    lean_ok = prep["driver_ok"]
    mism = 0
    rt_stats: Counter = Counter()
    if lean_ok:
        drv = core.Driver()
        # (iv) behavioural validation of what the decompile command printed
        vreq: list[dict] = []
        vmeta: list[tuple[str, int, str, dict]] = []

        def judge_decompile(tag: str, k: int, d: dict, fed: dict, ref_rs: dict, ip: dict, rep: dict) -> None:
            """d: result of the decompile command on document `fed`; ref_rs: the ops the text must behave like;
            ip: result of the decompiler called through the Python API on the routine set the document describes"""
            if d.get("rc") is None or ip.get("err") == "NoAnswer":
                run.notes.append(f"decompile command / API gave no answer ({tag} {k}): {d.get('stderr_last')} {ip.get('err')}")
                return
            rep = dict(rep, api=({"err": ip["err"], "msg": ip.get("msg")} if "err" in ip else "text"))
            if d["rc"] != 0:
                rt_stats[tag + ":rejected"] += 1
                if d["stdout"].strip():
                    run.violation("text_printed_on_failure", "decompile command prints output and exits non-zero", rep)
                cls = d["stderr_last"].split(":")[0].split(".")[-1]
                if ip.get("err") == cls:
                    # the decompiler itself refuses this routine set (C06's business); the command adds nothing
                    run.violation("decompiler_raises_same_error_through_api", f"decompile command exits {d['rc']}: {d['stderr_last'][:150]}", rep)
                else:
                    run.violation("decompile_command_fails_api_does_not", f"decompile command exits {d['rc']} ({d['stderr_last'][:150]}); the API gives {str(rep['api'])[:100]}", rep)
                return
            if "err" in ip or ip["text"].strip() != d["stdout"].strip():
                run.violation("cli_decompile_differs_from_api", "decompile command prints a text although the API raises " + ip["err"] if "err" in ip
                              else "decompile command prints another text than the decompiler called through the API on the same routine set", dict(rep, api_text=ip.get("text", "")[:1500], cli_text=d["stdout"][:1500]))
                return
            if decomp_common.is_fallback(d["stdout"]):
                # the decompiler answered with its SsbScript fall-back (marked text, C06/C07's business): same text as through the API
                rt_stats[tag + ":ssbscript-fallback"] += 1
                return
            try:
                with contextlib.redirect_stderr(io.StringIO()):
                    ast = astdump.strip_hints(astdump.dump_text(d["stdout"]))
                prog = surface.lower_program(ast)
            except Exception as e:  # noqa
                rt_stats[tag + ":unparsable"] += 1
                run.violation("decompiler_text_unparsable_same_text_through_api", f"the text printed by the decompile command does not parse: {type(e).__name__} {str(e)[:100]}", dict(rep, decompiled=d["stdout"][:1500]))
                return
            tm = table_mismatch(ast, dict(ref_rs, infos=[dict(i, linked_to=(0 if i["type"] in ("GENERIC", "COROUTINE") else i["linked_to"])) for i in ref_rs["infos"]]))
            if tm:
                run.violation("roundtrip_routine_table", tm, rep)
            vreq.append(escommon.validate_requests([(prog, ref_rs["ops"])])[0])
            vmeta.append((tag, k, d["stdout"], rep))

        for k, doc in docs_printed.items():
            s = subs[k]
            if "decompile" not in s:
                continue
            ref_rs = strip_rs(refs[k])
            rep = {"text": cases[k]["text"], "printed": json.dumps(doc)[:1500], "decompile_rc": s["decompile"]["rc"], "decompile_stderr": s["decompile"]["stderr_last"]}
            if cases[k].get("jbad") or cases[k].get("doc_errors"):
                continue        # reported above with the failing source
            judge_decompile("printed", k, s["decompile"], doc, ref_rs, inproc_text[k], rep)
        for i in range(n_docs_cli):
            d = docs[i]["doc"]
            judge_decompile("doc", i, dsub_flat[i], d, doc_to_rs(d), doc_inproc[i], {"document": json.dumps(d)[:2500], "origin": docs[i]["tag"],
                            "decompile_rc": dsub_flat[i]["rc"], "decompile_stderr": dsub_flat[i]["stderr_last"]})
        vrep = drv.batch_parallel(vreq, jobs) if vreq else []
        for (tag, k, text, rep), vr in zip(vmeta, vrep):
            bad = [v for v in escommon.routine_verdicts(vr) if v["verdict"] in BAD]
            for v in escommon.routine_verdicts(vr):
                rt_stats[tag + ":" + v["verdict"]] += 1
            if bad:
                v = bad[0]
                # the text is the one the decompiler gives through the API on the same routine set (checked above):
                # a behavioural difference is the decompiler's (C02's business), the command adds nothing
                run.violation("decompiler_output_differs_same_text_through_api",
                              f"{tag}: routine {v['r']} of the decompiled text behaves differently ({v['verdict']} {v.get('why', '')} after test outcomes {v.get('path')})",
                              dict(rep, decompiled=text[:1500], verdict=v))

        # exit status of the decompile command on malformed documents = outcome of the real functions
        for i in range(n_mal_cli):
            d, r = msub_flat[i], reads_flat[len(docs) + i]
            if d.get("rc") is None or r.get("err") == "NoAnswer":
                continue
            stats["malformed_cli"] += 1
            if "err" in r and (d["rc"] == 0 or d["stdout"].strip()):
                run.violation("exit0_on_failure", f"decompile command exits {d['rc']} with output although read_routines raises {r['err']}", {"document": json.dumps(mal[i]["doc"])[:1500]})
            if "err" in r and d["rc"] != 0 and r["err"] != "SystemExit" and r["err"] not in d["stderr_last"]:
                run.broken_tie("decompile command fails differently from read_routines called in-process", {"document": mal[i]["doc"], "cli": d, "inproc": r})

        # ---- (vi) correspondence model <-> real code -------------------------------------------------------------------
        sw = impl_cli.to_wire(SETTINGS["settings"])
        reqs = [{"op": "cli.build", "settings": sw, "set": b} for b in build_sets]
        reqs += [{"op": "cli.info", "set": b} for b in build_sets]
        wire_docs = []
        for d in all_docs:
            try:
                wire_docs.append(impl_cli.to_wire(d["doc"]))
            except impl_cli.Unrepresentable:
                wire_docs.append(None)
        reqs += [{"op": "cli.read", "json": w} if w is not None else {"op": "dec.show", "i": 0} for w in wire_docs]
        reqs += [{"op": "cli.docshape", "json": w} if w is not None else {"op": "dec.show", "i": 0} for w in wire_docs]
        printed_keys = sorted(docs_printed)
        reqs += [{"op": "cli.docshape", "json": impl_cli.to_wire(docs_printed[k])} for k in printed_keys]
        reps = drv.batch_parallel(reqs, jobs)
        nb, nd = len(build_sets), len(all_docs)
        for i, b in enumerate(build_sets):
            real, model = builds_flat[i], reps[i]
            info = reps[nb + i]
            if real.get("err") == "NoAnswer":
                run.notes.append(f"build_routines_json gave no answer in the worker: {real.get('detail')}")
                continue
            for what, a, m in (("build_routines_json", real, model),):
                a2 = {k: v for k, v in a.items() if k != "msg"}
                if a2 != m:
                    mism += 1
                    if mism <= 3:
                        run.broken_tie(f"correspondence C15: model and implementation disagree on {what}", {"channel": "cli.build", "set": b, "impl": a2, "model": m})
            stats["build_err" if "err" in real else "build_ok"] += 1
            stats["sets_closed"] += bool(info.get("closed"))
        for i, d in enumerate(all_docs):
            if wire_docs[i] is None:
                stats["doc_unrepresentable"] += 1
                continue
            real, model = reads_flat[i], reps[2 * nb + i]
            if real.get("err") == "NoAnswer":
                run.notes.append(f"read_routines gave no answer in the worker: {real.get('detail')} / {real.get('chunk_detail')}")
                stats["read_no_answer"] += 1
                continue
            if model.get("err") == "Outside":
                stats["read_outside_model"] += 1
                continue
            a2 = {k: v for k, v in real.items() if k != "msg"}
            stats["read_err:" + real["err"] if "err" in real else "read_ok"] += 1
            if a2 != model:
                mism += 1
                if mism <= 3:
                    run.broken_tie("correspondence C15: model and implementation disagree on read_routines", {"channel": "cli.read", "document": d["doc"], "impl": a2, "model": model})
            shape, shape_str = reps[2 * nb + nd + i].get("ok"), reps[2 * nb + nd + i].get("str")
            hand, hand_str = not doc_errors(d["doc"]), not doc_errors(d["doc"], ints=False)
            if shape != hand or shape_str != hand_str:
                mism += 1
                run.broken_tie("the Lean DocShape and the hand-written validator of the documented structure disagree", {"document": d["doc"], "lean": [shape, shape_str], "hand": [hand, hand_str], "errors": doc_errors(d["doc"])})
            stats["docs_documented"] += bool(hand)
            stats["docs_documented_string_coordinates"] += bool(hand_str)
            if shape and "err" in model:
                # instance of theorem cli_accepts_documented on this document
                run.broken_tie("the model refuses a document with the documented structure (contradicts ESV.C15.cli_accepts_documented)", {"document": d["doc"], "model": model})
            if d["tag"] != "malformed" and not hand:
                run.broken_tie("generator produced a document outside the documented structure", {"document": d["doc"], "errors": doc_errors(d["doc"])})
            # documented documents must be accepted by read_routines (the part of the command before the decompiler)
            if hand and "err" in real:
                run.violation("read_routines_refuses_documented_input",
                              f"read_routines raises {real['err']}: {real.get('msg', '')[:100]} on a documented document", {"document": json.dumps(d["doc"])[:2500]})
        if stats["read_no_answer"] > max(3, len(all_docs) // 100):
            run.broken_tie(f"correspondence C15: read_routines gave no answer for {stats['read_no_answer']} of {len(all_docs)} documents (adapter broken?)",
                           {"channel": "cli.read", "notes": run.notes[:3]})
        for j, k in enumerate(printed_keys):
            shape = reps[2 * nb + 2 * nd + j].get("ok")
            hand = not doc_errors(docs_printed[k])
            if shape != hand:
                mism += 1
                run.broken_tie("the Lean DocShape and the hand-written validator disagree on a printed document", {"document": docs_printed[k], "lean": shape, "hand": hand})
        # what the real command printed = what the real function returns = what the model computes
        bidx = {json.dumps(b, sort_keys=True): i for i, b in enumerate(build_sets)}
        for k in printed_keys:
            i = bidx.get(json.dumps(strip_rs(refs[k]), sort_keys=True))
            if i is None:
                continue
            stats["printed_vs_function"] += 1
            if reps[i].get("json") != impl_cli.to_wire(docs_printed[k]):
                mism += 1
                if mism <= 3:
                    run.broken_tie("the compile command prints something else than build_routines_json / the model computes", {"text": cases[k]["text"], "printed": docs_printed[k], "model": reps[i]})
    if not prep["proofs_ok"] or not aud["ok"] or not lean_ok:
        run.broken_tie("Lean obligations of C15 do not check (build/audit)", {"theorems": THEOREMS, "log": prep["log"][-3000:], "audit": {k: v for k, v in aud.items() if k != "theorems"}})

    ok_texts = [cases[k]["text"] for k in docs_printed]
    cov = core.proof_coverage(run, prep, aud, MODULES, THEOREMS, {
        "evaluations": n_cli + len(all_docs) + len(build_sets),
        "distinct_nontrivial": core.distinct(ok_texts) + core.distinct(d["doc"] for d in docs),
        "rule": "grammar-directed random programs (all statement forms, labels incl. cross-routine jumps, loops, switches, coroutines, actor/object/performer "
                "routines; 15% corrupted into unparsable / statically invalid sources) + fixed corpus, each through real subprocesses of both commands; "
                "documented JSON documents = compiled routine sets written as the documentation says with routine types/targets re-drawn over all five types and "
                "extra arguments of all six documented argument types (incl. integer position coordinates), the documentation's own example, and malformed variants; "
                "non-trivial = program accepted by the compiler / document within the documented structure",
        "samples": ok_texts[len(CORPUS):len(CORPUS) + 2] + [json.dumps(docs[-1]["doc"])[:600]] if docs else ok_texts[:2],
        "programs_through_subprocesses": n_cli, "documents_through_decompile_command": n_docs_cli + n_mal_cli,
        "programs_in_process": len(cases), "documents_in_process": len(all_docs), "routine_sets_built_in_process": len(build_sets),
        "generator_stats": dict(stats), "round_trip_verdicts": dict(rt_stats), "correspondence_mismatches": mism,
        "level_note": "proof for the JSON <-> ops mapping (model tied by exact comparison); the behavioural end-to-end part is translation validation "
                      "(beh.validate, kernel-checked checker) per program",
    })
    return run.finish("proof", cov, [
        "json.loads(json.dumps(v)) == v on ints/strings/None/lists/str-keyed dicts (stdlib); JSON true/false and duplicate keys are outside the model",
        "exps_int = int(s, 0) is modelled on the INTEGER spellings only (Lit.expsInt); blanks, '+', '_' in a coordinate string are outside the model",
        "documents on which the Python code depends on duck typing (opcode/constant/name that is not a string, lists where objects are expected) are outside the model (answer Outside, never compared)",
        "the decompiler behind read_routines is not modelled: its output is validated per run (translation validation), no forall statement about it",
        "the documented structure is this project's reading of docs/cli_api_usage.rst: additional members allowed, target_id integer or string, FIXED_POINT a decimal string, position coordinates integer or whole/half-tile string",
    ])


def replay(run: core.Run, path: str) -> int:
    """re-run both commands on the recorded source / document and report what the oracle says"""
    data = json.load(open(path))
    rp = data["replay"]
    jt = jump_table()
    bad: list[tuple[str, str]] = []
    if "settings_text" in rp:
        for c in settings_stream(random.Random(0), False):
            if c["settings_text"] == rp["settings_text"]:
                break
        else:
            c = {"name": rp.get("case", "replay"), "settings_text": rp["settings_text"], "expect": "either", "part": None, "value": None}
        st: Counter = Counter()
        rt = impl_cli.cli_roundtrip({"text": rp.get("text", SETTINGS_PROGRAM), "settings_text": rp["settings_text"]})
        dd = impl_cli.cli_decompile({"doc_text": json.dumps(dict(c["value"], routines=SETTINGS_ROUTINES))}) if isinstance(c["value"], dict) else None
        run.violation = lambda kind, what, replay: bad.append((kind, what))  # type: ignore
        settings_oracle(run, c, rt, dd, st)
    elif "text" in rp:
        from .. import impl_es
        ref = impl_es.compile_text({"text": rp["text"]})
        s = impl_cli.cli_roundtrip({"text": rp["text"]})
        cc = s["compile"]
        if ("error" in ref) != (cc["rc"] != 0):
            bad.append(("exit_status", f"compiler {'raises' if 'error' in ref else 'accepts'}, command exits {cc['rc']}"))
        if "error" not in ref and cc["rc"] == 0:
            doc, perr = parse_stdout(cc["stdout"])
            if perr:
                bad.append(("stdout_not_json", perr))
            else:
                bad += [("not_documented_structure", e) for e in doc_errors(doc)]
                bad += info_oracle(doc, strip_rs(ref)) + jump_oracle(doc, strip_rs(ref), jt)
                d = s.get("decompile", {})
                if d.get("rc") != 0:
                    bad.append(("decompile_rejects", d.get("stderr_last", "")))
    elif "document" in rp:
        doc = json.loads(rp["document"]) if isinstance(rp["document"], str) else rp["document"]
        d = impl_cli.cli_decompile({"doc_text": json.dumps(doc)})
        if not doc_errors(doc) and d["rc"] != 0:
            bad.append(("decompile_rejects_documented_input", d["stderr_last"]))
    for k, w in bad:
        print("VIOLATION-REPLAY", k, w)
    return 1 if bad else 0
