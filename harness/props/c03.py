"""C03 — compiled output is a closed, uniquely addressed op list.

Deciding method: Lean theorems ESV.C03.* about the executable model of the ExplorerScript compiler after parsing
(lean/ESV/Comp: handlers, counters, macros, strip_last_label, LabelFinalizer, OpsLabelJumpToRemover, routine tables) and
of the SsbScript compiler (lean/ESV/SsbScript/Model.lean).

Tie to /repo on every run:
  correspondence  generated programs (all default_cfgs, programs with macros, statically invalid variants, fixed edge
                  cases) are compiled by the real compiler AND by the Lean model (driver op comp.compile, input: the
                  generator's AST lowered by harness/gen/complower.py + the real compiler's macro resolution order):
                  ops equal incl. raw offsets and jump targets, routine tables equal, exception class equal
  oracle          `Closed` read off the property text, evaluated on the real result, independent of the model:
                  offsets pairwise distinct, every op named in OPS_WITH_JUMP_TO_MEM_OFFSET has an int last parameter that
                  is the offset of an op of the result, every op object is exactly SsbOperation, three tables equally long
  ssbs            the compiled routine sets are decompiled to SsbScript by the real decompiler and compiled by the real
                  SsbScript compiler; hand-shaped SsbScript ASTs are printed and compiled: same oracle on every accepted
                  result, and the Lean SsbScript compiler model must agree (driver op comp.ssbs_compile = the model of C07 with the routine id check of repo commit 418dd8e in front)
  glue            astdump(print(ast)) == ast for every generated program that compiles
"""
from __future__ import annotations

import copy
import json
import os
import random
from collections import Counter
from typing import Any

from .. import core, escommon
from ..gen import complower, surface
from ..gen import macros as MG
from ..gen import ssbs_ast as SA
from ..gen.programs import Cfg

MODULES = ["ESV.Props.C03"]
THEOREMS = [
    "ESV.C03.compile_closed", "ESV.C03.compile_closed_partial", "ESV.C03.backend_closed", "ESV.C03.counter_fresh",
    "ESV.C03.remover_closed", "ESV.C03.no_pseudo_items", "ESV.C03.tables_same_length", "ESV.C03.finalizer_offsets_survive",
    "ESV.C03.strip_last_label_offsets", "ESV.C03.jump_param_is_last", "ESV.C03.compile_closed_counterexample",
    "ESV.C03.ssbscript_compile_closed", "ESV.C03.ssbscript_compile_checked_closed", "ESV.C03.ssbscript_marker_counterexample", "ESV.C03.ssbscript_repeated_id_counterexample",
]

# programs whose shapes the property text names; parsed with the repository's parser into the surface AST
FIXED = [
    "def 0 { a(); jump @x; @x; }",
    "def 0 { a(); @x; }",
    "def 0 { @x; }",
    "def 0 { a(); if (debug) { jump @x; } @x; } def 1 { jump @x; }",
    "def 0 { a(); if (debug) { jump @m; } end; @m; jump @x; b(); @x; }",
    "def 0 { jump @X; call @X; @X; b(); }",
    "def 0 { jump @a; @b; jump @a; @a; jump @b; }",
    "def 0 { a(); } def 1 { alias previous; } def 2 { jump @l; } def 3 { @l; b(); }",
    "def 0 { forever { } }",
    "def 0 { forever { if (edit) { break_loop; } continue; } }",
    "def 0 { if not ($X == 2) { jump @foo; } @foo; a(); }",
    "def 0 { switch ($X) { case 1: case 2: a(); break; default: case 3: b(); } }",
    "def 0 { switch ($X) { default: case 1: jump @e; } @e; }",
    "def 0 { if (BranchVariation(1)) { a(); } while (BranchEdit(1)) { b(); } switch (Foo(1)) { case 1: c(); } }",
    "def 0 { for ($i = 0; $i < 3; $i += 1;) { if (debug) { continue; } break_loop; } }",
    "macro m() { return; } def 0 { ~m(); }",
    "macro m($a) { x($a); jump @q; @q; } def 0 { ~m(1); ~m(2); }",
    "macro m() { if (debug) { jump @q; } @q; } def 0 { a(); ~m(); }",
    "macro inner($v) { if ($v == 1) { return; } y($v); } macro outer($w) { ~inner($w); ~inner(2); return; z(); } def 0 { ~outer(5); ~outer(K); end; }",
    "macro m() { @q; } def 0 { ~m(); }",
    "macro m() { @q; } def 0 { a(); } def 1 { ~m(); }",
    "coro A { a(); jump @z; } coro B { @z; }",
    "def 0 { with (actor 3) { return; } }",
    "def 0 { with (actor 3) { jump @l; } @l; a(); }",
    "def 0 { for (a(); debug; continue;) { b(); } }",
    "def 0 { forever { with (actor 1) { break_loop; } } }",
    "def 0 { switch ($X) { case 1: with (actor 2) { break; } } }",
    "def 0 { for (@l; debug; jump @l;) { } }",
    "def 0 { while (BranchVariation(1)) { while not (BranchEdit(0)) { continue; } } }",
    "def 0 { if (debug) { ~m(); } } macro m() { jump @e; @e; }",
    "def 0 { a(); } coro X { b(); } def 5 { c(); } coro Y { d(); }",
    "def 0 { if (debug) { } elseif not (edit) { jump @x; } else { } @x; }",
    "macro m() { a(); } macro m() { b(); } def 0 { ~m(); }",
    "def 0 { switch (sector()) { case 1: jump @a; case 2: break; default: jump @a; case 3: @a; } }",
    "def 0 { switch ($X) { case 1: a(); return; case 2: break; case 3: jump @q; } @q; }",
    "def 0 { switch ($X) { case 1: a(); @z; case 2: break; } jump @z; }",
    "def 0 { switch (scn($S)[0]) { case > 3: a(); case == 2: b(); } }",
    "def 0 { if (debug || edit || variation) { jump @t; } elseif (not debug) { hold; } @t; end; }",
    "def 0 { if not (debug || edit) { break; } }",
    "def 0 { forever { forever { break_loop; } continue; } }",
    "def 0 { with (actor 1) { @lab; } }",
    "def 0 { message_SwitchTalk ($X) { case 1: 'a' case 2: 'b' default: 'c' } }",
    "macro a() { ~b(); } macro b() { ~c(); x(); } macro c() { return; } def 0 { ~a(); ~c(); }",
    "macro a($p) { ~b($p, 2); } macro b($q, $r) { x($q, $r, $p); jump @l; @l; } def 0 { ~a(K); }",
    "macro a($p) { x($p); } def 0 { ~a(); }",
    "macro a() { forever { return; } } def 0 { ~a(); }",
    "macro a() { while (BranchEdit(1)) { return; } } def 0 { ~a(); b(); }",
    "def 0 { jump @nowhere; }",
    "def 0 { switch ($X) { case 1: } }",
    "def 0 { switch ($X) { default: a(); default: b(); } }",
    "def 0 { if (Foo()) { a(); } }",
    "def 0 { while (Foo()) { a(); } ~nosuch(); }",
    "def 1 { a(); } def 0 { b(); }",
    "def 0 { a(); } def 0 { jump @x; @x; b(); }",
]
# inside the quantifier, violates the property on the real code: listed in known_findings.jsonl, proved as
# ESV.C03.compile_closed_counterexample on the model
KNOWN_WITNESSES = ["def 0 { Jump(7); }", "def 0 { switch (Call(9)) { case 1: a(); } }"]
SSBS_WITNESSES = ["def 0 {\n    Jump(7);\n}\n", "def 0 {\n    @a;\n    foo();\n}\ndef 0 {\n    Jump(@a);\n}\n"]


# ---- property oracle ----------------------------------------------------------------------------------------------------
def user_op_names(ast: dict) -> set[str]:
    names: set[str] = set()
    for blk in escommon._blocks(ast):
        for s in blk:
            stack = [s]
            while stack:
                x = stack.pop()
                if x["t"] == "op":
                    names.add(x["name"])
                elif x["t"] == "with":
                    stack.append(x["stmt"])
                elif x["t"] == "for":
                    stack += [x["init"], x["inc"]]
                elif x["t"] == "switch" and x["header"].get("s") == "operation":
                    names.add(x["header"]["name"])
    return names


def oracle(res: dict, jt: dict, ast: dict | None = None) -> list[tuple[str, str]]:
    """[(kind, what)] for a successful compile result (rsjson + "lens")"""
    bad: list[tuple[str, str]] = []
    lens = res.get("lens") or [len(res["infos"]), len(res["coros"]), len(res["ops"])]
    if len(set(lens)) != 1:
        bad.append(("tables_length", f"len(routine_infos), len(named_coroutines), len(routine_ops) = {lens}"))
    offs: dict[int, int] = {}
    for ri, r in enumerate(res["ops"]):
        for o in r:
            if o["off"] in offs:
                bad.append(("offset_not_unique", f"offset {o['off']} is used in routine {offs[o['off']]} and in routine {ri}"))
            offs[o["off"]] = ri
            if "cls" in o:
                bad.append(("pseudo_op_left", f"routine {ri} offset {o['off']}: object of class {o['cls']} ({o['name']}) in the result"))
    user = user_op_names(ast) if ast is not None else set()
    for ri, r in enumerate(res["ops"]):
        for o in r:
            if o["name"] in jt and "cls" not in o:
                last = o["params"][-1] if o["params"] else None
                if isinstance(last, bool) or not isinstance(last, int) or last not in offs:
                    kind = "user_op_named_like_jump_op" if o["name"] in user else "jump_target_not_an_op"
                    bad.append((kind, f"routine {ri} offset {o['off']}: {o['name']}{o['params']} — last parameter {last!r} is not the offset of an op of the result"))
                elif len(o["params"]) != jt[o["name"]] + 1:
                    # exactly ONE parameter is appended to the written arguments, and it lands at the index the op kind
                    # defines (pinned table): `Jump`/`Call` have 1 parameter, `Branch` 3, `BranchDebug` 2, `Case` 2, ...
                    kind = "user_op_named_like_jump_op" if o["name"] in user else "jump_param_not_at_table_index"
                    bad.append((kind, f"routine {ri} offset {o['off']}: {o['name']}{o['params']} has {len(o['params'])} parameters, the jump parameter "
                                      f"of {o['name']} belongs at index {jt[o['name']]} and must be the last one"))
    for grp in res.get("shared_params") or []:
        bad.append(("params_list_shared", f"the ops at offsets {grp} hold one and the same params list object"))
    return bad


def ssbs_kind(ast: list, off: int) -> str:
    """narrow shape of ONE dangling jump (the op at offset `off`) in an SsbScript compile result, read off the statement
    AST.  The SsbScript compiler numbers ops in file order, so `off` is the index of the op statement in the file.
    - ssbs_jump_op_without_trailing_marker: that very op is written without a jump marker as last argument,
    - ssbs_routine_id_defined_twice: the op the target label stands in front of belongs to a routine whose id is defined
      again later (its ops vanish, the label keeps its offset),
    - otherwise the dangling jump is no known shape: jump_target_not_an_op."""
    stream = []          # (routine position, stmt) of every statement in file order
    ids = []
    cur = -1
    for pos, rt in enumerate(ast):
        h = rt["hdr"]
        cur = cur + 1 if h["k"] == "coro" else h["id"]
        ids.append(cur)
        for st in rt["body"] or []:
            stream.append((pos, st))
    ops = [(pos, st) for pos, st in stream if "op" in st]
    if not (0 <= off < len(ops)):
        return "jump_target_not_an_op"
    st = ops[off][1]
    last = st["args"][-1] if st["args"] else None
    if not (isinstance(last, dict) and "j" in last):
        return "ssbs_jump_op_without_trailing_marker"
    # the op the label resolves to: the next op after the last definition of the label that has an op after it
    target_pos = None
    seen_label = False
    for pos, s_ in stream:
        if "l" in s_ and s_["l"] == last["j"]:
            seen_label = True
        elif "op" in s_ and seen_label:
            target_pos = pos
            seen_label = False
    if target_pos is not None and ids[target_pos] in ids[target_pos + 1:]:
        return "ssbs_routine_id_defined_twice"
    return "jump_target_not_an_op"


def ssbs_oracle(y: dict, jt: dict, ast: list | None) -> list[tuple[str, str]]:
    """oracle on an SsbScript compile result; dangling jumps are classified op by op (one entry per kind)"""
    y2 = dict(y)
    y2["lens"] = [len(y["infos"]), len(y["coros"]), len(y["ops"])]
    # (the parameter count of an op is whatever the SsbScript author wrote: no index clause here)
    out = [(k, w) for k, w in oracle(y2, jt, None) if k not in ("jump_target_not_an_op", "jump_param_not_at_table_index")]
    offs = {o["off"] for r in y["ops"] for o in r}
    seen: set[str] = set()
    for ri, r in enumerate(y["ops"]):
        for o in r:
            if o["name"] in jt:
                last = o["params"][-1] if o["params"] else None
                if isinstance(last, bool) or not isinstance(last, int) or last not in offs:
                    kind = ssbs_kind(ast, o["off"]) if ast is not None else "jump_target_not_an_op"
                    if kind not in seen:
                        seen.add(kind)
                        out.append((kind, f"routine {ri} offset {o['off']}: {o['name']}{o['params']} — last parameter {last!r} is not the offset of an op of the result"))
    return out


def gen_trailing_label_ast(rnd: random.Random) -> list:
    """SsbScript AST (harness/astdump_ssbs.py format) with a label that no op follows anywhere in the file — at the very
    end of the last routine with a body, possibly with alias routines behind it — and jump-carrying ops that refer to it.
    The compiler must reject such a file (the label never gets an offset); accepting it leaves a dangling jump."""
    n = rnd.randint(1, 3)
    lbl = rnd.choice(["tail", "end_0", "label_9"])
    others = ["m0", "m1"]
    rts = []
    for i in range(n):
        body = []
        for _ in range(rnd.randint(0, 3)):
            c = rnd.random()
            if c < 0.2:
                body.append({"l": rnd.choice(others)})
            elif c < 0.6:
                body.append({"op": rnd.choice(["foo", "Wait", "x"]), "args": [rnd.randint(0, 9)] if rnd.random() < 0.5 else []})
            else:
                nm, pre = rnd.choice([("Jump", []), ("Call", []), ("Branch", [1, 2]), ("Case", [3]), ("BranchBit", [{"c": "$V"}, 1])])
                body.append({"op": nm, "args": pre + [{"j": lbl}]})
        rts.append({"hdr": {"k": "def", "id": i} if rnd.random() < 0.7 else {"k": "for", "id": i, "word": "actor", "target": 3}, "body": body})
    # make every other label resolvable: define it in front of an op at the start of routine 0
    rts[0]["body"] = [{"l": o} for o in others] + [{"op": "init", "args": []}] + rts[0]["body"]
    if not any("op" in s_ and s_["args"] and isinstance(s_["args"][-1], dict) and s_["args"][-1].get("j") == lbl for rt in rts for s_ in rt["body"]):
        nm, pre = rnd.choice([("Jump", []), ("Call", []), ("Branch", [1, 2])])
        rnd.choice(rts)["body"].insert(0, {"op": nm, "args": pre + [{"j": lbl}]})
    for rt in rts:
        if not rt["body"]:
            rt["body"].append({"op": "nop", "args": []})
    rts[-1]["body"].append({"l": lbl})
    if rnd.random() < 0.3:
        rts[-1]["body"].append({"l": "tail2"})
    for k in range(rnd.choice([0, 0, 1, 2])):
        rts.append({"hdr": {"k": "def", "id": n + k}, "body": None})
    return rts


# ---- correspondence -----------------------------------------------------------------------------------------------------
def real_view(res: dict) -> dict:
    if "error" in res:
        return {"error": res["error"]}
    return {"ops": [[{"off": o["off"], "name": o["name"], "params": o["params"]} for o in r] for r in res["ops"]],
            "infos": [complower.info_tag_of_json(i) for i in res["infos"]], "coros": res["coros"]}


def model_view(rep: dict) -> dict:
    if "ok" in rep:
        return {"ops": rep["ok"]["ops"], "infos": rep["ok"]["infos"], "coros": rep["ok"]["coros"]}
    return {"error": rep.get("error", "?")}


def model_request(ast: dict, res: dict) -> dict:
    return {"op": "comp.compile", "prog": complower.program(ast, res.get("macro_order"))}


def no_answer(r: Any) -> bool:
    return not isinstance(r, dict) or "__timeout__" in r or "__died__" in r or "__exc__" in r or "__garbled__" in r


def compile_all(pool: core.Pool, texts: list[str], chunk: int = 25, timeout: float = 120) -> list[dict]:
    args = [{"text": t} for t in texts]
    chunks = [args[i:i + chunk] for i in range(0, len(args), chunk)]
    outs = pool.map("harness.impl_c03:compile_ex_many", chunks, timeout=timeout)
    res: list[dict] = []
    for ch, o in zip(chunks, outs):
        if isinstance(o, list) and len(o) == len(ch):
            res += o
        else:
            singles = pool.map("harness.impl_c03:compile_ex", ch, timeout=timeout)
            for s in singles:
                res.append({"error": "NoAnswer", "msg": json.dumps(s)[:200], "no_answer": True} if no_answer(s) else s)
    return res


def surface_of_text(text: str) -> dict:
    from .. import astdump
    return astdump.strip_hints(astdump.dump_text(text))


def gen_cases(run: core.Run) -> tuple[list[dict], Counter]:
    quick = run.tier == "quick"
    n_plain, n_macro, n_bad = (1400, 700, 500) if quick else (12000, 6000, 3000)
    gstats: Counter = Counter()
    cases: list[dict] = []
    for t in FIXED + KNOWN_WITNESSES:
        cases.append({"ast": surface_of_text(t), "text": t, "src": "fixed"})
    corpus = os.path.join(core.ROOT, "corpus", "c03.jsonl")
    if os.path.exists(corpus):
        for l in open(corpus):
            if l.strip():
                c = json.loads(l)
                cases.append({"ast": surface_of_text(c["text"]), "text": c["text"], "src": "corpus"})
    cfgs = escommon.default_cfgs(run.tier)
    for c in escommon.gen_programs(run.rng, n_plain, cfgs):
        gstats.update(c["stats"])
        cases.append({"ast": c["ast"], "text": c["text"], "src": "plain"})
    mcfgs = [Cfg(max_depth=2, max_stmts=3, max_routines=2), Cfg(max_depth=3, max_stmts=4, max_routines=2),
             Cfg(max_depth=1, max_stmts=2, max_routines=1), Cfg(max_depth=2, max_stmts=3, max_routines=2, coro=True),
             Cfg(max_depth=2, max_stmts=2, max_routines=3, p_halt=0.2)]
    for i in range(n_macro):
        ast, st = MG.program_with_macros(random.Random(run.rng.getrandbits(48)), mcfgs[i % len(mcfgs)])
        gstats.update(st)
        text, _ = surface.print_program(ast)
        cases.append({"ast": ast, "text": text, "src": "macro"})
    base = [c for c in cases if c["src"] in ("plain", "macro")]
    k = 0
    tries = 0
    while k < n_bad and tries < n_bad * 4 and base:
        tries += 1
        src = run.rng.choice(base)
        v = MG.invalid_variant(src["ast"], random.Random(run.rng.getrandbits(48)))
        if v is None:
            continue
        ast, name = v
        text, _ = surface.print_program(ast)
        cases.append({"ast": ast, "text": text, "src": "invalid", "mutation": name})
        gstats["invalid:" + name] += 1
        k += 1
    return cases, gstats


def check_one(ast: dict, jt: dict, drv: core.Driver | None) -> dict:
    """real compile + oracle + model comparison of one surface AST (shrinking, replay)"""
    from .. import impl_c03
    text, _ = surface.print_program(ast)
    res = impl_c03.compile_ex({"text": text})
    out: dict = {"text": text, "res": res, "oracle": [], "mismatch": False}
    if "error" not in res:
        out["oracle"] = oracle(res, jt, ast)
    if drv is not None:
        rep = drv.batch([model_request(ast, res)])[0]
        out["model"] = rep
        out["mismatch"] = real_view(res) != model_view(rep)
    return out


def run(run: core.Run) -> int:
    from .. import impl_c03
    quick = run.tier == "quick"
    prep = core.lean_prepare(MODULES)
    aud = core.audit(THEOREMS, MODULES) if prep["proofs_ok"] else {"obligations": len(THEOREMS), "discharged": 0, "ok": False, "theorems": {}}
    jobs = core.jobs_for(run.tier)
    jt = impl_c03.jump_table()
    from .. import spec_tables
    sync = spec_tables.in_sync()
    if sync:
        run.broken_tie("pinned Python specification tables are out of date", {"detail": sync})
    cases, gstats = gen_cases(run)
    pool = core.Pool(jobs)
    try:
        results = compile_all(pool, [c["text"] for c in cases])
        # ---- SsbScript channel inputs: real compile results (dense, every routine defined) and hand-shaped ASTs
        ok_sets = []
        for c, r in zip(cases, results):
            if "error" not in r and all(i is not None for i in r["infos"]) and len(ok_sets) < (400 if quick else 3000):
                ok_sets.append({"infos": r["infos"], "coros": r["coros"], "ops": [[{"off": o["off"], "name": o["name"], "params": o["params"]} for o in rt] for rt in r["ops"]]})
        n_sast = 300 if quick else 3000
        sasts = [SA.gen_ast(run.rng) for _ in range(n_sast)]
        tl_asts = [gen_trailing_label_ast(random.Random(run.rng.getrandbits(48))) for _ in range(60 if quick else 1500)]
        tl_texts = [SA.print_ast(a, run.rng) for a in tl_asts]
        stexts = [SA.print_ast(a, run.rng) for a in sasts] + tl_texts + SSBS_WITNESSES
        # the same files through ExplorerScriptSsbCompiler (sources marked as SsbScript)
        attr_texts = ["//?: is-ssb-script: true\n" + t for t in tl_texts[:20 if quick else 300]]
        attr_res = compile_all(pool, attr_texts)
        sin = [{"set": s} for s in ok_sets] + [{"text": t} for t in stexts]
        chunks = [sin[i:i + 40] for i in range(0, len(sin), 40)]
        souts_raw = pool.map("harness.impl_ssbs:run_cases", chunks, timeout=180)
    finally:
        pool.close()
    sres: list[Any] = []
    for ch, o in zip(chunks, souts_raw):
        sres += o if isinstance(o, list) and len(o) == len(ch) else [{"harness_exc": {"cls": "NoAnswer", "msg": json.dumps(o)[:200]}}] * len(ch)

    stats: Counter = Counter()
    n_oracle_bad = 0
    mism = 0
    drv = core.Driver() if prep["driver_ok"] else None

    # ---- property oracle on the real results -----------------------------------------------------------------------------
    viol_cases = []
    for c, r in zip(cases, results):
        stats["src:" + c["src"]] += 1
        if "error" in r:
            stats["real_error:" + r["error"]] += 1
            if r.get("no_answer"):
                run.notes.append(f"compiler gave no answer (hang / memory) on: {c['text'][:300]!r}")
            continue
        stats["compiled"] += 1
        bad = oracle(r, jt, c["ast"])
        if bad:
            n_oracle_bad += 1
            viol_cases.append((c, r, bad))
    shrunk = 0
    for c, r, bad in viol_cases:
        kinds = {k for k, _ in bad}
        if shrunk < 3 and not (kinds <= {k.get("kind") for k in run.known}):
            shrunk += 1

            def still(a: dict) -> bool:
                return any(k in kinds for k, _ in check_one(a, jt, None)["oracle"])
            small = escommon.shrink(c["ast"], still, budget=150 if quick else 400)
            one = check_one(small, jt, None)
            b2 = one["oracle"] or bad
            run.violation(b2[0][0], b2[0][1], {"text": one["text"], "ops": one["res"].get("ops"), "original_text": c["text"]})
        else:
            run.violation(bad[0][0], bad[0][1], {"text": c["text"], "ops": r["ops"]})

    # ---- correspondence with the Lean model ------------------------------------------------------------------------------
    if drv is not None:
        reqs = [model_request(c["ast"], r) for c, r in zip(cases, results)]
        reps = drv.batch_parallel(reqs, jobs)
        for c, r, rep in zip(cases, results, reps):
            if r.get("no_answer"):
                continue
            mv = model_view(rep)
            if "error" in mv:
                stats["model_error:" + mv["error"]] += 1
            if real_view(r) != mv:
                mism += 1
                if mism <= 3:
                    def differs(a: dict) -> bool:
                        one_ = check_one(a, jt, drv)
                        # a text the parser rejects is not a case for the model (it starts after parsing)
                        return one_["mismatch"] and one_["res"].get("error") != "ParseError"
                    try:
                        small = escommon.shrink(c["ast"], differs, budget=120 if quick else 300)
                        one = check_one(small, jt, drv)
                    except Exception:  # noqa
                        one = {"text": c["text"], "res": r, "model": rep}
                    run.broken_tie("correspondence C03: real compiler and Lean model differ (ops with raw offsets / tables / exception class)",
                                   {"text": one["text"], "real": real_view(one["res"]), "model": model_view(one.get("model", rep)), "original_text": c["text"]})
        # the known witnesses must fail on the real code exactly as the counterexample theorem says
        for t in KNOWN_WITNESSES:
            i = [c["text"] for c in cases].index(t)
            if "error" in results[i] or not oracle(results[i], jt, cases[i]["ast"]):
                run.broken_tie("witness of ESV.C03.compile_closed_counterexample no longer fails on the real compiler", {"text": t, "real": results[i]})

    # ---- glue: the repo's parser sees the AST the generator printed ------------------------------------------------------
    from .. import astdump
    glue_bad = 0
    glue_n = 0
    for c, r in zip(cases, results):
        if c["src"] in ("fixed", "corpus") or "error" in r:
            continue
        if quick and glue_n >= 600:
            break
        glue_n += 1
        try:
            if astdump.strip_hints(astdump.dump_text(c["text"])) != astdump.strip_hints(c["ast"]):
                glue_bad += 1
                if glue_bad <= 2:
                    run.broken_tie("printer/astdump glue: parsed AST differs from generated AST", {"text": c["text"]})
        except Exception:  # noqa
            glue_bad += 1

    # ---- SsbScript channel -----------------------------------------------------------------------------------------------
    sstats: Counter = Counter()
    for t, r in zip(attr_texts, attr_res):
        if "error" in r:
            sstats["attr_path_error:" + r["error"]] += 1
            continue
        sstats["attr_path_compiled"] += 1
        for k, w in ssbs_oracle(r, jt, None):
            n_oracle_bad += 1
            run.violation(k, "SsbScript source through ExplorerScriptSsbCompiler: " + w, {"text": t, "ops": r["ops"]})
    s_items = [("set", s) for s in ok_sets] + [("text", t) for t in stexts]
    s_model_reqs = []
    s_model_idx = []
    for i, ((kind, x), r) in enumerate(zip(s_items, sres)):
        if not isinstance(r, dict) or "harness_exc" in r:
            sstats["no_answer"] += 1
            continue
        if "dec_exc" in r:
            sstats["decompile_error:" + r["dec_exc"]["cls"]] += 1
            continue
        if "comp_exc" in r:
            sstats["compile_error:" + r["comp_exc"]["cls"]] += 1
        else:
            sstats["compiled"] += 1
            y = r["out"]
            bad = ssbs_oracle(y, jt, r.get("ast"))
            for k, w in bad:
                n_oracle_bad += 1
                run.violation(k, "SsbScript: " + w, {"ssbscript_text": r.get("text") or x, "ops": y["ops"]})
            if kind == "text" and x in SSBS_WITNESSES and not bad:
                run.broken_tie("witness of an ESV.C03.ssbscript_*_counterexample theorem no longer fails on the real SsbScript compiler", {"text": x, "real": y})
        if kind == "text" and x in SSBS_WITNESSES and "comp_exc" in r:
            run.broken_tie("witness of an ESV.C03.ssbscript_*_counterexample theorem is now rejected by the real SsbScript compiler", {"text": x, "real": r["comp_exc"]})
        if "ast" in r and drv is not None:
            s_model_idx.append(i)
            s_model_reqs.append({"op": "comp.ssbs_compile", "ast": r["ast"]})
    if drv is not None and s_model_reqs:
        sreps = drv.batch_parallel(s_model_reqs, jobs)
        for i, m in zip(s_model_idx, sreps):
            r = sres[i]
            if "comp_exc" in r:
                same = m.get("err") == r["comp_exc"]["cls"]
            else:
                same = m.get("out") == r["out"]
            if not same:
                mism += 1
                if mism <= 3:
                    run.broken_tie("correspondence C03/ssbs: real SsbScript compiler and Lean model differ",
                                   {"text": r.get("text") or s_items[i][1], "real": r.get("out") or r.get("comp_exc"), "model": m})

    if not prep["proofs_ok"] or not aud["ok"] or not prep["driver_ok"]:
        run.broken_tie("Lean obligations of C03 do not check (build/audit)", {"theorems": THEOREMS, "log": prep["log"][-3000:], "audit": {k: v for k, v in aud.items() if k != "theorems"}})
    if not quick and prep["proofs_ok"]:
        ok, out = core.leanchecker(MODULES)
        stats["leanchecker_ok"] = int(ok)
        if not ok:
            run.broken_tie("leanchecker rejects the C03 modules", {"log": out})

    compiled = [(c, r) for c, r in zip(cases, results) if "error" not in r]
    nontrivial = [c["text"] for c, r in compiled if any(o["name"] in jt for rt in r["ops"] for o in rt)]
    gaps = sum(1 for _, r in compiled if (lambda offs: offs and max(offs) > len(offs))([o["off"] for rt in r["ops"] for o in rt]))
    cov = core.proof_coverage(run, prep, aud, MODULES, THEOREMS, {
        "evaluations": len(cases) + len(s_items),
        "distinct_nontrivial": core.distinct(nontrivial),
        "rule": "ExplorerScript: fixed edge programs + grammar-directed random programs of escommon.default_cfgs (all statement forms, labels "
                "incl. cross-routine jumps, labels at routine ends, removed jumps, alias routines, coroutines) + programs with 1-5 macros in the "
                "file (acyclic call DAG, shuffled definition order, nested calls, all argument kinds, variables passed on, labels/jumps/return in "
                "macro bodies, calls in routines and macros) + statically invalid variants (break/continue/break_loop outside, unknown macro, "
                "switch ending in an empty case, undefined label, too few macro arguments, two defaults, label / inline context in a with-block, "
                "non-branch header operation, routine ids out of order / with gaps / repeated, label-only expansion). SsbScript: the real "
                "compile results decompiled to SsbScript and compiled back + hand-shaped SsbScript ASTs. non-trivial = compiles and contains a "
                "jump-carrying op",
        "samples": [c["text"] for c in cases if c["src"] == "macro"][:2] + [c["text"] for c in cases if c["src"] == "invalid"][:1],
        "programs": len(cases), "compiled": len(compiled), "programs_with_offset_gaps": gaps,
        "correspondence_mismatches": mism, "oracle_violations": n_oracle_bad, "glue_checked": glue_n, "glue_mismatches": glue_bad,
        "outcomes": dict(stats), "ssbscript_outcomes": dict(sstats), "constructs_generated": dict(gstats),
    })
    return run.finish("proof", cov, [
        "the model starts after parsing: the ANTLR parser is covered differentially (generated ASTs are printed, the real compiler gets the text, "
        "the model gets the AST; astdump(print(ast)) == ast is checked)",
        "headers, assignments and message switches reach the model lowered to opcode + parameters by harness/gen/complower.py (table of "
        "harness/gen/surface.py); the model is about control-flow code generation, numbering, labels, macros and the three back-end passes",
        "the macro resolution order is an input of the model (taken from the real compiler; its correctness is C05); imports are not modelled",
        "label ids of the model equal the compiler's by construction but are not compared (no label survives in the result)",
        "compile_closed carries the decidable guard NoUserJumpOps (no operation written by the user is named like a jump-carrying op); "
        "without it the property is false on the real code (known finding user_op_named_like_jump_op, counterexample theorem)",
    ])


def replay(run: core.Run, path: str) -> int:
    from .. import impl_c03
    data = json.load(open(path))
    rp = data["replay"]
    jt = impl_c03.jump_table()
    if "ssbscript_text" in rp and isinstance(rp["ssbscript_text"], str):
        from .. import impl_ssbs
        r = impl_ssbs.compile_text(rp["ssbscript_text"])
        print(rp["ssbscript_text"])
        if "comp_exc" in r:
            print("SsbScript compiler raises", r["comp_exc"]["cls"], r["comp_exc"]["msg"])
            return 0
        bad = ssbs_oracle(r["out"], jt, r.get("ast"))
        for k, w in bad:
            print("VIOLATION-REPLAY", k, w)
        return 1 if bad else 0
    if "text" not in rp:
        print("replay file carries no program:", data.get("what"))
        return 1
    text = rp["text"]
    if text.startswith("//?: is-ssb-script"):
        res = impl_c03.compile_ex({"text": text})
        print(text)
        if "error" in res:
            print("compiler raises", res["error"], res.get("msg"))
            return 0
        bad = ssbs_oracle(res, jt, None)
        for k, w in bad:
            print("VIOLATION-REPLAY", k, w)
        return 1 if bad else 0
    res = impl_c03.compile_ex({"text": text})
    print(text)
    if "error" in res:
        print("compiler raises", res["error"], res.get("msg"))
        bad = []
    else:
        bad = oracle(res, jt, surface_of_text(text))
    for k, w in bad:
        print("VIOLATION-REPLAY", k, w)
    st = core.lean_prepare([], need_driver=True)
    tie = False
    if st["driver_ok"]:
        rep = core.Driver().batch([model_request(surface_of_text(text), res)])[0]
        tie = real_view(res) != model_view(rep)
        if tie:
            print("MODEL-DIFFERS real:", json.dumps(real_view(res))[:600], "model:", json.dumps(model_view(rep))[:600])
    return 1 if bad or tie else 0
