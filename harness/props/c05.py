"""C05 — a macro call means its body inlined, in any definition order and file layout.

Deciding method (two parts, see design_notes/C05.md):
  * behaviour: translation validation with the kernel-checked validator (ESV.Beh.check_sound): the real compiler's output
    for every generated program with macros (single file and multi-file layouts in temporary directories) is validated
    against the Lean source semantics of the program containing ALL macros, in which `Stmt.macroCall` IS "the body
    inlined, parameters substituted, labels private per expansion, return leaves the macro" (lean/ESV/Src/Sem.lean);
  * ordering and import resolution: Lean theorems (ESV.C05.*) about faithful models of MacroResolutionOrderVisitor +
    MacroVisitor's use of the order (lean/ESV/Macro/Order.lean) and of `_resolve_imported_file` (lean/ESV/Macro/Import.lean),
    tied to /repo on every run by exact comparison: real `macro_resolution_order` (of the main file and of every imported
    file) == Lean `macro.order`; real resolved paths == Lean `macro.resolve` fed with the temp tree's `exists` relation.
Property oracles on the real outputs, independent of the models: (i) behavioural verdicts, (ii) every permutation of the
definition order compiles and all permutations are pairwise behaviourally equal (`beh.validate_mm`), (iii) the files
actually read are the first existing candidates by the documented rules (harness reading of docs/language_spec.rst),
invalid layouts raise SsbCompilerError."""
from __future__ import annotations

import copy
import glob
import hashlib
import json
import os
import posixpath
import re
import shutil
from collections import Counter
from typing import Any, Callable

from .. import core, escommon
from ..gen import macros_c05 as G
from ..gen import surface

MODULES = ["ESV.Props.C05", "ESV.Props.C01Frontend"]
THEOREMS = [
    "ESV.Beh.check_sound", "ESV.Beh.validate_sound",
    "ESV.C05.order_topological", "ESV.C05.all_acyclic_compile", "ESV.C05.cycle_detected_iff", "ESV.C05.visit_never_stops",
    "ESV.C05.visitStart_ok_iff", "ESV.C05.order_total", "ESV.C05.compiles_of_topological",
    "ESV.C05.witness_acyclic", "ESV.C05.order_topological_counterexample", "ESV.C05.witness_does_not_compile",
    "ESV.C05.resolve_relative", "ESV.C05.resolve_absolute", "ESV.C05.resolve_lookup_first_match",
    "ESV.C05.resolve_lookup_none", "ESV.C05.resolve_rejects_dot_components",
    # the property itself for ALL programs of the fragment F5 of the compiler model (no imports): a macro call = its body inlined
    # (design_notes/C01_frontend.md, F5); the per-program verdicts stay the deciding method, `in_F5` counts the covered programs
    "ESV.C01Frontend.codegen_correct_F5", "ESV.C01Frontend.compile_correct_F5", "ESV.Beh.E_sound",
    # … and for projects with imports whose flattening (ESV.Comp.flatten, model of the import closure of `_compile`, compared with the
    # real multi-file results on every layout case: `comp.flatten`) is in F5
    "ESV.C01Frontend.compile_correct_F6", "ESV.C01Frontend.flatten_keeps_routines", "ESV.C01Frontend.flatten_without_imports",
]
ROOT = G.ROOT
FAKE_ROOT = "/T/R"      # two levels, like the real roots /tmp/<dir>
# What `exists` means for the model of `_resolve_imported_file`: "tree" = os.path.exists (files and directories, the pinned code);
# "tree_files" = os.path.isfile (after a repair of known finding import_candidate_is_directory)
EXISTS_FIELD = os.environ.get("VERIF_C05_EXISTS", "tree_files")
NOT_FOUND = re.compile(r"^Macro (.*) not found\.$")


# ----------------------------------------------------------------------------------------------------------------------
# printing and running cases
# ----------------------------------------------------------------------------------------------------------------------
def print_case(case: dict, run_id: str) -> dict:
    return {"files": {rel: surface.print_program(ast)[0] for rel, ast in case["files"].items()}, "dirs": case.get("dirs", []),
            "main": case["main"], "lookup": case.get("lookup", []), "run": run_id}


def no_answer(r: Any) -> bool:
    return (not isinstance(r, dict)) or "__timeout__" in r or "__died__" in r or "__exc__" in r or r.get("error") in ("MemoryError", "NoAnswer")


def case_arg(case: dict, run_id: str) -> dict:
    """what the worker gets: the surface ASTs (printed by the worker with the same printer, harness/gen/surface.py)"""
    return {"asts": case["files"], "dirs": case.get("dirs", []), "main": case["main"], "lookup": case.get("lookup", []), "run": run_id}


def run_cases(pool: core.Pool, cases: list[dict], run_id: str, chunk: int = 20, timeout: float = 90.0, retry: bool = True) -> list[dict]:
    args = [case_arg(c, run_id) for c in cases]
    chunks = [args[i:i + chunk] for i in range(0, len(args), chunk)]
    outs = pool.map("harness.impl_es:compile_layouts", chunks, timeout=timeout)
    res: list[dict] = []
    for ch, o in zip(chunks, outs):
        if isinstance(o, list) and len(o) == len(ch):
            res += o
        else:
            singles = pool.map("harness.impl_es:compile_layout", ch, timeout=timeout)
            # a case that gave no answer alone is run once more with a 6x limit before it counts (busy machines)
            again = [i for i, s in enumerate(singles) if no_answer(s) and not (isinstance(s, dict) and s.get("error") == "MemoryError")]
            if again and retry:
                for i, s in zip(again, pool.map("harness.impl_es:compile_layout", [ch[i] for i in again], timeout=timeout * 6)):
                    singles[i] = s
            for s in singles:
                res.append(s if isinstance(s, dict) else {"__exc__": "garbled"})
    return res


def inline_case(case: dict) -> dict | None:
    """the macro-free single-file program "every call replaced by the body" of a valid case (None when not applicable)"""
    if case["expect"] not in ("ok", "dir_candidate"):
        return None
    if "dag" in case["tags"] and not case["name"].endswith((".0", ".1")):
        return None     # plain DAG x order family: the first two definition orders of every shape get an inlined twin
    doc = doc_closure(case)
    if "error" in doc:
        return None
    main = case["main"]
    vis = {n: m for n, (m, _f) in doc["visible"][main].items()}
    try:
        inl = G.inline_program(case["files"][main], vis)
    except (ValueError, KeyError):
        return None
    return G.single_file_case(inl, case["name"] + ".inl", ["inlined"])


def run_with_inline(pool: core.Pool, cases: list[dict], run_id: str, timeout: float = 90.0) -> tuple[list[dict], list[dict | None]]:
    inl = [inline_case(c) for c in cases]
    idx = [i for i, c in enumerate(inl) if c is not None]
    res = run_cases(pool, cases + [inl[i] for i in idx], run_id, timeout=timeout)  # type: ignore
    inl_res: list[dict | None] = [None] * len(cases)
    for k, i in enumerate(idx):
        inl_res[i] = res[len(cases) + k]
    return res[:len(cases)], inl_res


def cleanup_tmp(run_id: str) -> int:
    n = 0
    for p in glob.glob(f"/tmp/esv_c05_{run_id}_*"):
        shutil.rmtree(p, ignore_errors=True)
        n += 1
    return n


# ----------------------------------------------------------------------------------------------------------------------
# the documented import rules, read independently of the code (oracle iii)
# ----------------------------------------------------------------------------------------------------------------------
def _unroot(p: str) -> str | None:
    """'{ROOT}//lib/x' -> 'lib/x' (None when the path leaves the root)"""
    rest = posixpath.normpath("/" + p[len(ROOT):]).lstrip("/")
    return rest


def doc_resolve(case: dict, importer: str, imp: str) -> tuple[str, str | None]:
    """-> ("ok", file) | ("missing", None) | ("dot_component", None); language_spec.rst "Imports / Includes":
    './' '../' relative to the importing file, '/' absolute, everything else relative to the include paths in order"""
    files = case["files"]
    base = posixpath.dirname(importer)
    if imp.startswith("./") or imp.startswith("../"):
        cand = posixpath.normpath(posixpath.join(base, imp))
        return ("ok", cand) if cand in files else ("missing", None)
    if imp.startswith("/") or imp.startswith(ROOT):
        cand = _unroot(imp) if imp.startswith(ROOT) else None
        return ("ok", cand) if cand in files else ("missing", None)
    if "." in imp.split("/") or ".." in imp.split("/"):
        return ("dot_component", None)
    for lp in case.get("lookup", []):
        if lp.startswith(ROOT):
            d = _unroot(lp)
        else:
            d = posixpath.normpath(posixpath.join(base, lp))      # ASSUMPTION (undocumented): relative to the importing file
        cand = posixpath.normpath(posixpath.join(d or "", imp))
        if cand in files:
            return ("ok", cand)
    return ("missing", None)


def doc_closure(case: dict) -> dict:
    """{"error": kind} or {"resolved": {file: [files]}, "visible": {file: {name: (macro ast, defining file)}}, "read": [...]}"""
    resolved: dict[str, list[str]] = {}
    visible: dict[str, dict] = {}
    read: list[str] = []

    def walk(f: str, chain: list[str]) -> str | None:
        ast = case["files"][f]
        outs = []
        vis: dict = {}
        for imp in ast.get("imports", []):
            st, tgt = doc_resolve(case, f, imp)
            if st != "ok":
                return st
            assert tgt is not None
            if tgt in chain + [f]:
                return "cycle"
            if case["files"][tgt].get("routines"):
                # reported when the imported file is compiled; its own imports come first
                pass
            outs.append(tgt)
            read.append(tgt)
            e = walk(tgt, chain + [f])
            if e:
                return e
            if case["files"][tgt].get("routines"):
                return "routines_in_import"
            vis.update(visible[tgt])
        for m in ast.get("macros", []):
            vis[m["name"]] = (m, f)
        resolved[f] = outs
        visible[f] = vis
        return None
    err = walk(case["main"], [])
    if err:
        return {"error": err}
    return {"resolved": resolved, "visible": visible, "read": read}


# layout defects and what the model of the import closure (ESV.Comp.flatten) answers for them
FLATTEN_ERRORS = {"missing": "notFound", "cycle": "recursion", "routines_in_import": "routinesInImport", "dot_component": "invalid"}


def real_view(res: dict) -> dict:
    from ..gen import complower
    if "error" in res:
        return {"error": res["error"]}
    return {"ops": [[{"off": o["off"], "name": o["name"], "params": o["params"]} for o in r] for r in res["ops"]],
            "infos": [complower.info_tag_of_json(i) for i in res["infos"]], "coros": res["coros"]}


def model_view(rep: dict) -> dict:
    if "ok" in rep:
        return {"ops": rep["ok"]["ops"], "infos": rep["ok"]["infos"], "coros": rep["ok"]["coros"]}
    return {"error": rep.get("error", "?")}


def flatten_request(case: dict, res: dict) -> dict:
    """the project as the Lean model sees it: every file lowered for the compiler model (harness/gen/complower.py) with the
    macro_resolution_order the real compiler computed for it (files it never compiled: definition order), its import strings,
    the regular files of the temporary tree"""
    from ..gen import complower
    orders: dict = {}
    for e in res.get("log", []):
        if "order" in e:
            orders[rel_of(e["file"])] = e["order"]
    files = [{"path": FAKE_ROOT + "/" + rel, "imports": fake(list(a.get("imports", []))), "prog": complower.program(a, orders.get(rel))}
             for rel, a in case["files"].items()]
    return {"op": "comp.flatten", "files": files, "exists": fake(res[EXISTS_FIELD]), "cwd": res.get("cwd", "/"),
            "lookups": fake(case.get("lookup", [])), "main": FAKE_ROOT + "/" + case["main"]}


def core_program(case: dict, doc: dict) -> dict:
    main = case["main"]
    ast = case["files"][main]
    own = {m["name"] for m in ast.get("macros", [])}
    extra = [m for name, (m, f) in doc["visible"][main].items() if f != main and name not in own]
    return surface.lower_program(ast, extra_macros=extra)


# ----------------------------------------------------------------------------------------------------------------------
# evaluation of one case: oracles on the real outputs + requests for the Lean driver
# ----------------------------------------------------------------------------------------------------------------------
def fake(x: Any) -> Any:
    if isinstance(x, str):
        return x.replace(ROOT, FAKE_ROOT)
    if isinstance(x, list):
        return [fake(y) for y in x]
    return x


def fake_out(x: Any) -> Any:
    """paths the real code returned: the root token as in `fake`, and the real parent of the roots (/tmp) as /T"""
    if isinstance(x, list):
        return [fake_out(y) for y in x]
    y = fake(x)
    if isinstance(y, str) and (y == "/tmp" or y.startswith("/tmp/")):
        y = "/T" + y[4:]
    return y


def rel_of(path: str) -> str:
    return path[len(ROOT) + 1:] if path.startswith(ROOT + "/") else path


def not_topological(entry: dict, ast: dict) -> str | None:
    """shape of known finding `macro_order_not_topological`: the order the resolver really computed for this file puts a
    macro defined in the file after one of its callers"""
    order = entry.get("order")
    if order is None:
        return None
    inp = G.abstract_input(ast, [])
    names = {d[0] for d in inp["defs"]}
    for name, callees in inp["defs"]:
        for c in callees:
            if c in names and c in order and name in order and order.index(c) > order.index(name):
                return f"{c} is called by {name} but comes after it in {order}"
    return None


def failing_entry(res: dict) -> dict | None:
    raised = [e for e in res.get("log", []) if "raised" in e]
    return max(raised, key=lambda e: e["depth"]) if raised else None


class Eval:
    """everything the check says about one case; `requests` go to the Lean driver, `finish` reads the replies"""

    def __init__(self, case: dict, res: dict, inl_res: dict | None = None):
        self.case = case
        self.res = res
        self.inl_res = inl_res          # compile result of the textually inlined, macro-free program (oracle i-b)
        self.sem_bad: list[dict] = []
        self.mm_bad: list[dict] = []
        self.mm_done = False
        self.violations: list[tuple[str, str]] = []   # (kind, what)
        self.ties: list[tuple[str, dict]] = []
        self.requests: list[dict] = []
        self.tags: list[tuple] = []
        self.stats: Counter = Counter()
        self.doc = doc_closure(case)
        self.compiled = isinstance(res, dict) and "ops" in res
        self._static()

    def v(self, kind: str, what: str) -> None:
        self.violations.append((kind, what))

    # -- oracles that need no Lean -------------------------------------------------------------------------------------
    def _static(self) -> None:
        case, res, doc = self.case, self.res, self.doc
        expect = case["expect"]
        if no_answer(res):
            self.stats["no_answer"] += 1
            kind = "macro_posmark_nested_hang" if G.predicts_posmark_hang(case["files"]) else "compile_no_answer"
            self.v(kind, f"compile gave no answer ({json.dumps(res)[:120]}) for {case['name']}")
            return
        err = res.get("error")
        self.stats["outcome:" + (err or "ok")] += 1
        doc_err = doc.get("error")
        if expect == "ok" and doc_err:
            self.ties.append(("generator/oracle disagreement: a layout generated as valid is invalid by the documented rules", {"case": case, "doc": doc_err}))
            return
        if expect in ("missing", "cycle", "routines_in_import", "dot_component"):
            if doc_err is None:
                self.ties.append(("generator/oracle disagreement: a layout generated as invalid is valid by the documented rules", {"case": case}))
            if err is None:
                self.v(f"invalid_layout_accepted:{expect}", f"layout with defect '{expect}' compiled without error")
            elif err != "SsbCompilerError":
                self.v(f"invalid_layout_wrong_error:{expect}:{err}", f"layout with defect '{expect}' raised {err}: {res.get('msg')}")
            return
        if expect == "macro_cycle":
            if err != "SsbCompilerError":
                self.v("macro_cycle_not_rejected", f"cyclic macro definitions gave {err or 'a compiled program'}")
            return
        if expect == "too_few_args":
            if err not in ("ValueError", "SsbCompilerError"):
                self.v("too_few_args_not_rejected", f"macro call with too few arguments gave {err or 'a compiled program'}")
            return
        if expect == "dir_candidate":
            if err == "IsADirectoryError":
                self.v("import_candidate_is_directory", f"a directory named like the import in an earlier lookup path is taken for the file: {res.get('msg')}")
                return
            if err is not None and err != "SsbCompilerError":
                self.v(f"invalid_layout_wrong_error:dir_candidate:{err}", str(res.get("msg")))
                return
            if err is not None:
                return
        # from here: the case is valid and must compile
        if err is not None:
            fe = failing_entry(res)
            why = None
            m = NOT_FOUND.match(res.get("msg") or "")
            if fe is not None and m and err == "SsbCompilerError":
                ast = case["files"].get(rel_of(fe["file"]))
                if ast is not None:
                    why = not_topological(fe, ast)
            if why:
                self.v("macro_order_not_topological", f"acyclic macros of {rel_of(fe['file'])} rejected with '{res.get('msg')}': {why}")  # type: ignore
            else:
                self.v(f"valid_program_rejected:{err}", f"{case['name']}: {err}: {res.get('msg')} at {res.get('site')}")
            return
        # (iii) files actually read == first existing candidates by the documented rules
        log = res.get("log", [])
        for k, e in enumerate(log):
            f = rel_of(e["file"])
            want = doc["resolved"].get(f)
            if want is None:
                self.v("import_reads_unexpected_file", f"{f} was compiled but is not among the files the documented rules select")
                continue
            got = [rel_of(p) for p in e.get("resolved", [])]
            subs = []
            for e2 in log[k + 1:]:
                if e2["depth"] <= e["depth"]:
                    break
                if e2["depth"] == e["depth"] + 1:
                    subs.append(rel_of(e2["file"]))
            if got != want or subs != want:
                shadow = any(len([1 for d in G.LOOKUP_DIRS if posixpath.join(d, w[len(d0) + 1:]) in case["files"]]) > 1
                             for w in want for d0 in G.LOOKUP_DIRS if w.startswith(d0 + "/"))
                self.v("import_wrong_file" + ("_shadowed_lookup" if shadow else ""),
                       f"{f}: imports {e.get('imports')} resolved to {got}, files read {subs}; documented rules select {want}")
        # macro path attribution (compiler.macros): reliable for the main file's macros and for directly imported files
        main = case["main"]
        direct = list(doc["resolved"][main])
        for name, (m_ast, f) in doc["visible"][main].items():
            got = res["macros"].get(name)
            if got is None:
                self.v("visible_macro_missing", f"macro {name} of {f} is not in compiler.macros")
                continue
            want_abs = ROOT + "/" + f
            want_rel = None if f == main else posixpath.relpath(f, posixpath.dirname(main))
            self.stats["macro_paths_checked"] += 1
            if got[0] == want_abs and (f == main or got[1] == want_rel):
                continue
            # `_macros_add_filenames` stamps every macro a directly imported file makes visible (its own AND those it imported
            # itself) with that file's path: the field documentation of ExplorerScriptMacro is not met for nested imports.
            # Not part of C05's statement (resolution is right, see the files-read oracle above); counted and noted only.
            via = [d for d in direct if d != f and name in doc["visible"].get(d, {})]
            if any(got[0] == ROOT + "/" + d and got[1] == posixpath.relpath(d, posixpath.dirname(main)) for d in via):
                self.stats["macro_of_nested_import_attributed_to_importing_file"] += 1
            else:
                self.v("macro_path_attribution", f"macro {name}: included paths {got}, expected {(want_abs, want_rel)}")
        # source-map macro entries name existing macros and the files they come from (relative to the main file)
        rels = {posixpath.relpath(f, posixpath.dirname(main)) for (_m, f) in doc["visible"][main].values() if f != main} | {None}
        for ent_file, ent_name, cnt in res.get("sm_macros") or []:
            if ent_name not in doc["visible"][main]:
                self.v("source_map_unknown_macro", f"a source map macro entry names {ent_name}")
            elif ent_file not in rels:
                self.v("source_map_unknown_file", f"a source map macro entry of {ent_name} names file {ent_file}")
            self.stats["source_map_macro_entries"] += cnt

    # -- requests --------------------------------------------------------------------------------------------------------
    def build_requests(self) -> None:
        case, res, doc = self.case, self.res, self.doc
        if no_answer(res):
            return
        if self.compiled and "error" not in doc and case["expect"] in ("ok", "dir_candidate"):
            self.requests += escommon.validate_requests([(core_program(case, doc), res["ops"])])
            self.tags.append(("beh",))
            if isinstance(self.inl_res, dict) and "ops" in self.inl_res:
                self.requests.append({"op": "beh.validate_mm", "a": res["ops"], "b": self.inl_res["ops"], "n": len(res["ops"])})
                self.tags.append(("mm_inline",))
            elif self.inl_res is not None:
                self.stats["inlined_program_not_compiled:" + str(self.inl_res.get("error") if isinstance(self.inl_res, dict) else "no_answer")] += 1
        # coverage of the theorem compile_correct_F5 (for ALL programs of the decidable fragment F5Prog of the compiler model): how many
        # of the compiled single-file programs are in it (`comp.tosrc`: F5Prog of the program lowered for the compiler model, and the
        # tie toSrc(that program) = the core program the verdicts above are about)
        if len(case["files"]) != 1 and ((self.compiled and "error" not in doc and case["expect"] == "ok")
                                        or (case["expect"] in FLATTEN_ERRORS and res.get("error") == "SsbCompilerError")):
            # projects with imports: the Lean model flattens the project to one program (ESV/Comp/Project.lean: import closure as
            # `_compile` walks it, recursion check, routines in imports, dict.update order) and compiles that; compared exactly
            # with the real multi-file result (ops, tables) / with the class of the layout error. `in_F6`: the flattened program
            # is in F5Prog, so compile_correct_F6 speaks about it.
            try:
                self.requests.append(flatten_request(case, res))
                self.tags.append(("f6",))
            except Exception:  # noqa
                self.stats["F6:not_lowered"] += 1
        if self.compiled and "error" not in doc and case["expect"] == "ok":
            if len(case["files"]) != 1:
                pass
            else:
                try:
                    from ..gen import complower
                    ast1 = case["files"][case["main"]]
                    self.requests.append({"op": "comp.tosrc", "prog": complower.program(ast1, res.get("macro_order")), "core": surface.lower_program(ast1)})
                    self.tags.append(("f5",))
                    # tie of the compiler model itself: its compile result = the real result, op for op (the views of C03)
                    self.requests.append({"op": "comp.compile", "prog": complower.program(ast1, res.get("macro_order"))})
                    self.tags.append(("f5c",))
                except Exception:  # noqa
                    self.stats["F5:not_lowered"] += 1
        for e in res.get("log", []):
            f = rel_of(e["file"])
            ast = case["files"].get(f)
            if ast is None:
                continue
            if e.get("imports"):   # nothing to resolve otherwise
                self.requests.append({"op": "macro.resolve", "exists": fake(res[EXISTS_FIELD]) + ([] if EXISTS_FIELD != "tree" else ["/", "/T"]), "cwd": res.get("cwd", "/"),
                                      "dir": fake(e["dir"]), "lookups": fake(e["lookup"]), "imports": fake(e["imports"])})
                self.tags.append(("resolve", e))
            if "in_macros" in e:
                self.requests.append(dict(G.abstract_input(ast, e["in_macros"]), op="macro.order"))
                self.tags.append(("order", e, f))

    # -- replies ---------------------------------------------------------------------------------------------------------
    def finish(self, replies: list[dict]) -> None:
        res = self.res
        fe = failing_entry(res) if isinstance(res, dict) else None
        for tag, rep in zip(self.tags, replies):
            if tag[0] == "f6":
                expect = self.case["expect"]
                if "error" in rep:
                    self.stats["F6:driver_error"] += 1
                elif expect in FLATTEN_ERRORS:
                    if rep.get("perr") == FLATTEN_ERRORS[expect]:
                        self.stats["F6:layout_error_agrees:" + expect] += 1
                    else:
                        self.ties.append(("correspondence C05/flatten: the real compiler rejects the layout, the model of the import closure says something else",
                                          {"case": self.case, "expect": expect, "model": {k: v for k, v in rep.items() if k != "result"}}))
                elif "perr" in rep:
                    self.stats["F6:flatten:" + str(rep["perr"])] += 1
                    if rep["perr"] != "nameClash":
                        self.ties.append(("correspondence C05/flatten: the real compiler accepts the layout, the model of the import closure rejects it",
                                          {"case": self.case, "model": rep}))
                elif model_view(rep.get("result", {})) == real_view(res):
                    self.stats["F6:flattened_model_result_equals_real"] += 1
                    if rep.get("f5"):
                        self.stats["in_F6"] += 1
                    else:
                        self.stats["not_F6:" + str(rep.get("f5why"))[:70]] += 1
                else:
                    self.stats["F6:flattened_model_result_differs"] += 1
                    self.ties.append(("correspondence C05/flatten: the model's compile result of the flattened project differs from the real multi-file result",
                                      {"case": self.case, "model": model_view(rep.get("result", {})), "real": real_view(res), "order": rep.get("order")}))
                continue
            if tag[0] == "f5c":
                from . import c03 as _c03
                if _c03.model_view(rep) == _c03.real_view(res):
                    self.stats["F5:model_result_equals_real"] += 1
                else:
                    self.stats["F5:model_result_differs"] += 1
                    self.ties.append(("correspondence C05/compile: the Lean compiler model (ESV.Comp.compile) and the real compiler give different results for a "
                                      "single-file program with macros", {"case": self.case, "model": _c03.model_view(rep), "real": _c03.real_view(res)}))
                continue
            if tag[0] == "f5":
                if "error" in rep:
                    self.stats["F5:driver_error"] += 1
                elif rep.get("agree") is not True:
                    self.stats["F5:tosrc_differs"] += 1
                    self.ties.append(("toSrc of the compiler model's input differs from the core program lowered for the language semantics", {"case": self.case}))
                elif rep.get("f5"):
                    self.stats["in_F5"] += 1
                    if rep.get("f4"):
                        self.stats["in_F5_without_macros"] += 1
                else:
                    self.stats["not_F5:" + str(rep.get("f5why"))[:70]] += 1
                continue
            if "error" in rep and tag[0] != "beh":
                self.ties.append((f"Lean driver rejected a {tag[0]} request: {rep['error']}", {"case": self.case}))
                continue
            if tag[0] == "beh":
                for vd in escommon.routine_verdicts(rep):
                    self.stats["verdict:" + vd["verdict"]] += 1
                    if vd["verdict"] in escommon.BAD_VERDICTS:
                        self.sem_bad.append(vd)
                    elif vd["verdict"] in ("budget", "driver-error"):
                        self.stats["validator_" + vd["verdict"]] += 1
            elif tag[0] == "mm_inline":
                self.mm_done = True
                for vd in escommon.routine_verdicts(rep):
                    self.stats["inline_mm:" + vd["verdict"]] += 1
                    if vd["verdict"] in escommon.BAD_VERDICTS:
                        self.mm_bad.append(vd)
            elif tag[0] == "resolve":
                e = tag[1]
                if "resolved" in e:
                    if rep.get("ok") != fake(e["resolved"]):
                        self.ties.append(("correspondence C05/resolve: _resolve_imported_file returned other paths than the Lean model",
                                          {"entry": e, "model": rep, "lookup": self.case.get("lookup")}))
                    self.stats["resolve_compared"] += 1
                elif "resolve_error" in e:
                    cls, msg = e["resolve_error"]
                    want = "invalid" if "Invalid import" in msg else ("notFound" if "was not found" in msg else "?")
                    if cls != "SsbCompilerError" or rep.get("err") != want:
                        self.ties.append(("correspondence C05/resolve: error of _resolve_imported_file differs from the Lean model", {"entry": e, "model": rep}))
                    self.stats["resolve_errors_compared"] += 1
            elif tag[0] == "order":
                e, f = tag[1], tag[2]
                self.stats["order_compared"] += 1
                if "order" in e:
                    if rep.get("order") != e["order"]:
                        self.ties.append(("correspondence C05/order: macro_resolution_order differs from the Lean model", {"file": f, "impl": e["order"], "model": rep}))
                    comp = rep.get("compile", {})
                    # informational: inputs the ordering of the pinned tree (ESV/Macro/Pinned.lean) would have ordered differently
                    self.stats["pinned_order_" + ("same" if rep.get("pinned_order") == rep.get("order") else "differs")] += 1
                    m = NOT_FOUND.match(res.get("msg") or "") if res.get("error") == "SsbCompilerError" else None
                    if fe is e:
                        if comp.get("err") == "SsbCompilerError" and "name" in comp:
                            if not m or m.group(1) not in comp.get("candidates", [comp["name"]]):
                                self.ties.append(("correspondence C05/order: model predicts 'Macro not found', the compiler says something else",
                                                  {"file": f, "impl": [res.get("error"), res.get("msg")], "model": comp}))
                        elif m or res.get("error") == "ValueError" and comp.get("err") == "ValueError":
                            # (a call written in a ROUTINE of the file raises the same message; only calls in macro bodies are the model's)
                            if m and any(m.group(1) in d[1] for d in G.abstract_input(self.case["files"][f], [])["defs"]):
                                self.ties.append(("correspondence C05/order: the compiler says 'Macro not found', the model does not", {"file": f, "impl": res.get("msg"), "model": comp}))
                    elif "raised" not in e and "ok" not in comp:
                        self.ties.append(("correspondence C05/order: the model predicts a failure for a file that compiled", {"file": f, "model": comp}))
                    defs = G.abstract_input(self.case["files"][f], [])["defs"]
                    if "ok" not in comp and all(c in [d[0] for d in defs] + e["in_macros"] for d in defs for c in d[1]):
                        self.ties.append(("model: closed acyclic input but compileMacros fails (instance of all_acyclic_compile fails)", {"file": f, "model": rep}))
                elif "order_error" in e:
                    # the message of this error is the string "None" on the pinned tree (util.f cannot evaluate v['name']),
                    # so the vertex the model names cannot be compared; the class and the fact are
                    named = e["order_error"][1]
                    if e["order_error"][0] != "SsbCompilerError" or rep.get("cycle") is None or (named not in ("None", rep.get("cycle")) and not named.startswith("Dependency")):
                        self.ties.append(("correspondence C05/order: cycle check differs from the Lean model", {"file": f, "impl": e["order_error"], "model": rep}))
                    self.stats["cycle_errors_compared"] += 1
        _classify_behaviour(self)


def _classify_behaviour(ev: "Eval") -> None:
    """(i-a) real ops vs the Lean semantics of the program with macros, (i-b) real ops vs the real ops of the textually
    inlined program.  A difference in (i-b) is a defect of macro expansion; a difference in (i-a) only, with (i-b) equal, is a
    defect of the compiler that shows without macros as well (C01's business, still a failing input of this property)."""
    name = ev.case["name"]
    for vd in ev.mm_bad:
        ev.v(behaviour_kind(ev.case), f"{name} routine {vd['r']}: compile(p) and compile(p with every call replaced by the body) behave differently: "
                                      f"{vd['verdict']} {vd.get('why', '')} after test outcomes {vd.get('path')}")
    if ev.mm_bad:
        return
    for vd in ev.sem_bad:
        what = f"{name} routine {vd['r']}: {vd['verdict']} {vd.get('why', '')} after test outcomes {vd.get('path')}"
        if ev.mm_done:
            ev.v("base_compiler_differs_also_without_macros", what + " (the macro-free inlined program compiles to equivalent code: not a defect of macro expansion)")
        else:
            ev.v(behaviour_kind(ev.case), what)


def behaviour_kind(case: dict) -> str:
    """named shape of a behavioural difference, from what the (shrunk) case contains"""
    feats = []
    ms = [m for ast in case["files"].values() for m in ast.get("macros", [])]
    sts = [s for m in ms for bl in G.blocks_of(m["body"]) for s in bl]
    if any(s["t"] in ("label", "jump", "call") for s in sts):
        feats.append("labels")
    if any(s["t"] == "ctrl" and s["k"] == "return" for s in sts):
        feats.append("return")
    if any(m["params"] for m in ms):
        feats.append("params")
    if any(s["t"] == "macrocall" for s in sts):
        feats.append("nested")
    if len(case["files"]) > 1:
        feats.append("imports")
    return "expansion_differs" + ("_" + "_".join(feats) if feats else "")


# ----------------------------------------------------------------------------------------------------------------------
# shrinking
# ----------------------------------------------------------------------------------------------------------------------
def case_candidates(case: dict) -> list[Callable[[dict], bool]]:
    cands: list[Callable[[dict], bool]] = []
    names = [(f, m["name"]) for f, ast in case["files"].items() for m in ast.get("macros", [])]
    for f, name in names:
        def drop_macro(c: dict, f: str = f, name: str = name) -> bool:
            ast = c["files"].get(f)
            if ast is None or not any(m["name"] == name for m in ast["macros"]):
                return False
            ast["macros"] = [m for m in ast["macros"] if m["name"] != name]
            ast.pop("order", None)
            for a in c["files"].values():
                for body in [m["body"] for m in a.get("macros", [])] + [r["body"] for r in a.get("routines", []) if r.get("body") is not None]:
                    for bl in G.blocks_of(body):
                        bl[:] = [s for s in bl if not (s["t"] == "macrocall" and s["name"] == name)]
            return True
        cands.append(drop_macro)

        def drop_param(c: dict, f: str = f, name: str = name) -> bool:
            ast = c["files"].get(f)
            ms = [m for m in (ast or {}).get("macros", []) if m["name"] == name]
            if not ms or not ms[0]["params"]:
                return False
            k = len(ms[0]["params"]) - 1
            ms[0]["params"].pop()
            for a in c["files"].values():
                for body in [m["body"] for m in a.get("macros", [])] + [r["body"] for r in a.get("routines", []) if r.get("body") is not None]:
                    for s in G.calls_in(body):
                        if s["name"] == name:
                            del s["args"][k:]
            return True
        cands.append(drop_param)
    for f in list(case["files"]):
        if f != case["main"]:
            def drop_file(c: dict, f: str = f) -> bool:
                if f not in c["files"]:
                    return False
                del c["files"][f]
                for g, a in c["files"].items():
                    a["imports"] = [i for i in a.get("imports", []) if doc_resolve(dict(c, files=dict(c["files"], **{f: {}})), g, i)[1] != f]
                return True
            cands.append(drop_file)
        ast = case["files"][f]
        for k in range(len(ast.get("imports", []))):
            def drop_import(c: dict, f: str = f, k: int = k) -> bool:
                a = c["files"].get(f)
                if a is None or k >= len(a.get("imports", [])):
                    return False
                del a["imports"][k]
                return True
            cands.append(drop_import)
        n_inner = len(escommon._candidates(dict(ast, routines=ast.get("routines", []))))
        for k in range(n_inner):
            def inner(c: dict, f: str = f, k: int = k) -> bool:
                a = c["files"].get(f)
                if a is None:
                    return False
                cs = escommon._candidates(a)
                if k >= len(cs):
                    return False
                a.pop("order", None)
                return bool(cs[k](a))
            cands.append(inner)
    if case.get("lookup"):
        def drop_lookup(c: dict) -> bool:
            if not c.get("lookup"):
                return False
            c["lookup"] = c["lookup"][:-1]
            return True
        cands.append(drop_lookup)
    return cands


def shrink_case(case: dict, still_fails: Callable[[dict], bool], budget: int = 120) -> dict:
    cur = copy.deepcopy(case)
    evals = 0
    progress = True
    while progress and evals < budget:
        progress = False
        cands = case_candidates(cur)
        i = 0
        while i < len(cands) and evals < budget:
            trial = copy.deepcopy(cur)
            try:
                ok = cands[i](trial)
            except Exception:
                ok = False
            # a function body needs at least one statement: such trials are not programs
            if ok and any(not m["body"] for a in trial["files"].values() for m in a.get("macros", [])):
                ok = False
            if ok and any(r.get("body") == [] for a in trial["files"].values() for r in a.get("routines", [])):
                ok = False
            if ok:
                evals += 1
                try:
                    if still_fails(trial):
                        cur = trial
                        progress = True
                        cands = case_candidates(cur)
                        continue
                except Exception:
                    pass
            i += 1
    return cur


def resolve_fuzz(pool: core.Pool, drv: core.Driver, rnd: Any, n: int, run_id: str, stats: Counter) -> list[tuple[str, dict]]:
    """correspondence of lean/ESV/Macro/Import.lean with the real `_resolve_imported_file` on odd path spellings"""
    fcs = [dict(G.resolve_fuzz_case(rnd), run=run_id) for _ in range(n)]
    outs = pool.map("harness.impl_es:resolve_many", fcs, timeout=60.0)
    reqs, tags = [], []
    for fc, o in zip(fcs, outs):
        if not isinstance(o, dict) or "answers" not in o:
            stats["resolve_fuzz_no_answer"] += 1
            continue
        for q, a in zip(fc["queries"], o["answers"]):
            reqs.append({"op": "macro.resolve", "exists": fake(o[EXISTS_FIELD]) + ([] if EXISTS_FIELD != "tree" else ["/", "/T"]), "cwd": o.get("cwd", "/"), "dir": fake(q["dir"]),
                         "lookups": fake(q["lookup"]), "imports": fake(q["imports"])})
            tags.append((fc, q, a))
    ties: list[tuple[str, dict]] = []
    for (fc, q, a), rep in zip(tags, drv.batch(reqs) if reqs else []):
        stats["resolve_fuzz_queries"] += 1
        if "ok" in a:
            stats["resolve_fuzz_ok"] += 1
            good = rep.get("ok") == fake_out(a["ok"])
        else:
            stats["resolve_fuzz_" + a["err"]] += 1
            want = "invalid" if "Invalid import" in a.get("msg", "") else ("notFound" if "was not found" in a.get("msg", "") else "?")
            good = a["err"] == "SsbCompilerError" and rep.get("err") == want
        if not good:
            ties.append(("correspondence C05/resolve (direct queries): _resolve_imported_file and the Lean model differ",
                         {"files": fc["files"], "dirs": fc["dirs"], "query": q, "impl": a, "model": rep}))
    return ties


def evaluate_single(case: dict, pool: core.Pool, drv: core.Driver | None, run_id: str) -> Eval:
    rs, irs = run_with_inline(pool, [case], run_id, timeout=40.0)
    ev = Eval(case, rs[0], irs[0])
    if drv is not None:
        ev.build_requests()
        ev.finish(drv.batch(ev.requests) if ev.requests else [])
    return ev


# ----------------------------------------------------------------------------------------------------------------------
def run(run: core.Run) -> int:
    quick = run.tier == "quick"
    run_id = f"{os.getpid()}"
    prep = core.lean_prepare(MODULES)
    aud = core.audit(THEOREMS, MODULES) if prep["proofs_ok"] else {"obligations": len(THEOREMS), "discharged": 0, "ok": False, "theorems": {}}
    jobs = core.jobs_for(run.tier)
    rng = run.rng
    gstats: dict = {}
    # ---- cases ----------------------------------------------------------------------------------------------------------
    fixed = G.fixed_cases() + G.error_cases(rng)
    groups = G.dag_groups(4, rng) if quick else G.dag_groups(5, rng)
    if not quick:
        # 6-9 macros: the shapes are not enumerated (too many); random DAGs with 12 sampled orders each
        for n in (6, 7, 8, 9):
            for k in range(6):
                calls = G.random_dag(rng, n, rng.choice([0.2, 0.4, 0.6]))
                perms = [list(range(n))] + [rng.sample(range(n), n) for _ in range(11)]
                groups.append({"shape": calls, "info": G.shape_info(calls), "n": n,
                               "cases": [G.single_file_case(G.plain_dag_program(calls, p), f"dag{n}.r{k}.{i}", ["dag"]) for i, p in enumerate(perms)]})
    for g in groups:
        g["dag"] = True
    n_rich, n_layout, n_invalid, n_posnest = (220, 200, 84, 4) if quick else (4000, 3000, 900, 12)
    rich_groups = []
    for i in range(n_rich):
        c = G.rich_case(rng, run.tier, gstats, allow_pos_nested=True, idx=i)   # Position literals + nested macros: hang repaired by 1dfd06a
        vs = G.order_variants(c, rng, 3 if quick else 5) if i % 3 == 0 else []
        rich_groups.append({"cases": [c] + vs, "n": len(c["files"][c["main"]]["macros"]), "rich": True})
    layouts = [G.layout_case(rng, i, gstats) for i in range(n_layout)]
    kinds = ["missing", "cycle", "routines_in_import", "dot_component", "lookup_empty", "dir_candidate"]
    invalid = [G.layout_case(rng, n_layout + i, gstats, kinds[i % len(kinds)]) for i in range(n_invalid)]
    # Position literals + nested macros of one file (shape of known finding macro_posmark_nested_hang): few cases, own small pool
    posnest = [G.posmark_hang_witness()]
    for i in range(40 * n_posnest):
        if len(posnest) > n_posnest:
            break
        c = G.rich_case(rng, run.tier, {}, allow_pos_nested=True, idx=10**6 + i)
        if G.predicts_posmark_hang(c["files"]):
            posnest.append(c)

    all_groups = [{"cases": [c], "n": 0} for c in fixed] + rich_groups + [{"cases": [c], "n": 0} for c in layouts + invalid] + groups
    n_cases = sum(len(g["cases"]) for g in all_groups)
    core.log(f"[C05] {n_cases} cases ({sum(len(g['cases']) for g in groups)} DAG x order, {sum(len(g['cases']) for g in rich_groups)} rich, "
             f"{len(layouts)} layouts, {len(invalid)} invalid layouts, {len(posnest)} posmark-nested) jobs={jobs}")
    pool = core.Pool(jobs)
    small_pool = core.Pool(min(jobs, 4), mem_mb=700)
    drv = core.Driver() if prep["driver_ok"] else None
    known_kinds = {k["kind"] for k in run.known}
    stats: Counter = Counter()
    shapes_failing: Counter = Counter()
    tally = {"viol": 0, "ties": 0, "compiled": 0, "evals": 0}
    nontrivial: set = set()
    samples: list[dict] = []

    def report(evs: list[Eval]) -> None:
        for ev in evs:
            tally["evals"] += 1
            stats.update(ev.stats)
            if ev.compiled:
                tally["compiled"] += 1
                c = ev.case
                if len(c["files"]) > 1 or any(G.calls_in(m["body"]) for a in c["files"].values() for m in a.get("macros", [])):
                    nontrivial.add(c["name"] if "dag" in c["tags"] else hashlib.sha256(json.dumps(c["files"], sort_keys=True).encode()).hexdigest())
                want = "rich" if not samples else ("layout" if len(samples) == 1 else None)
                if want and want in c["tags"] and (want == "rich" or len(c["files"]) > 2):
                    samples.append({"name": c["name"], "texts": print_case(c, "sample")["files"], "lookup": c.get("lookup")})
            for what, detail in ev.ties:
                tally["ties"] += 1
                if tally["ties"] <= 3:
                    run.broken_tie(what, detail)
            for kind, what in ev.violations:
                tally["viol"] += 1
                stats["violation:" + kind] += 1
                replay = {"case": ev.case, "impl": {k: v for k, v in ev.res.items() if k in ("error", "msg", "site", "ops", "macro_order")} if isinstance(ev.res, dict) else ev.res}
                if kind in known_kinds or sum(1 for v in run.violations if not v.get("nofail")) >= 3 or kind.startswith("compile_no_answer"):
                    run.violation(kind, what, replay)
                    continue
                # unknown kind: shrink, then report what the shrunk case shows
                # the shrunk case must fail in the same way: same kind (behavioural kinds: same family, the feature suffix may shrink)
                base = "expansion_differs" if kind.startswith("expansion_differs") else kind

                sig = (ev.res.get("site"), (ev.res.get("msg") or "")[:25]) if isinstance(ev.res, dict) and kind.startswith("valid_program_rejected") else None

                def still(c: dict, base: str = base, sig: Any = sig) -> bool:
                    e = evaluate_single(c, pool, drv, run_id)
                    if sig is not None and (not isinstance(e.res, dict) or (e.res.get("site"), (e.res.get("msg") or "")[:25]) != sig):
                        return False      # rejected for another reason (e.g. the shrinker removed a definition that is still used)
                    return any((k.startswith(base) if base == "expansion_differs" else k == base) for k, _ in e.violations)
                small = shrink_case(ev.case, still, budget=100 if quick else 300)
                se = evaluate_single(small, pool, drv, run_id)
                sv = [x for x in se.violations if (x[0].startswith(base) if base == "expansion_differs" else x[0] == base)] or [(kind, what)]
                run.violation(sv[0][0], sv[0][1], {"case": small, "texts": print_case(small, "replay")["files"],
                                                   "impl": {k: v for k, v in se.res.items() if k in ("error", "msg", "site", "ops", "macro_order")},
                                                   "original_case": ev.case["name"]})

    def process(batch: list[dict]) -> None:
        """compile, evaluate and report the cases of some groups; nothing of a batch is kept afterwards"""
        cases = [c for g in batch for c in g["cases"]]
        results, inl_results = run_with_inline(pool, cases, run_id)
        evs = [Eval(c, r, ir) for c, r, ir in zip(cases, results, inl_results)]
        if drv is not None:
            reqs: list[dict] = []
            for ev in evs:
                ev.build_requests()
                reqs += ev.requests
            # (ii) order oracle: all permutations compile (checked per case) and are pairwise behaviourally equal
            mm: list[tuple[dict, Eval, Eval]] = []
            k = 0
            for g in batch:
                gevs = evs[k:k + len(g["cases"])]
                k += len(g["cases"])
                ok = [e for e in gevs if e.compiled]
                for e in ok[1:]:
                    mm.append(({"op": "beh.validate_mm", "a": ok[0].res["ops"], "b": e.res["ops"], "n": len(ok[0].res["ops"])}, ok[0], e))
            reps = drv.batch_parallel(reqs + [m[0] for m in mm], jobs)
            pos = 0
            for ev in evs:
                ev.finish(reps[pos:pos + len(ev.requests)])
                pos += len(ev.requests)
                ev.requests = []
            for (_rq, e0, e1), rep in zip(mm, reps[pos:]):
                for vd in escommon.routine_verdicts(rep):
                    e1.stats["mm:" + vd["verdict"]] += 1
                    if vd["verdict"] in escommon.BAD_VERDICTS:
                        e1.v("definition_order_changes_behaviour", f"{e0.case['name']} and {e1.case['name']} differ only in the definition order of the macros; routine {vd['r']}: {vd['verdict']} {vd.get('why', '')}")
        report(evs)
        # which DAG shapes have an order that does not compile
        k = 0
        for g in batch:
            gevs = evs[k:k + len(g["cases"])]
            k += len(g["cases"])
            if not g.get("dag"):
                continue
            bad = sum(1 for e in gevs if any(kd == "macro_order_not_topological" for kd, _ in e.violations))
            if bad:
                shapes_failing[f"n={g['n']}"] += 1
                stats["orders_not_compiling"] += bad
            stats[f"orders_tried_n{g['n']}"] += len(g["cases"])
            for key in ("chain", "diamond", "shared_callee", "multi_callee", "unequal_paths"):
                if g["info"][key]:
                    stats["dag_shape_" + key] += 1
            stats[f"dag_depth_{g['info']['depth']}"] += 1
            if bad and not g["info"]["unequal_paths"]:
                stats["orders_fail_although_all_call_chains_have_equal_length"] += 1

    try:
        pos_results = run_cases(small_pool, posnest, run_id, chunk=1, timeout=12.0, retry=False)
        small_pool.close()
        pevs = [Eval(c, r, None) for c, r in zip(posnest, pos_results)]
        if drv is not None:
            for ev in pevs:
                ev.build_requests()
                ev.finish(drv.batch(ev.requests) if ev.requests else [])
        report(pevs)
        if drv is not None:
            for what, detail in resolve_fuzz(pool, drv, rng, 60 if quick else 1500, run_id, stats):
                tally["ties"] += 1
                if tally["ties"] <= 3:
                    run.broken_tie(what, detail)
        batch: list[dict] = []
        size = 0
        for g in all_groups:
            batch.append(g)
            size += len(g["cases"])
            if size >= 2500:
                process(batch)
                batch, size = [], 0
        if batch:
            process(batch)
    finally:
        pool.close()
        small_pool.close()
        left = cleanup_tmp(run_id)
    if left:
        run.notes.append(f"{left} temporary directories of killed workers removed")
    # glue cross-check on a sample of single-file programs: the repo's parser sees the AST that was generated
    glue_bad = 0
    try:
        from .. import astdump
        for g in rich_groups[:120]:
            c = g["cases"][0]
            ast = c["files"][c["main"]]
            text = surface.print_program(ast)[0]
            try:
                d = astdump.strip_hints(astdump.dump_text(text))
            except Exception:
                continue   # programs the parser rejects are counted by the oracle
            want = astdump.strip_hints(dict(copy.deepcopy(ast), macros=G.printed_macros(ast)))
            want.pop("order", None)
            if d != want:
                glue_bad += 1
                if glue_bad <= 1:
                    run.broken_tie("printer/astdump glue: parsed AST differs from generated AST", {"text": text})
    except Exception as e:  # noqa
        run.notes.append(f"glue cross-check skipped: {e}")
    if not prep["proofs_ok"] or not aud["ok"] or not prep["driver_ok"]:
        run.broken_tie("Lean obligations of C05 do not check (build/audit)", {"theorems": THEOREMS, "log": prep["log"][-3000:], "audit": {k: v for k, v in aud.items() if k != "theorems"}})
    if not quick and prep["proofs_ok"]:
        ok, out = core.leanchecker(MODULES + ["ESV.Macro.Order", "ESV.Macro.OrderLemmas", "ESV.Macro.OrderThms", "ESV.Macro.Pinned", "ESV.Macro.Import"])
        stats["leanchecker_ok"] = int(ok)
        if not ok:
            run.broken_tie("leanchecker rejects the C05 modules", {"log": out})
    cov = {
        "programs": tally["compiled"], "disagreements_checked": tally["viol"],
        "samples": samples or [{"name": fixed[0]["name"], "texts": print_case(fixed[0], "sample")["files"]}],
        "evaluations": tally["evals"], "distinct_nontrivial": len(nontrivial),
        "rule": "three families + fixed cases: (1) every isomorphism class of acyclic call graphs with <= 4 (thorough: <= 5, plus random graphs with 6-9) macros x every "
                "definition order (thorough >5: 12 sampled orders) x reversed call order, plain bodies; (2) random DAGs with ProgGen bodies (labels with the same names in every macro and "
                "the routine, return nested in if/loops, loops, switches), argument kinds int/const/game variable/string/language string/position mark/decimal/own parameter, "
                "shadowing parameter names, too many arguments, calls in blocks, repeated calls, + sampled other definition orders; (3) macros spread over 2-5 files in temporary "
                "directories: relative ./ ../, absolute, lookup-path imports with 1-3 lookup paths, the same file name in several lookup directories, nested and diamond imports, "
                "relative lookup paths; invalid layouts (missing file, import cycle, routines in an imported file, ./.. components, empty lookup list, directory as candidate); "
                "cyclic macro sets and too-few-argument calls. Every valid case outside family 1 (family 1: two orders per shape) is also compiled in textually inlined form. "
                "non-trivial = compiled and has a macro calling a macro or more than one file; distinct by AST (family 1: by shape/call order/definition order)",
        "obligations": aud["obligations"], "discharged": aud["discharged"] if prep["proofs_ok"] else 0,
        "checker_cmd": "lake build ESV.Props.C05; esvdrive beh.validate / beh.validate_mm (search + verified check), macro.order, macro.resolve",
        "trusted_base": ["Lean 4.33 kernel + propext/Classical.choice/Quot.sound", "Lean compiler for executing the validator and the models in the driver",
                         "harness lowering table harness/gen/surface.py and printer (cross-checked against the repo's parser on a sample)",
                         "harness textual inliner (harness/gen/macros_c05.py:Inliner) for the metamorphic oracle",
                         "harness reading of the import rules of docs/language_spec.rst (doc_resolve)", "igraph is modelled as used (vertex creation order = order of first mention, in_edges, get_all_simple_paths), compared on every run"],
        "theorems": THEOREMS, "axioms": aud.get("theorems", {}), "tables": prep.get("tables"),
        "outcomes": {k: v for k, v in sorted(stats.items())}, "generator": gstats,
        "dag_shapes": {"groups": len(groups), "shapes_with_an_order_that_does_not_compile": dict(shapes_failing)},
        "glue_mismatches": glue_bad, "correspondence_mismatches": tally["ties"],
    }
    return run.finish("proof", cov, [
        "the reference 'program with every call replaced by the body' is Stmt.macroCall of lean/ESV/Src/Sem.lean: parameters are substituted after lowering "
        "(a parameter receiving $PERFORMANCE_PROGRESS_LIST does not change the opcode chosen for `$p[i]`), the innermost binding wins, names of the caller's "
        "parameters occurring free in a callee are captured (as inner-first textual inlining does)",
        "parameters used in integer-like positions only receive integer-like arguments (otherwise the inlined text would not be a program)",
        "imported files import what they use themselves; macro names are unique across files except for shadowed lookup variants",
        "relative lookup paths are taken relative to the importing file's directory (what the code does; the documentation is silent)",
        "behaviour: compile_correct_F5 / _F6 are theorems about the hand-written compiler model ESV.Comp (+ Project flattening), tied to the real compiler by exact "
        "comparison of compile results on every generated single-file program and multi-file layout of this run (outcomes F5:model_result_equals_real, "
        "F6:flattened_model_result_equals_real); programs outside the decidable fragment and everything the model does not cover are decided per program by the "
        "kernel-checked validator; ordering/imports: theorems about models tied by exact comparison",
    ])


def replay(run: core.Run, path: str) -> int:
    data = json.load(open(path))
    case = data["replay"].get("case")
    if not isinstance(case, dict) or "files" not in case:
        print("replay file carries no case (tie-only break):", data.get("what"))
        return 1
    core.lean_prepare([], need_driver=True)
    pool = core.Pool(1)
    run_id = f"r{os.getpid()}"
    try:
        ev = evaluate_single(case, pool, core.Driver(), run_id)
    finally:
        pool.close()
        cleanup_tmp(run_id)
    for f, t in print_case(case, "replay")["files"].items():
        print("#", f)
        print(t)
    known = {k["kind"] for k in run.known}
    bad = 0
    for kind, what in ev.violations:
        print("KNOWN-FINDING-REPLAY" if kind in known else "VIOLATION-REPLAY", kind, what)
        bad += kind not in known
    for what, _ in ev.ties:
        print("TIE-REPLAY", what)
        bad += 1
    if not ev.violations and not ev.ties:
        print("property holds on this input now")
    return 1 if bad else 0
