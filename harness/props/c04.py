"""C04 — every parameter value survives being printed and parsed again; literal spellings mean what the spec says.

Deciding method: Lean theorems ESV.C04.* about the model ESV/Lit/Model.lean (printers, readers, token rules).
Tie to /repo on every run:
  unit channel   the real functions (repr_string, str(param), ANTLR lexer's first token, singleline_/multiline_string_literal,
                 exps_int, SsbOpParamFixedPoint.from_str, parse_position_marker_arg, ...) vs the Lean functions, exactly;
  e2e channel    real op lists carrying the value -> both real decompilers, every printing context and nesting depth
                 -> both real compilers -> parameter compared field by field with the input (PROPERTY ORACLE) and with
                 the model's prediction; single substituted values (any value, classified at the indent the CONTEXT
                 prescribes, ctx_indent) and whole parameter lists inside the guards (several language strings per op, ...);
  parse side    literal spellings compiled by the real compilers vs an independent reading of docs/language_spec.rst.
A failing value is classified by a predicate on the VALUE (narrow kinds below); kinds are only used to match
known_findings.jsonl, so a failure on a value outside every listed class is reported as a violation."""
from __future__ import annotations

import itertools
import json
import os
import random
from fractions import Fraction
from typing import Any

from .. import core

MODULES = ["ESV.Props.C04", "ESV.Props.C04Exact"]
THEOREMS = ["ESV.C04." + t for t in [
    # print -> lex -> read, all values inside the guards, all indents, both quote preferences
    "read_repr_single", "tok_single_exact", "read_repr_fallback", "tok_fallback_exact", "read_repr_multi", "tok_multi_exact",
    "read_repr_string", "const_string_roundtrip", "langstring_roundtrip",
    # printing contexts: the indent (hence the guard) each context prescribes
    "guard_indent_pos", "ctxIndent_pos", "const_string_roundtrip_ctx", "langstring_value_roundtrip_ctx", "switch_header_counterexample",
    # the excluded classes (concrete witnesses) and the exactness examples
    "trailing_backslash_counterexample", "backslash_before_delimiting_quote_counterexample",
    "backslash_before_other_quote_counterexample", "backslash_n_counterexample", "cr_ff_counterexample", "backslash_elsewhere_ok",
    "both_triple_quotes_ok", "both_triple_quotes_counterexample", "all_lines_indented_counterexample",
    "other_linebreak_counterexample", "trailing_blank_line_indent0_counterexample", "guard_exact_small",
    # spec side
    "spec_example_single", "spec_example_multi_a", "spec_example_multi_b", "dedent_rules", "multi_keeps_backslash_n", "spec_departures",
    # numbers, position marks, dungeon mode
    "int_roundtrip", "int_bases", "int_zeros", "fixed_roundtrip", "fixed_normal_form", "fixed_empty_fraction_counterexample",
    "posarg_roundtrip", "posarg_exact_iff", "posmark_roundtrip", "posmark_name_counterexample", "posarg_leading_zero_fraction",
    "dmode_roundtrip", "dmode_values", "dmode_other",
]]

DM = ["DM_CLOSE", "DM_OPEN", "DM_REQUEST", "DM_OPEN_REQUEST"]


# ---------------------------------------------------------------------------------------------------------------------
# classification of a value: which printed form, which named defect class (independent mirror of the Lean guards)
# ---------------------------------------------------------------------------------------------------------------------
def form_of(s: str, single: bool) -> tuple[str, str]:
    q, o = ("'", '"') if single else ('"', "'")
    if "\n" not in s:
        return "single", q
    if q * 3 in s:
        if o * 3 in s:
            return "fallback", q
        return "multi", o
    return "multi", q


def single_defects(s: str, q: str) -> list[str]:
    o = '"' if q == "'" else "'"
    kinds = []
    i = 0
    while i < len(s):
        c = s[i]
        if c == "\\":
            if i + 1 >= len(s):
                kinds.append("str_trailing_backslash")
                break
            if s[i + 1] == q:
                kinds.append("str_backslash_before_delimiting_quote")
                break
            i += 2
            continue
        if c == "\r":
            kinds.append("str_contains_cr")
            break
        if c == "\f":
            kinds.append("str_contains_ff")
            break
        i += 1
    if "\\" + o in s:
        kinds.append("str_backslash_before_other_quote")
    if "\\n" in s:
        kinds.append("str_backslash_n")
    return kinds


def multi_defects(s: str, indent: int) -> list[str]:
    kinds = []
    if "\r" in s:
        kinds.append("multiline_contains_cr")
    if "\x0b" in s or "\x0c" in s:
        kinds.append("multiline_contains_vt_or_ff")
    if any(c in s for c in "\x1c\x1d\x1e\x85\u2028\u2029"):
        kinds.append("multiline_contains_unicode_linebreak")
    lines = s.split("\n")
    if all(l[:1] == " " for l in lines):
        kinds.append("multiline_all_lines_indented")
    if indent == 0 and lines[-1].strip(" ") == "":
        kinds.append("multiline_trailing_blank_line_indent0")
    return kinds


def string_defects(s: str, indent: int, single: bool) -> list[str]:
    form, q = form_of(s, single)
    if form == "single":
        return single_defects(s, q)
    if form == "fallback":
        return ["both_triple_quotes_" + k for k in single_defects(s, q)]
    return multi_defects(s, indent)


_KEYWORDS: dict[str, set[str]] = {}


def grammar_keywords(lang: str | None = None) -> set[str]:
    """identifier-shaped literals of the generated lexers (read from the repo's .tokens files); lang: exps | ssbs | None = both"""
    if not _KEYWORDS:
        import re
        for key, fn in (("exps", "ExplorerScript.tokens"), ("ssbs", "SsbScript.tokens")):
            kws: set[str] = set()
            try:
                for line in open(os.path.join(core.REPO, "explorerscript", "antlr", fn), encoding="utf-8"):
                    m = re.match(r"^'([A-Za-z_][A-Za-z0-9_]*)'=\d+$", line.strip())
                    if m:
                        kws.add(m.group(1))
            except OSError:
                pass
            _KEYWORDS[key] = kws
    if lang is None:
        return _KEYWORDS["exps"] | _KEYWORDS["ssbs"]
    return _KEYWORDS[lang]


def param_defects(p: dict, indent: int | None, lang: str | None = None) -> list[str]:
    """named defect classes the VALUE falls into (empty = the property promises a faithful round trip)"""
    t = p["t"]
    if t == "str":
        return string_defects(p["v"], indent or 0, True)
    if t == "lang":
        out: list[str] = []
        for _k, v in p["v"]:
            out += string_defects(v, (indent or 0) + 1, False)
        return out
    if t == "pos":
        n = p["name"]
        # the name is printed between single quotes without any escaping
        if "'" in n or "\n" in n or single_defects(n, "'"):
            return ["posmark_name_needs_escape"]
        return []
    if t == "fixed":
        if p["fract"] == "":
            return ["fixed_empty_fraction"]
        return []
    if t == "const":
        if p["v"] in grammar_keywords(lang):
            return ["const_name_is_keyword"]
        return []
    return []


# ---------------------------------------------------------------------------------------------------------------------
# generators
# ---------------------------------------------------------------------------------------------------------------------
# (the last two: a LINE of a multi-line string that reads like a source-file attribute - text inside a literal is never one)
SAFE = ["a", "b", "n", "x y", "é", "日", ",", ")", "(", "{", "}", "=", ";", "//", "/*", "*/", "0", "\t", "ß", "#",
        "//?: is-ssb-script: true", "//?: is-ssb-script: 1"]
QUOTES = ["'", '"', "''", '""', "'''", '"""', "''''", "'\"'"]
NASTY = ["\\", "\\\\", "\\n", "\\'", '\\"', "\r", "\f", "\v", "\x85", "\u2028", "\u2029", "\x1c", "\x1d", "\x1e", "\r\n"]
BLANKS = ["", " ", "  ", "    ", "        ", "   "]


def gen_line(r: random.Random, nasty: float) -> str:
    parts = []
    for _ in range(r.choice([0, 1, 1, 2, 3])):
        c = r.random()
        if c < nasty:
            parts.append(r.choice(NASTY))
        elif c < nasty + 0.3:
            parts.append(r.choice(QUOTES))
        else:
            parts.append(r.choice(SAFE))
    return "".join(parts)


def gen_string(r: random.Random) -> str:
    mode = r.random()
    nasty = r.choice([0.0, 0.0, 0.0, 0.1, 0.3])
    if mode < 0.3:
        return r.choice(BLANKS[:3]) + gen_line(r, nasty) + r.choice(BLANKS[:3])
    if mode < 0.85:
        n = r.choice([2, 2, 3, 4, 6])
        common = r.choice(["", "", "", " ", "  "])
        lines = []
        for _ in range(n):
            k = r.random()
            if k < 0.12:
                lines.append("")
            elif k < 0.22:
                lines.append(r.choice(BLANKS))
            else:
                lines.append(common + r.choice(BLANKS[:4]) + gen_line(r, nasty) + r.choice(["", "", " ", "  "]))
        s = "\n".join(lines)
        if r.random() < 0.2:
            s += r.choice(["\n", "\n\n", "\n ", "\n    "])
        if r.random() < 0.12:
            s += r.choice(["'''", '"""'])
            if r.random() < 0.6:
                s = r.choice(['"""', "'''"]) + s
        return s
    return "".join(r.choice(SAFE + QUOTES + NASTY + ["\n", "\n", " ", "  "]) for _ in range(r.randint(0, 7)))


CORPUS_STRINGS = [
    "x\n//?: is-ssb-script: true\ny", "//?: is-ssb-script: true\nsecond line", "", "a", "it's", 'say "x"', "a\\", "a\\b", "x\\ny", "a\\'b", 'a\\"b', "a\\\\'b", "a\rb", "a\fb", "a\\\rb", "a\vb", "a\x85b",
    " a\n b", "a\n", "a\n ", "a\n\n", "\n", "\na", " \n", "a\rb\nc", "a\vb\nc", "a\x85b\nc", "a\u2028b\nc", "a\x1cb\nc",
    "'''\n\"\"\"", "'''\n\"\"\"\\", "'''\n\"\"\"\\n", "'''\n\"\"\"\\\n", "'''\nx", '"""\nx', "a\\\nb", "\ta\n\tb", "a\n  ",
    "  a\n\n  b", "''\nb", "a''\nb", "a'\n'b", "First Line\nSecond Line\n  Some indentation in the third line\nFourth Line",
    "'''\n\"\"\"\r", "'''\n\"\"\"\\'", "'''\n\"\"\"\\\"", " '''\n \"\"\"", "a\r\nb", "\\", "'", '"', "\\'", "\f\nx",
]

EXH_ALPHABET = ["'", '"', "\\", "\n", " ", "a", "n", "\r"]


def exhaustive_strings(maxlen: int) -> list[str]:
    out = []
    for n in range(maxlen + 1):
        for t in itertools.product(EXH_ALPHABET, repeat=n):
            out.append("".join(t))
    return out


def gen_int(r: random.Random) -> int:
    c = r.random()
    if c < 0.4:
        return r.randint(-20, 40)
    if c < 0.8:
        return r.randint(-0x4000, 0x3fff)
    return r.choice([2 ** 31, -2 ** 31, 10 ** 20, -10 ** 25, 2 ** 64 + 1, 0, -1])


def gen_digits(r: random.Random, allow_empty: bool = False) -> str:
    n = r.choice([0] if allow_empty and r.random() < 0.5 else [1, 1, 2, 3, 6])
    return "".join(r.choice("0123456789") for _ in range(n))


def gen_param(r: random.Random, kind: str) -> dict:
    if kind == "int":
        return {"t": "int", "v": gen_int(r)}
    if kind == "fixed":
        c = r.random()
        if c < 0.35:
            return {"t": "fixedf", "n": r.randint(-0x4000, 0x3fff)}
        whole = None if r.random() < 0.25 else gen_int(r)
        fract = r.choice(["0", "5", "50", "05", "0034", "250", "996"]) if r.random() < 0.5 else gen_digits(r, allow_empty=r.random() < 0.1)
        return {"t": "fixed", "whole": whole, "fract": fract}
    if kind == "const":
        if r.random() < 0.15:
            return {"t": "const", "v": r.choice(sorted(grammar_keywords()) or ["alias"])}
        return {"t": "const", "v": r.choice(["CONST", "$VAR", "$SCENARIO_MAIN", "x", "_a1", "ACTOR_PLAYER", "Z9_", "$a", "aliases", "iff", "Positions"])}
    if kind == "str":
        return {"t": "str", "v": gen_string(r)}
    if kind == "lang":
        langs = r.sample(["english", "french", "german", "italian", "spanish", "japanese", "_x1"], r.choice([1, 1, 2, 5]))
        return {"t": "lang", "v": [[l, gen_string(r)] for l in langs]}
    if kind == "pos":
        name = r.choice(["m0", "m1", "Mark", "a b", "ü", "", "m_2"]) if r.random() < 0.9 else r.choice(["it's", "a\\", "a\nb", 'q"', "a\\b"])
        return {"t": "pos", "name": name, "xo": r.choice([0, 2, 4, 0, 2]), "yo": r.choice([0, 2, 4, 0, 2]),
                "xr": r.choice([0, 1, 5, 63, -1, -7, 300, gen_int(r)]), "yr": r.choice([0, 2, 9, -3, gen_int(r)])}
    raise ValueError(kind)


CTX_FOR = {
    "int": ["arg", "arg2", "inlinectx", "case", "dmode", "switchhdr", "casetext_key", "menu2", "casevalue", "ctxtarget", "ctxtarget_with"],
    "fixed": ["arg", "arg2", "inlinectx"],
    "const": ["arg", "arg2", "inlinectx", "case", "switchhdr", "menu2", "casevalue", "ctxtarget", "ctxtarget_with"],
    "str": ["arg", "arg2", "inlinectx", "menu", "casetext", "defaulttext", "switchhdr"],
    "lang": ["arg", "arg2", "inlinectx", "menu", "casetext", "defaulttext", "switchhdr"],
    "pos": ["arg", "arg2", "inlinectx"],
}

# The indent a printing CONTEXT prescribes for a string parameter (own reading of the layout, not taken from the printer):
# the closing delimiter of a triple-quoted literal lines up with the line that carries the statement / header, i.e. the
# number of blocks around that line: routine body 1, every enclosing block +1; `case menu(...)` sits inside the braces of
# its switch (+1); a message-switch text sits inside the braces (+1) below its `case k:` (+1).  SsbScript is flat.
# The header `switch ( Op(<string>, 1, 2) )` sits on the line of its statement like an operation argument (before the /repo
# fix "sets the indent of string parameters in switch and if headers" it never set `.indent` and printed at 0, where a value
# with a blank last line is lost: known finding multiline_trailing_blank_line_indent0, now reachable only through a direct
# call with indent 0) -- a value with a blank last line that is lost in ANY printing context is unclassified.
LEAN_CTX = {"arg": "opArg", "arg2": "opArg", "inlinectx": "opArg", "menu": "menuHeader", "casetext": "msgText",
            "defaulttext": "msgText", "switchhdr": "switchHeader"}


def ctx_indent(ctx: str, depth: int, dec: str) -> int | None:
    if ctx not in LEAN_CTX:
        return None
    if dec == "ssbs":
        return 1
    return {"opArg": depth + 1, "menuHeader": depth + 2, "msgText": depth + 3, "switchHeader": depth + 1}[LEAN_CTX[ctx]]


def lean_ctx(ctx: str, dec: str) -> str:
    return "ssbsArg" if dec == "ssbs" else LEAN_CTX[ctx]


# ---------------------------------------------------------------------------------------------------------------------
# oracle (independent reading of the property on the implementation's real outputs)
# ---------------------------------------------------------------------------------------------------------------------
def expected_back(case: dict, inp_printed0: str | None) -> tuple[Any, str]:
    """what the recompiled parameter must be, as a wire value (and a description)"""
    p, ctx, dec = case["param"], case["ctx"], case["dec"]
    t = p["t"]
    if t == "int":
        if ctx == "dmode" and dec == "exps" and 0 <= p["v"] <= 3:
            return {"t": "const", "v": DM[p["v"]]}, "the configured dungeon-mode constant"
        return {"t": "int", "v": p["v"]}, "the same integer"
    if t in ("fixed", "fixedf"):
        return {"t": "fixed", "value": inp_printed0}, "a fixed-point number with the same value"
    if t == "pos":
        e = dict(p)
        e["xo"] = 2 if p["xo"] == 4 else p["xo"]      # documented: 2 or 4 both mean '.5'
        e["yo"] = 2 if p["yo"] == 4 else p["yo"]
        return e, "the same position mark (offset 4 reads back as 2)"
    return p, "the same value"


def oracle_e2e(case: dict, res: dict) -> tuple[str, str] | None:
    """None when the property holds on this case; else (kind, what)"""
    p = case["param"]
    where = f"{case['ctx']}@depth{case['depth']}/{case['dec']}"
    if "setup_err" in res:
        return None
    fail = None
    if "dec_err" in res:
        fail = f"decompiler raised {res['dec_err']}"
    elif "comp_err" in res:
        fail = f"printed text does not compile back: {res['comp_err']}"
    else:
        exp, desc = expected_back(case, res.get("printed0"))
        if res.get("back") != exp:
            fail = f"came back as {json.dumps(res.get('back'), ensure_ascii=True)[:160]}, expected {desc}"
    if fail is None:
        return None
    # the defect class is decided by the VALUE at the indent the CONTEXT prescribes (never by the indent the printer
    # happened to use: a context printed at a wrong indent must show up as a failure of a value inside the guards)
    kinds = param_defects(p, ctx_indent(case["ctx"], case["depth"], case["dec"]), case["dec"])
    kind = kinds[0] if kinds else f"unclassified_{p['t']}_{case['ctx']}"
    return kind, f"{json.dumps(p, ensure_ascii=True)[:200]} printed in {where}: {fail}"


# ---------------------------------------------------------------------------------------------------------------------
# whole parameter lists: several parameters per op, several ops per context (values inside the guards only, so that
# every failure is a failure of the property on a value it promises to keep)
# ---------------------------------------------------------------------------------------------------------------------
MCTX_OPS = {
    # context -> target ops in op order: (name, free arity?)
    "arg": [("zzprobe", True)],
    "inlinectx": [("zzprobe", True)],
    "switchhdr": [("ProcessSpecial", True)],
    "menu": [("CaseMenu", False), ("CaseMenu", False)],
    "casetext": [("CaseText", False), ("CaseText", False), ("DefaultText", False)],
}
MCTX_SINGLE = {"arg": "arg", "inlinectx": "inlinectx", "switchhdr": "switchhdr", "menu": "menu", "casetext": "casetext"}
LANGS = ["english", "french", "german", "italian", "spanish", "japanese", "_x1"]
PLAIN = ["Left", "Right", "Rechts", "Yes", "No", "it's", 'say "x"', "a b ", " lead", "x\ny", "x\n   ", "x\n", "two\n\nlines", "  a\nb  ",
         "ends\n ", "\nstarts", "'''\nx", '"""\nx\n', "é\n日"]


def gen_clean_string(r: random.Random, indent: int, single: bool) -> str:
    """a string inside the guard for (indent, quote preference)"""
    for _ in range(60):
        s = r.choice(PLAIN) if r.random() < 0.35 else gen_string(r)
        if not string_defects(s, indent, single):
            return s
    return "x"


def gen_clean_param(r: random.Random, kind: str, indent: int, dec: str) -> dict:
    if kind == "str":
        return {"t": "str", "v": gen_clean_string(r, indent, True)}
    for _ in range(60):
        p = gen_param(r, kind)
        if not param_defects(p, indent, dec):
            return p
    return {"t": "int", "v": 1}


def gen_lang_group(r: random.Random, k: int, indent: int) -> list[dict]:
    """k language strings whose language sets are equal / overlapping / nested / disjoint; the values of one language
    differ between the strings (a value taken from the wrong string is then visible)"""
    mode = r.choice(["same", "overlap", "overlap", "nested", "disjoint", "random"])
    pool = r.sample(LANGS, len(LANGS))
    sets: list[list[str]] = []
    if mode == "same":
        base = pool[:r.choice([1, 2, 3])]
        sets = [r.sample(base, len(base)) for _ in range(k)]
    elif mode == "overlap":
        common = pool[:r.choice([1, 2])]
        rest = pool[len(common):]
        for i in range(k):
            own = rest[i:i + r.choice([0, 1, 1])]
            ls = common + own
            sets.append(r.sample(ls, len(ls)))
    elif mode == "nested":
        for i in range(k):
            sets.append(pool[:i + 1] if r.random() < 0.5 else pool[:k - i])
    elif mode == "disjoint":
        for i in range(k):
            sets.append(pool[2 * i:2 * i + r.choice([1, 2])])
    else:
        sets = [r.sample(LANGS, r.choice([1, 2, 4])) for _ in range(k)]
    used: dict[str, set] = {}
    out = []
    for ls in sets:
        items = []
        for l in ls:
            v = gen_clean_string(r, indent + 1, False)
            for _ in range(20):
                if v not in used.setdefault(l, set()):
                    break
                v = gen_clean_string(r, indent + 1, False)
            used[l].add(v)
            items.append([l, v])
        out.append({"t": "lang", "v": items})
    return out


def gen_texts(r: random.Random, n: int, indent: int, dec: str) -> list[dict]:
    """n text parameters: a group of language strings, the rest constant strings, in random order"""
    k = min(n, r.choice([2, 2, 3, 3, 1, 0]))
    ps = gen_lang_group(r, k, indent) + [gen_clean_param(r, "str", indent, dec) for _ in range(n - k)]
    r.shuffle(ps)
    return ps


def gen_ops_case(r: random.Random, ctx: str, depth: int, dec: str) -> dict:
    indent = ctx_indent(MCTX_SINGLE[ctx], depth, dec) or 0
    if ctx in ("arg", "inlinectx", "switchhdr"):
        n_text = r.choice([2, 2, 3, 3, 4, 1])
        ps = gen_texts(r, n_text, indent, dec)
        extras = [gen_clean_param(r, r.choice(["fixed", "pos", "int", "const", "fixed", "pos"]), indent, dec) for _ in range(r.choice([0, 1, 2, 3]))]
        ps += extras
        r.shuffle(ps)
        ops = [ps]
    elif ctx == "menu":
        a, b = gen_texts(r, 2, indent, dec)
        ops = [[a], [b]]
    else:
        a, b, c = gen_texts(r, 3, indent, dec)
        key = lambda: gen_clean_param(r, r.choice(["int", "const"]), indent, dec)  # noqa: E731
        ops = [[key(), a], [key(), b], [c]]
    return {"ops": ops, "ctx": ctx, "depth": depth, "dec": dec}


def oracle_ops(case: dict, res: dict) -> tuple[str, str] | None:
    """property oracle on a whole-parameter-list case: every parameter of every target op comes back as it went in"""
    ctx, depth, dec = case["ctx"], case["depth"], case["dec"]
    if "setup_err" in res:
        return None
    where = f"{ctx}@depth{depth}/{dec}"
    fail = None
    culprit = None
    if "dec_err" in res:
        fail = f"decompiler raised {res['dec_err']}"
    elif "comp_err" in res:
        fail = f"printed text does not compile back: {res['comp_err']}"
    else:
        names = [n for n, _f in MCTX_OPS[ctx]]
        if res.get("back_names") != names:
            fail = f"target ops after recompiling are {res.get('back_names')}, expected {names}"
        else:
            for i, ((_n, free), plist, blist) in enumerate(zip(MCTX_OPS[ctx], case["ops"], res["back"])):
                if (len(blist) != len(plist)) if free else (len(blist) < len(plist)):
                    fail = f"op {i} came back with {len(blist)} parameters, {len(plist)} went in"
                    break
                for j, (p, b) in enumerate(zip(plist, blist)):
                    exp, desc = expected_back({"param": p, "ctx": ctx, "dec": dec}, res["printed0"][i][j])
                    if b != exp:
                        fail = (f"parameter {j} of op {i} ({json.dumps(p, ensure_ascii=True)[:160]}) came back as "
                                f"{json.dumps(b, ensure_ascii=True)[:160]}, expected {desc}")
                        culprit = p
                        break
                if fail:
                    break
    if fail is None:
        return None
    indent = ctx_indent(MCTX_SINGLE[ctx], depth, dec)
    kinds: list[str] = []
    for p in ([culprit] if culprit is not None else [p for plist in case["ops"] for p in plist]):
        kinds += param_defects(p, indent, dec)
    kind = kinds[0] if kinds else f"unclassified_oplist_{ctx}"
    return kind, f"parameter lists {json.dumps(case['ops'], ensure_ascii=True)[:300]} printed in {where}: {fail}"


# ---------------------------------------------------------------------------------------------------------------------
# spec side: independent readings of docs/language_spec.rst
# ---------------------------------------------------------------------------------------------------------------------
def spec_int(lit: str) -> int:
    neg = lit.startswith("-")
    u = lit[1:] if neg else lit
    base = 10
    if u[:2].lower() == "0x":
        base, u = 16, u[2:]
    elif u[:2].lower() == "0o":
        base, u = 8, u[2:]
    elif u[:2].lower() == "0b":
        base, u = 2, u[2:]
    v = 0
    for ch in u:
        v = v * base + "0123456789abcdef".index(ch.lower())
    return -v if neg else v


def spec_multiline(body: str) -> str:
    """the five rules of the spec, for bodies whose only line break is \\n and whose indentation is blanks"""
    lines = body.split("\n")
    first, rest = lines[0], lines[1:]
    if rest and rest[-1].strip(" ") == "":
        rest = rest[:-1]                                   # last line only whitespace: removed
    m = min((len(l) - len(l.lstrip(" ")) for l in rest), default=0)
    rest = [l[m:] for l in rest]
    out = ([first] if first != "" else []) + rest          # empty first line is removed
    return "\n".join(out)


def spec_single(body: str) -> str:
    """single-line strings: \\n inserts a newline, \\' and \\" give the quote (tests/compiler/string_test.py)"""
    return body.replace('\\"', '"').replace("\\'", "'").replace("\\n", "\n")


INT_SPELLINGS = ["0", "00", "0000", "-0", "-000", "7", "12", "-12", "123456789012345678901234567890", "0x12", "0X1f", "-0xFf", "0x00a",
                 "0xABCDEF", "0xabcdef", "0o7", "0O17", "-0o777", "0o007", "0b110", "0B0", "-0b1", "0b0001", "32767", "-32768"]
DEC_SPELLINGS = [".12", "1.12", "-.12", "-1.12", "12.34", "-12.34", "12.0034", "-0.0034", "000000.123", "-000000.0034", "10.0", "0.10",
                 "007.250", "0.0", "-0.0", "-00.0", ".5", "-.5", "-007.5", "100.001", "-100.100", "0.5", ".0", "-.0"]
POS_SPELLINGS = ["5", "-5", "0", "0x10", "5.5", "5.50", "5.500", "5.0", "5.00", ".5", "0.5", "-3.5", "-3.0", "12.5", "5.05", "5.005",
                 "5.25", "5.55", "5.15", ".0", ".50", "-.5", "-0.5", "007.5", "00", "0b11"]


def gen_int_spelling(r: random.Random) -> str:
    sign = r.choice(["", "", "-"])
    k = r.random()
    if k < 0.35:
        return sign + (str(r.randint(1, 10 ** r.choice([1, 3, 6, 12]))) if r.random() < 0.8 else "0" * r.randint(1, 4))
    if k < 0.6:
        d = "".join(r.choice("0123456789abcdefABCDEF") for _ in range(r.randint(1, 8)))
        return sign + r.choice(["0x", "0X"]) + d
    if k < 0.8:
        return sign + r.choice(["0o", "0O"]) + "".join(r.choice("01234567") for _ in range(r.randint(1, 8)))
    return sign + r.choice(["0b", "0B"]) + "".join(r.choice("01") for _ in range(r.randint(1, 12)))


def gen_dec_spelling(r: random.Random) -> str:
    sign = r.choice(["", "", "-"])
    whole = r.choice(["", "0", "00", "000"]) + (r.choice(["", "", str(r.randint(1, 9999)), str(r.randint(1, 9)) + "0" * r.randint(1, 3)]))
    frac = gen_digits(r)
    return sign + whole + "." + frac


def gen_junk_number(r: random.Random) -> str:
    return r.choice(["", "-", "0x", "0b2", "0o8", "012", "1_0", "+5", " 5", "5 ", "1.", ".", "1.2.3", "0x1g", "--1", "1e5", "-.", "08", "1..2",
                     "0xx1", "abc", "1-", "00x1", "٣"])


# string literal spellings (token text) for the parse side
def gen_single_spelling(r: random.Random) -> str:
    q = r.choice("'\"")
    body = "".join(r.choice(["a", "b", " ", "n", "\\n", "\\'", '\\"', "\\\\", "\\a", "'" if q == '"' else '"', "é", "\t", "\\"])
                   for _ in range(r.randint(0, 8)))
    return q + body + q


def gen_multi_spelling(r: random.Random) -> str:
    q = r.choice(["'''", '"""'])
    n = r.choice([1, 2, 3, 4, 5])
    base = r.choice(["", "  ", "    ", "      "])
    lines = []
    for i in range(n):
        k = r.random()
        if k < 0.15:
            lines.append("")
        elif k < 0.25:
            lines.append(r.choice(BLANKS))
        else:
            lines.append(base + r.choice(["", "", " ", "  "]) + r.choice(["x", "First Line", "a b", "\\n", "'", '"', "it's", "é"]) + r.choice(["", " "]))
    if r.random() < 0.3:
        lines[0] = r.choice(["", "First", "  lead"])
    if r.random() < 0.5:
        lines.append(r.choice(BLANKS))
    body = "\n".join(lines)
    if q[0] * 3 in body:
        body = body.replace(q[0] * 3, "")
    if body.endswith(q[0]):
        body += " "
    return q + body + q


SPEC_DOC = "First Line\nSecond Line\n  Some indentation in the third line\nFourth Line"
SPEC_SPELLINGS = [
    ('"First Line\\nSecond Line\\n  Some indentation in the third line\\nFourth Line"', SPEC_DOC),
    ("'''First Line\n      Second Line\n        Some indentation in the third line\n      Fourth Line\n                  '''", SPEC_DOC),
    ('"""\n      First Line\n      Second Line\n        Some indentation in the third line\n      Fourth Line"""', SPEC_DOC),
    ('"""\n    This is a multiline string.\n    It can span multiple lines.\n    """', "This is a multiline string.\nIt can span multiple lines."),
    ("'Hello World'", "Hello World"), ('"Hello World"', "Hello World"),
    ('"""X\\nY"""', "X\\nY"),
]


# ---------------------------------------------------------------------------------------------------------------------
# the run
# ---------------------------------------------------------------------------------------------------------------------
def _chunks(xs: list, n: int) -> list[list]:
    return [xs[i:i + n] for i in range(0, len(xs), n)]


def _pool_map(pool: core.Pool, fn: str, cases: list, chunk: int, timeout: float) -> list:
    chs = _chunks(cases, chunk)
    outs = pool.map(fn, chs, timeout=timeout)
    res: list = []
    for ch, o in zip(chs, outs):
        if isinstance(o, list) and len(o) == len(ch):
            res += o
        else:
            res += [{"__worker__": json.dumps(o, default=str)[:300]} for _ in ch]
    return res


def run(run: core.Run) -> int:
    quick = run.tier == "quick"
    r = run.rng
    prep = core.lean_prepare(MODULES)
    aud = core.audit(THEOREMS, MODULES) if prep["proofs_ok"] else {"obligations": len(THEOREMS), "discharged": 0, "ok": False, "theorems": {}}
    jobs = core.jobs_for(run.tier)
    pool = core.Pool(jobs)
    drv = core.Driver() if prep["driver_ok"] else None
    stats: dict = {"unit": {}, "e2e": {}, "parse": {}, "kinds": {}, "forms": {"single": 0, "multi": 0, "fallback": 0}}
    mism = 0
    n_viol = 0

    def tie(what: str, detail: dict) -> None:
        nonlocal mism
        mism += 1
        if mism <= 5:
            run.broken_tie(what, detail)

    def viol(kind: str, what: str, replay: dict) -> None:
        nonlocal n_viol
        n_viol += 1
        stats["kinds"][kind] = stats["kinds"].get(kind, 0) + 1
        run.violation(kind, what, replay)

    try:
        # ---------------- strings ------------------------------------------------------------------------------------
        n_str = 3000 if quick else 40000
        strings = list(CORPUS_STRINGS)
        corpus = os.path.join(core.ROOT, "corpus", "c04.jsonl")
        if os.path.exists(corpus):
            strings += [json.loads(l)["s"] for l in open(corpus) if l.strip()]
        strings += [gen_string(r) for _ in range(n_str)]
        strings += exhaustive_strings(3 if quick else 5)
        trip = []
        for s in strings:
            for indent in (0, 1, 2, 3):
                for single in (True, False):
                    trip.append((s, indent, single))
        if quick and len(trip) > 30000:
            keep = trip[:len(CORPUS_STRINGS) * 8]
            trip = keep + r.sample(trip[len(keep):], 30000 - len(keep))
        rest = ", 1);\n"
        ucases = [{"k": "rt", "s": s, "indent": i, "single": q, "rest": rest} for s, i, q in trip]
        ures = _pool_map(pool, "harness.impl_lit:roundtrip_cases", ucases, 2000, 300)
        lres = drv.batch_parallel([{"op": "lit.roundtrip", "s": s, "indent": i, "single": q, "rest": rest} for s, i, q in trip], jobs) if drv else None
        guard_false_ok = 0
        nontrivial = 0
        for idx, ((s, indent, single), u) in enumerate(zip(trip, ures)):
            if "__worker__" in u:
                tie("worker failure in unit round trip", {"case": ucases[idx], "impl": u})
                continue
            form, _q = form_of(s, single)
            stats["forms"][form] += 1
            ok = u.get("v") == s and u.get("exact") is True
            defects = string_defects(s, indent, single)
            if not ok:
                kind = defects[0] if defects else f"unclassified_string_{form}"
                viol(kind, f"repr_string({s!r}, indent={indent}, prefer_single={single}) = {u.get('r')!r} lexes as {u.get('tok')} and reads back {u.get('v')!r}",
                     {"channel": "unit_roundtrip", "case": ucases[idx], "impl": u})
            else:
                nontrivial += 1
                if defects:
                    guard_false_ok += 1
                    if guard_false_ok <= 3:
                        run.notes.append(f"value in defect class {defects[0]} still round-trips: {s!r} indent={indent} single={single}")
            if lres is not None:
                m = lres[idx]
                mt = m.get("tok", {})
                same = (m.get("r") == u.get("r") and mt.get("kind") == u["tok"]["kind"] and (mt.get("kind") is None or mt.get("n") == u["tok"]["n"])
                        and m.get("v") == u.get("v"))
                if not same:
                    tie("correspondence C04/unit: model and implementation disagree on print/lex/read of a string",
                        {"channel": "unit_roundtrip", "case": ucases[idx], "impl": u, "model": m})
                elif m.get("guard") != (not defects):
                    tie("correspondence C04/guard: Lean Guard and the harness' defect classes disagree",
                        {"channel": "guard", "case": ucases[idx], "lean_guard": m.get("guard"), "defects": defects})
                elif m.get("guard") and not ok:
                    tie("Lean Guard holds but the real round trip fails", {"channel": "guard", "case": ucases[idx], "impl": u})
        stats["unit"]["string_roundtrips"] = len(trip)
        stats["unit"]["string_roundtrips_ok"] = nontrivial
        stats["unit"]["defect_class_but_roundtrips"] = guard_false_ok

        # ---------------- other unit cases: single functions ------------------------------------------------------
        cases: list[dict] = []
        sub = r.sample(strings, min(len(strings), 600 if quick else 6000))
        for s in sub:
            cases.append({"k": "splitlines", "s": s})
            cases.append({"k": "split", "s": s, "sep": r.choice(["\n", "."])})
            cases.append({"k": "escq", "s": s, "q": r.choice([None, "'", '"'])})
            cases.append({"k": "escnl", "s": s})
            a = r.choice(["\\n", "\\'", '\\"', "'", "\n", "aa", "a", "''", "ab", s[:2] or "x"])
            cases.append({"k": "replace", "s": s, "a": a, "b": r.choice(["", "X", a + a, "\n"])})
            cases.append({"k": "read_single", "tok": r.choice(["'", '"']) + s + r.choice(["'", '"'])})
            cases.append({"k": "read_multi", "tok": r.choice(["'''", '"""']) + s + r.choice(["'''", '"""'])})
            cases.append({"k": "tok", "text": r.choice(["'", '"', "'''", '"""', "''", ""]) + s + r.choice(["'", '"', "'''", '"""', ""]) + r.choice(["", ")", "'", "\n'"])})
        for _ in range(300 if quick else 5000):
            cases.append({"k": "read_single", "tok": gen_single_spelling(r)})
            cases.append({"k": "read_multi", "tok": gen_multi_spelling(r)})
            cases.append({"k": "tok", "text": gen_multi_spelling(r) + r.choice(["", "'", '"', "x"])})
            cases.append({"k": "tok", "text": gen_single_spelling(r) + r.choice(["", "'", '"', "x"])})
        for _ in range(150 if quick else 3000):
            items = [[l, gen_string(r)] for l in r.sample(["en", "fr", "de", "x_1"], r.choice([0, 1, 2, 4]))]
            cases.append({"k": "langstr", "items": items, "indent": r.choice([0, 1, 2, 5])})
        ints = INT_SPELLINGS + [gen_int_spelling(r) for _ in range(300 if quick else 6000)] + [str(gen_int(r)) for _ in range(100 if quick else 3000)]
        decs = DEC_SPELLINGS + [gen_dec_spelling(r) for _ in range(300 if quick else 6000)]
        junk = [gen_junk_number(r) for _ in range(40)]
        for s in ints + junk:
            cases.append({"k": "int", "s": s})
        for s in decs + ints[:60] + junk:
            cases.append({"k": "fixed", "s": s})
        for s in POS_SPELLINGS + decs[:200] + ints[:200] + junk:
            cases.append({"k": "posarg", "s": s})
        for _ in range(200 if quick else 4000):
            p = gen_param(r, "fixed")
            if p["t"] == "fixed":
                cases.append({"k": "fixedmk", "whole": p["whole"], "fract": p["fract"] if r.random() < 0.9 else p["fract"] + r.choice(["a", ".", "-", "٣"])})
            q = gen_param(r, "pos")
            q["xo"], q["yo"] = r.choice([0, 1, 2, 3, 4, -1, 7]), r.choice([0, 1, 2, 4])
            cases.append({"k": "posmark", **{k: q[k] for k in ("name", "xo", "yo", "xr", "yr")}})
            cases.append({"k": "dmode", "consts": DM if r.random() < 0.7 else r.sample(["A", "B", "C", "D", "A"], 4), "idx": r.choice([0, 1, 2, 3, 4, -1, 7])})
        ures2 = _pool_map(pool, "harness.impl_lit:unit_cases", cases, 1000, 300)
        if drv:
            lres2 = drv.batch_parallel([{**c, "op": "lit." + c["k"]} for c in cases], jobs)
            for c, u, m in zip(cases, ures2, lres2):
                k = c["k"]
                stats["unit"][k] = stats["unit"].get(k, 0) + 1
                if "__worker__" in u:
                    tie("worker failure in unit case", {"case": c, "impl": u})
                    continue
                same = True
                if k in ("replace", "splitlines", "split", "escq", "escnl", "langstr", "posmark", "dmode"):
                    same = m.get("r") == u.get("r")
                elif k in ("read_single", "read_multi"):
                    same = m.get("v") == u.get("v")
                elif k == "tok":
                    for lx in ("exps", "ssbs"):
                        ty, n = u[lx]["type"], u[lx]["n"]
                        kind = {"STRING_LITERAL": "single", "MULTILINE_STRING_LITERAL": "multi"}.get(ty)
                        if m.get("kind") != kind or (kind is not None and m.get("n") != n):
                            same = False
                elif k == "int":
                    if m.get("tok") != u.get("tok", False) and "err" not in u:
                        same = False
                    if m.get("tok"):
                        same = same and ("err" not in u) and m.get("v") == u.get("v")
                elif k == "fixed":
                    if m.get("tok") or first_is_int_tok(c["s"]):
                        same = (m.get("v") == u.get("v")) and (m.get("err") == u.get("err"))
                elif k == "fixedmk":
                    same = (m.get("v") == u.get("v")) and (m.get("err") == u.get("err"))
                elif k == "posarg":
                    same = m.get("kind") == u.get("kind") and m.get("v") == u.get("v") and m.get("err") == u.get("err")
                if k == "repr" and "conststr_differs" in u:
                    same = False
                if not same:
                    tie(f"correspondence C04/unit: model and implementation disagree on {k}", {"channel": "unit", "case": c, "impl": u, "model": m})

        # ---------------- end-to-end: real decompilers + compilers, property oracle -----------------------------
        n_e2e = 7000 if quick else 60000
        e2e: list[dict] = []
        # fixed witnesses: every corpus string in every string context of both routes; the values whose last line is blank
        # (inside GuardM exactly when the context's indent is not 0) also at two deeper nesting levels
        blank_last = [s for s in CORPUS_STRINGS if "\n" in s and s.split("\n")[-1].strip(" ") == ""] + ["x\n   ", "x\n", "'''\nx\n "]
        for s in CORPUS_STRINGS:
            for ctx in CTX_FOR["str"]:
                if ctx == "arg2":
                    continue
                for dec in ("exps", "ssbs"):
                    e2e.append({"param": {"t": "str", "v": s}, "ctx": ctx, "depth": 0, "dec": dec})
        for s in blank_last:
            for ctx in CTX_FOR["str"]:
                for depth in (1, 3):
                    e2e.append({"param": {"t": "str", "v": s}, "ctx": ctx, "depth": depth, "dec": "exps"})
                    e2e.append({"param": {"t": "lang", "v": [["english", s], ["german", "x" + s]]}, "ctx": ctx, "depth": depth, "dec": "exps"})
        for s in CORPUS_STRINGS[:30]:
            for ctx in ("arg", "menu", "casetext", "switchhdr"):
                for dec in ("exps", "ssbs"):
                    e2e.append({"param": {"t": "lang", "v": [["english", s]]}, "ctx": ctx, "depth": 0, "dec": dec})
        kinds_w = ["str"] * 8 + ["lang"] * 3 + ["int"] * 2 + ["fixed"] * 2 + ["const"] + ["pos"] * 2
        for _ in range(n_e2e):
            kind = r.choice(kinds_w)
            p = gen_param(r, kind)
            ctx = r.choice(CTX_FOR[kind])
            if ctx == "dmode":
                # the four modes, and numbers that are not a mode (they stand for themselves)
                p = {"t": "int", "v": r.choice([0, 1, 2, 3, 0, 1, 2, 3, 4, 7, -1, 255])}
            if ctx.startswith("ctxtarget") and kind == "int" and r.random() < 0.3:
                p = {"t": "int", "v": 0}         # actor / object / performer number 0 is an ordinary target
            e2e.append({"param": p, "ctx": ctx, "depth": r.choice([0, 0, 1, 2, 3, 4]), "dec": r.choice(["exps", "exps", "ssbs"])})
        eres = _pool_map(pool, "harness.impl_lit:e2e_cases", e2e, 60, 300)
        lreq: list[dict] = []
        lidx: list[tuple[int, int]] = []
        for i, (c, res) in enumerate(zip(e2e, eres)):
            key = f"{c['param']['t']}/{c['ctx']}/{c['dec']}"
            stats["e2e"][key] = stats["e2e"].get(key, 0) + 1
            if "__worker__" in res or "setup_err" in res:
                tie("worker/setup failure in end-to-end case", {"case": c, "impl": res})
                continue
            v = oracle_e2e(c, res)
            pi = ctx_indent(c["ctx"], c["depth"], c["dec"])
            if pi is not None and res.get("indent") is not None and res["indent"] != pi:
                stats["e2e"]["indent_differs_from_context"] = stats["e2e"].get("indent_differs_from_context", 0) + 1
                if not v:
                    tie("correspondence C04/context: the decompiler prints a string at another indent than the context prescribes (model ctxIndent)",
                        {"channel": "ctx_indent", "case": c, "printed_at": res["indent"], "prescribed": pi})
            if v:
                viol(v[0], v[1], {"channel": "e2e", "case": c, "impl": {k: res.get(k) for k in ("printed", "indent", "back", "comp_err", "dec_err")},
                                  "context_indent": pi})
            elif param_defects(c["param"], res.get("indent"), c["dec"]):
                stats["e2e"]["defect_class_but_roundtrips"] = stats["e2e"].get("defect_class_but_roundtrips", 0) + 1
                if stats["e2e"]["defect_class_but_roundtrips"] <= 3:
                    run.notes.append(f"e2e: value in defect class {param_defects(c['param'], res.get('indent'), c['dec'])[0]} still round-trips: "
                                     f"{json.dumps(c, ensure_ascii=True)[:300]}")
            # model prediction for strings: print at the indent the decompiler used, lex+read in the real following text
            p = c["param"]
            if p["t"] == "str" and res.get("found") and res.get("indent") is not None:
                lreq.append({"op": "lit.roundtrip", "s": p["v"], "indent": res["indent"], "single": True, "rest": res["rest"]})
                lidx.append((i, -1))
            elif p["t"] == "lang" and res.get("indent") is not None:
                for j, (_k, s) in enumerate(p["v"]):
                    lreq.append({"op": "lit.roundtrip", "s": s, "indent": res["indent"] + 1, "single": False, "rest": ",\n"})
                    lidx.append((i, j))
        if drv and lreq:
            lrep = drv.batch_parallel(lreq, jobs)
            for (i, j), q, m in zip(lidx, lreq, lrep):
                c, res = e2e[i], eres[i]
                if j == -1:
                    if m.get("r") != res.get("printed"):
                        tie("correspondence C04/e2e: printed text differs from the model", {"channel": "e2e", "case": c, "impl": res.get("printed"), "model": m})
                    elif m.get("exact") and "back" in res and res["back"].get("v") != m.get("v"):
                        tie("correspondence C04/e2e: recompiled string differs from the model's prediction", {"channel": "e2e", "case": c, "impl": res.get("back"), "model": m})
                    elif m.get("guard") and oracle_e2e(c, res):
                        tie("Lean Guard holds but the real decompile/compile round trip fails", {"channel": "e2e", "case": c, "impl": res.get("back", res.get("comp_err"))})
                else:
                    if m.get("r") not in (res.get("printed") or ""):
                        tie("correspondence C04/e2e: printed language string differs from the model", {"channel": "e2e", "case": c, "item": j, "model": m})
                    elif m.get("exact") and "back" in res and res["back"].get("t") == "lang" and len(res["back"]["v"]) == len(c["param"]["v"]) \
                            and all(mm.get("exact") for (ii, _jj), mm in zip(lidx, lrep) if ii == i) and res["back"]["v"][j][1] != m.get("v"):
                        tie("correspondence C04/e2e: recompiled language string differs from the model's prediction", {"channel": "e2e", "case": c, "item": j, "impl": res.get("back"), "model": m})

        # ---------------- printing contexts: the harness' table vs the Lean model ---------------------------------------
        if drv:
            creq = []
            for ctx in LEAN_CTX:
                for dec in ("exps", "ssbs"):
                    for depth in range(5):
                        for s in ("x\n   ", "a\n", " a\n b", "a\nb"):
                            creq.append({"op": "lit.ctxindent", "ctx": lean_ctx(ctx, dec), "depth": depth, "s": s, "_ctx": ctx, "_dec": dec})
            for q, m in zip(creq, drv.batch_parallel([{k: v for k, v in q.items() if k[0] != "_"} for q in creq], jobs)):
                pi = ctx_indent(q["_ctx"], q["depth"], q["_dec"])
                if m.get("indent") != pi or m.get("guard_const") != (not string_defects(q["s"], pi, True)) \
                        or m.get("guard_lang") != (not string_defects(q["s"], pi + 1, False)):
                    tie("correspondence C04/context: Lean ctxIndent/Guard and the harness' context table disagree", {"channel": "ctx_indent", "case": q, "model": m})
            stats["unit"]["ctxindent"] = len(creq)

        # ---------------- end-to-end, whole parameter lists: several parameters per op, several ops per context -----
        n_ops = 2000 if quick else 20000
        mcases: list[dict] = []
        L1 = {"t": "lang", "v": [["english", "Left"]]}
        L2 = {"t": "lang", "v": [["english", "Right"], ["german", "Rechts"]]}
        L3 = {"t": "lang", "v": [["german", "Ja\n "], ["french", "oui"]]}
        S1 = {"t": "str", "v": "it's\n\"x\""}
        F1 = {"t": "fixed", "whole": None, "fract": "05"}
        P1 = {"t": "pos", "name": "m0", "xo": 2, "yo": 0, "xr": -1, "yr": 3}
        for dec in ("exps", "ssbs"):
            for depth in (0, 2):
                mcases.append({"ops": [[L1, L2]], "ctx": "arg", "depth": depth, "dec": dec})
                mcases.append({"ops": [[L1, S1, L3, F1, L2, P1]], "ctx": "arg", "depth": depth, "dec": dec})
                mcases.append({"ops": [[L2, {"t": "int", "v": 3}, L1]], "ctx": "inlinectx", "depth": depth, "dec": dec})
                mcases.append({"ops": [[L1, {"t": "str", "v": "a\nb"}, L3, F1]], "ctx": "switchhdr", "depth": depth, "dec": dec})
                mcases.append({"ops": [[L2], [L1]], "ctx": "menu", "depth": depth, "dec": dec})
                mcases.append({"ops": [[{"t": "str", "v": "x\n   "}], [L3]], "ctx": "menu", "depth": depth, "dec": dec})
                mcases.append({"ops": [[{"t": "int", "v": 7}, L1], [{"t": "const", "v": "CONST"}, L2], [L3]], "ctx": "casetext", "depth": depth, "dec": dec})
        for _ in range(n_ops):
            mcases.append(gen_ops_case(r, r.choice(["arg", "arg", "arg", "inlinectx", "switchhdr", "menu", "casetext"]),
                                       r.choice([0, 0, 1, 2, 3, 4]), r.choice(["exps", "ssbs"])))
        mres = _pool_map(pool, "harness.impl_lit:e2e_ops_cases", mcases, 40, 300)
        mreq: list[dict] = []
        midx: list[tuple[int, int, int, int]] = []
        for i, (c, res) in enumerate(zip(mcases, mres)):
            key = f"oplist/{c['ctx']}/{c['dec']}"
            stats["e2e"][key] = stats["e2e"].get(key, 0) + 1
            nl = sum(1 for pl in c["ops"] for p in pl if p["t"] == "lang")
            stats["e2e"][f"oplist_lang_strings_{min(nl, 3)}{'+' if nl >= 3 else ''}"] = stats["e2e"].get(f"oplist_lang_strings_{min(nl, 3)}{'+' if nl >= 3 else ''}", 0) + 1
            if "__worker__" in res or "setup_err" in res:
                tie("worker/setup failure in end-to-end case (parameter lists)", {"case": c, "impl": res})
                continue
            v = oracle_ops(c, res)
            pi = ctx_indent(MCTX_SINGLE[c["ctx"]], c["depth"], c["dec"])
            real_ind = [x for row in (res.get("indents") or []) for x in row if x is not None]
            if any(x != pi for x in real_ind):
                stats["e2e"]["indent_differs_from_context"] = stats["e2e"].get("indent_differs_from_context", 0) + 1
                if not v:
                    tie("correspondence C04/context: the decompiler prints a string at another indent than the context prescribes (model ctxIndent)",
                        {"channel": "ctx_indent", "case": c, "printed_at": res.get("indents"), "prescribed": pi})
            if v:
                viol(v[0], v[1], {"channel": "e2e_ops", "case": c, "context_indent": pi,
                                  "impl": {k: res.get(k) for k in ("indents", "back", "back_names", "comp_err", "dec_err")}})
                continue
            # model: every string printed at the indent the decompiler used is part of the text and reads back as predicted
            for a, (pl, il) in enumerate(zip(c["ops"], res.get("indents") or [])):
                for b, (p, ind) in enumerate(zip(pl, il)):
                    if ind is None:
                        continue
                    if p["t"] == "str":
                        mreq.append({"op": "lit.roundtrip", "s": p["v"], "indent": ind, "single": True, "rest": ", 1);\n"})
                        midx.append((i, a, b, -1))
                    elif p["t"] == "lang":
                        for j, (_k, s) in enumerate(p["v"]):
                            mreq.append({"op": "lit.roundtrip", "s": s, "indent": ind + 1, "single": False, "rest": ",\n"})
                            midx.append((i, a, b, j))
        if drv and mreq:
            for (i, a, b, j), m in zip(midx, drv.batch_parallel(mreq, jobs)):
                c, res = mcases[i], mres[i]
                backp = res["back"][a][b]
                got = backp.get("v") if j == -1 else (backp["v"][j][1] if backp.get("t") == "lang" and j < len(backp["v"]) else None)
                if m.get("r") not in res["text"]:
                    tie("correspondence C04/e2e: printed string of a parameter list differs from the model", {"channel": "e2e_ops", "case": c, "at": [a, b, j], "model": m})
                elif not (m.get("guard") and m.get("exact") and m.get("v") == got):
                    tie("correspondence C04/e2e: recompiled string of a parameter list differs from the model's prediction",
                        {"channel": "e2e_ops", "case": c, "at": [a, b, j], "impl": backp, "model": m})
        stats["e2e"]["oplist_cases"] = len(mcases)
        stats["e2e"]["oplist_strings_vs_model"] = len(mreq)

        # ---------------- parse side: spellings -> real compilers -> spec value -----------------------------------
        pcases: list[dict] = []
        pexp: list[Any] = []
        for s in ints:
            for comp in ("exps", "ssbs"):
                pcases.append({"lit": s, "as": "arg", "comp": comp})
                pexp.append(("int", spec_int(s)))
        for s in decs:
            for comp in ("exps", "ssbs"):
                pcases.append({"lit": s, "as": "arg", "comp": comp})
                pexp.append(("dec", s))
        for s in POS_SPELLINGS:
            for comp in ("exps", "ssbs"):
                pcases.append({"lit": s, "as": "pos", "comp": comp})
                pexp.append(("pos", s))
        spell = list(SPEC_SPELLINGS)
        for _ in range(200 if quick else 5000):
            t = gen_multi_spelling(r)
            spell.append((t, spec_multiline(t[3:-3])))
            t = gen_single_spelling(r)
            if single_spelling_in_language(t):
                spell.append((t, spec_single(t[1:-1])))
        spell.append(('"""\n\tfoo\n\tbar\n\t"""', "foo\nbar"))
        for t, v in spell:
            for comp in ("exps", "ssbs"):
                pcases.append({"lit": t, "as": "arg", "comp": comp})
                pexp.append(("str", v))
        pres = _pool_map(pool, "harness.impl_lit:parse_cases", pcases, 100, 300)
        for c, e, res in zip(pcases, pexp, pres):
            stats["parse"][e[0]] = stats["parse"].get(e[0], 0) + 1
            if "__worker__" in res:
                tie("worker failure in parse case", {"case": c, "impl": res})
                continue
            bad = parse_oracle(c, e, res)
            if bad:
                viol(bad[0], bad[1], {"channel": "parse", "case": c, "impl": res})
        # model on the string spellings
        if drv:
            lrep = drv.batch_parallel([{"op": "lit.readstr", "text": t + ");"} for t, _v in spell], jobs)
            k0 = len(pcases) - 2 * len(spell)
            for j, ((t, _v), m) in enumerate(zip(spell, lrep)):
                res = pres[k0 + 2 * j]
                got = res.get("back", {}).get("v") if res.get("back", {}).get("t") == "str" else None
                if m.get("v") != got:
                    tie("correspondence C04/parse: model reads a string literal differently from the compiler", {"channel": "parse", "lit": t, "impl": res, "model": m})
    finally:
        pool.close()

    if not prep["proofs_ok"] or not aud["ok"] or not prep["driver_ok"]:
        run.broken_tie("Lean obligations of C04 do not check (build/audit)", {"theorems": THEOREMS, "log": prep["log"][-3000:], "audit": aud})
    cov = core.proof_coverage(run, prep, aud, MODULES, THEOREMS, {
        "evaluations": len(trip) + len(cases) + len(e2e) + len(mcases) + len(pcases),
        "distinct_nontrivial": core.distinct(s for s in strings if not string_defects(s, 1, True) and len(s) > 1),
        "rule": ("strings over an alphabet hitting every printer/reader branch (both quotes, both triple quotes, backslash, \\n \\r \\f \\v "
                 "\\x85 \\u2028, blanks before/after every line, blank-only lines, trailing newline, non-ASCII) plus all strings up to length "
                 f"{3 if quick else 5} over {EXH_ALPHABET!r}, each at indents 0-3 and both quote preferences (function level), and as real "
                 "parameters (ints, fixed point, constants, strings, language strings, position marks) through both real decompilers in every "
                 "printing context (operation argument, inline-context argument, switch header, menu case header, message-switch text "
                 "and key, case values) at nesting depths 0-4 and back through both real compilers, the defect class of a failing value "
                 "decided at the indent the CONTEXT prescribes; whole parameter lists inside the guards (2-3 language strings with equal / "
                 "overlapping / nested / disjoint language sets mixed with constant strings, fixed-point numbers, position marks, "
                 "integers, constants; two menu cases; two text cases + default) in the same contexts through both routes; "
                 "literal spellings of every base/zero form; "
                 "non-trivial = string of length > 1 inside the guards"),
        "samples": [trip[len(CORPUS_STRINGS) * 8 + 1][0], e2e[-1], pcases[0]] if len(trip) > len(CORPUS_STRINGS) * 8 + 1 and e2e and pcases else [],
        "generator_stats": stats, "correspondence_mismatches": mism, "oracle_violations": n_viol,
        "guards": {
            "GuardS(q,s)": "single-line form: every backslash is followed by a character other than the delimiting quote (and is not last); "
                           "no raw \\r or \\f outside such a pair; no backslash directly before the other quote; no backslash directly before the letter n",
            "GuardM(indent,s)": "triple-quoted form: no str.splitlines boundary other than \\n; some line empty or starting with a non-blank; "
                                "at indent 0 the last line is not blank-only",
            "fallback": "a multi-line value containing both triple-quote sequences is printed in single-line form: GuardS applies",
        },
    })
    return run.finish("proof", cov, [
        "ANTLR lexing/parsing outside the STRING_LITERAL / MULTILINE_STRING_LITERAL / INTEGER / DECIMAL rules (blank skipping, argument lists, "
        "language-string braces) is not modelled; it is exercised differentially by the end-to-end channel only",
        "Python str/int primitives (replace, split, splitlines, strip, int(s,0), str(int)) are modelled and compared with the interpreter on every run; "
        "CPython's 4300-digit limit on decimal int<->str conversion is outside the model",
        "position-mark names, constant names and language names are taken to be what a reader delivers (identifiers / plain names)",
    ])


def first_is_int_tok(s: str) -> bool:
    import re
    return re.fullmatch(r"-?[0-9]+", s) is not None


def single_spelling_in_language(t: str) -> bool:
    """the text is exactly one STRING_LITERAL token (own reading of the rule)"""
    q, body = t[0], t[1:-1]
    i = 0
    while i < len(body):
        if body[i] == "\\":
            if i + 1 >= len(body):
                return False
            i += 2
            continue
        if body[i] in "\r\n\f" or body[i] == q:
            return False
        i += 1
    return True


def parse_oracle(c: dict, e: tuple, res: dict) -> tuple[str, str] | None:
    lit = c["lit"]
    where = f"{lit!r} compiled by {c['comp']}"
    back = res.get("back")
    if e[0] == "int":
        if back != {"t": "int", "v": e[1]}:
            return "int_literal_value", f"integer literal {where} gives {back or res}, spec value {e[1]}"
        return None
    if e[0] == "dec":
        if not back or back.get("t") != "fixed":
            return "decimal_literal_rejected", f"decimal literal {where} gives {back or res}"
        val = back["value"]
        try:
            same = Fraction(val) == Fraction(lit if not lit.lstrip("-").startswith(".") else lit.replace(".", "0.", 1))
        except Exception:
            same = False
        neg = lit.startswith("-")
        w, f = val.split(".", 1) if "." in val else (val, "")
        normal = f == lit.split(".", 1)[1] and (w == "0" or w == "-0" or not w.lstrip("-").startswith("0")) and (w.startswith("-") == neg)
        if not same or not normal:
            return "decimal_literal_value", f"decimal literal {where} gives {val!r} (same number: {same}, normal form with sign and fraction digits kept: {normal})"
        return None
    if e[0] == "pos":
        neg = lit.startswith("-")
        u = lit[1:] if neg else lit
        exp: Any
        if "." in u:
            a, b = u.split(".", 1)
            b2 = b.rstrip("0")
            if a == "" and neg:
                exp = "unrepresentable"
            elif b2 == "5":
                exp = (int(("-" if neg else "") + (a or "0")), 2)
            elif b2 == "":
                exp = (int(("-" if neg else "") + (a or "0")), 0)
            else:
                exp = "error"
        else:
            exp = (spec_int(lit), 0)
        if exp == "unrepresentable":
            return None
        if exp == "error":
            if back is not None:
                kind = "posarg_fraction_leading_zero" if u.split(".", 1)[1].rstrip("0").lstrip("0") == "5" else "posarg_accepts_other_fraction"
                return kind, f"position argument {where} is accepted as {back}, the spec allows only '.5' (or '.0') as decimal places"
            return None
        if not back or back.get("t") != "pos" or (back["xr"], back["xo"]) != exp:
            return "posarg_value", f"position argument {where} gives {back or res}, spec value {exp}"
        return None
    if e[0] == "str":
        if not back or back.get("t") != "str" or back["v"] != e[1]:
            multi = lit[:3] in ("'''", '"""')
            body_lines = lit[3:-3].split("\n") if multi else []
            if multi and "\t" in lit:
                kind = "multiline_literal_tab_indent"
            elif multi and len(body_lines) >= 3 and body_lines[-1] == "" and body_lines[-2].strip(" ") == "":
                # closing delimiter at column 0 right after a blank-only line: splitlines() drops the empty last line,
                # the blank-only line before it is then taken for the last line and removed as well
                kind = "multiline_literal_closing_col0_after_blank_line"
            else:
                kind = "string_literal_value_multi" if multi else "string_literal_value_single"
            return kind,f"string literal {where} gives {back or res}, spec value {e[1]!r}"
        return None
    return None


def replay(run: core.Run, path: str) -> int:
    data = json.load(open(path))
    rp = data["replay"]
    ch = rp.get("channel")
    from .. import impl_lit
    bad = []
    if ch == "unit_roundtrip":
        c = rp["case"]
        u = impl_lit.roundtrip_cases([c])[0]
        if not (u.get("v") == c["s"] and u.get("exact") is True):
            d = string_defects(c["s"], c["indent"], c["single"])
            bad.append((d[0] if d else "unclassified", f"prints {u.get('r')!r}, lexes {u.get('tok')}, reads back {u.get('v')!r}"))
    elif ch == "e2e":
        c = rp["case"]
        res = impl_lit.e2e_one(c)
        v = oracle_e2e(c, res)
        if v:
            bad.append(v)
    elif ch == "e2e_ops":
        c = rp["case"]
        res = impl_lit.e2e_ops_one(c)
        v = oracle_ops(c, res)
        if v:
            bad.append(v)
    elif ch == "parse":
        c = rp["case"]
        res = impl_lit.parse_one(c)
        print("replayed:", c, "->", res)
        if res != rp.get("impl"):
            print("result differs from the recorded one")
        bad.append(("parse", json.dumps(res)[:200])) if res == rp.get("impl") else None
    else:
        print("replay file describes a broken tie (no failing input):", data.get("what"))
        return 1
    for kind, what in bad:
        print("VIOLATION-REPLAY", kind, what)
    return 1 if bad else 0
