"""C14 — source maps survive storage and offset rewriting.
Deciding method: Lean theorems ESV.C14.* about the model ESV/SourceMap/Model.lean; the model is tied to
explorerscript/source_map.py by exact differential comparison on generated maps; the property oracle is an
independent reading of the statement evaluated on the implementation's real objects."""
from __future__ import annotations

import copy
import json
import os
import random
from typing import Any

from .. import core

MODULES = ["ESV.Props.C14"]
THEOREMS = [
    "ESV.C14.deser_ser", "ESV.C14.ser_deser_ser", "ESV.C14.eq_after_roundtrip",
    "ESV.C14.rewrite_entry", "ESV.C14.rewrite_entry_only",
    "ESV.C14.rewrite_macro_entry", "ESV.C14.rewrite_macro_entry_only",
    "ESV.C14.rewrite_ret_next", "ESV.C14.rewrite_ret_none", "ESV.C14.rewrite_ret_same",
    "ESV.readInt_showInt",
]

NAMES = ["", "a", "Mark1", "ünï", "q\"uote", "back\\slash", "new\nline", "tab\t", "'", "§x", "$v", "macro_1", " "]
FILES = [None, "a.exps", "../lib/b.exps", "dir/c d.exps", "ü.exps"]


def gen_int(r: random.Random, small: bool = False) -> int:
    c = r.random()
    if small or c < 0.7:
        return r.randint(0, 40)
    if c < 0.8:
        return r.randint(-5, 5)
    if c < 0.9:
        return r.randint(0, 70000)
    return r.choice([2**31, 2**63, -2**40, 10**20])


def gen_pm(r: random.Random) -> list:
    return [gen_int(r), gen_int(r), gen_int(r), gen_int(r), r.choice(NAMES), r.choice([0, 2, 4, 1, 3]), r.choice([0, 2, 4]), gen_int(r), gen_int(r)]


def gen_case(r: random.Random, compiled: list[dict]) -> dict:
    if compiled and r.random() < 0.25:
        sm = copy.deepcopy(r.choice(compiled))
    else:
        n = r.choice([0, 1, 2, 3, 5, 8])
        pool = sorted(r.sample(range(0, 30), min(30, n + r.randint(2, 8))))
        if r.random() < 0.15:
            pool = [p * 1000 - 3 for p in pool]
        ks = r.sample(pool, min(len(pool), n))
        if r.random() < 0.6:
            ks.sort()
        r.shuffle(pool)
        mk = [k for k in pool if k not in ks][: r.choice([0, 1, 2, 4])]
        macros = []
        for k in mk:
            ret = r.choice([None, 0, r.choice(pool), r.choice(pool) + 1, max(pool) + r.randint(1, 3), min(pool) - 2, r.randint(0, 30)])
            ci = None if r.random() < 0.5 else [r.choice(FILES), gen_int(r, True), gen_int(r, True)]
            params = [[nm, r.choice([gen_int(r), "CONST", "", "x y"])] for nm in r.sample(["$a", "$b", "$c", "k"], r.randint(0, 3))]
            macros.append([k, [r.choice(FILES), r.choice(NAMES), gen_int(r), gen_int(r), ci, ret, params]])
        sm = {
            "map": [[k, [gen_int(r), gen_int(r)]] for k in ks],
            "pos_marks": [gen_pm(r) for _ in range(r.choice([0, 0, 1, 3]))],
            "macros": macros,
            "pos_marks_macro": [[r.choice(FILES), r.choice(NAMES), gen_pm(r)] for _ in range(r.choice([0, 0, 1, 2]))],
        }
    # a macro expanded twice contributes its position marks twice: identical list entries must survive
    for fld in ("pos_marks", "pos_marks_macro"):
        if sm[fld] and r.random() < 0.35:
            sm[fld].insert(r.randint(0, len(sm[fld])), copy.deepcopy(r.choice(sm[fld])))
    keys = [k for k, _ in sm["map"]] + [k for k, _ in sm["macros"]]
    rets = [v[5] for _, v in sm["macros"] if v[5] is not None]
    universe = sorted(set(keys + rets + [x + 1 for x in rets] + [r.randint(0, 40) for _ in range(3)]))
    mode = r.random()
    if mode < 0.08:
        dom = []
    elif mode < 0.3:
        dom = universe
    else:
        dom = [k for k in universe if r.random() < r.choice([0.5, 0.8, 0.95])]
    if r.random() < 0.55:
        new = list(range(len(dom)))                     # compaction, monotone (typical use)
        if r.random() < 0.5:
            base = r.randint(0, 5)
            new = [base + 2 * i for i in new]
    else:
        new = r.sample(range(0, 3 * len(dom) + 5), len(dom))  # injective, non-monotone
    f = [[k, v] for k, v in zip(dom, new)]
    if r.random() < 0.3:
        r.shuffle(f)
    return {"sm": sm, "f": f}


def gen_history(r: random.Random, compiled: list[dict]) -> dict:
    """an operation sequence on ONE SourceMap object (the property speaks about maps, not about fresh objects)"""
    c = gen_case(r, compiled)
    sm = c["sm"]
    steps: list = []
    keys = sorted({k for k, _ in sm["map"]} | {k for k, _ in sm["macros"]})
    for _ in range(r.randint(2, 7)):
        op = r.choice(["ser", "ser", "pretty", "str", "rewrite", "rewrite", "reread", "eq"])
        if op == "rewrite":
            dom = [k for k in keys if r.random() < 0.85]
            if r.random() < 0.6:
                base = r.randint(0, 4)
                new = [base + r.choice([1, 2]) * i for i in range(len(dom))]
            else:
                new = r.sample(range(0, 3 * len(dom) + 5), len(dom))
            steps.append(["rewrite", [[k, v] for k, v in zip(dom, new)]])
            keys = sorted(set(new))
        else:
            steps.append([op])
    return {"sm": sm, "steps": steps}


def compiled_maps() -> list[dict]:
    """source maps produced by the real compiler / decompilers (fixtures of the repo + tiny programs)"""
    import sys
    out = []
    try:
        from explorerscript.ssb_converting.ssb_compiler import ExplorerScriptSsbCompiler
        from ..impl_sm import sm_to_wire
        base = os.path.join(core.REPO, "tests", "fixtures", "compiler", "macros_imports_test")
        for d in sorted(os.listdir(base)):
            p = os.path.join(base, d, "main.exps")
            try:
                c = ExplorerScriptSsbCompiler("N/A", [])
                c.compile(open(p).read(), p)
                out.append(sm_to_wire(c.source_map))
            except Exception:
                pass
    except Exception:
        pass
    return out


# ---- independent reading of the property on the implementation's outputs ---------------------------------------------
def as_dict(pairs: list) -> dict:
    return {k: v for k, v in pairs}


def oracle(case: dict, res: dict) -> list[tuple[str, str]]:
    """returns [(kind, what)]"""
    bad: list[tuple[str, str]] = []
    sm, f = case["sm"], as_dict(case["f"])
    if "exc" in res:
        return [("exception", f"source map operation raised {res['exc']}")]
    d = res["deser"]
    if as_dict(d["map"]) != as_dict(sm["map"]) or len(d["map"]) != len(sm["map"]):
        bad.append(("roundtrip_op_entries", "op entries differ after deserialize(serialize(m))"))
    if as_dict(d["macros"]) != as_dict(sm["macros"]) or len(d["macros"]) != len(sm["macros"]):
        bad.append(("roundtrip_macro_entries", "macro entries differ after deserialize(serialize(m))"))
    if d["pos_marks"] != sm["pos_marks"] or d["pos_marks_macro"] != sm["pos_marks_macro"]:
        bad.append(("roundtrip_pos_marks", "position marks differ after deserialize(serialize(m))"))
    if not (res["eq"] and res["eq_rev"]) or res["ne"]:
        bad.append(("roundtrip_not_equal", "deserialize(serialize(m)) does not compare equal to m"))
    if not res["reser_same"]:
        bad.append(("reserialize_differs", "serialising the deserialised map gives a different text"))
    if not res["pretty_same"]:
        bad.append(("pretty_differs", "pretty serialisation reads back differently"))
    # rewrite
    exp_map = {f[k]: v for k, v in sm["map"] if k in f}
    exp_mac = {}
    for k, v in sm["macros"]:
        if k in f:
            v2 = list(v)
            r = v[5]
            if r is not None:
                later = [x for x in f if x >= r]
                if later:
                    v2[5] = f[min(later)]
            exp_mac[f[k]] = v2
    for tag in ("rewrite", "rewrite_deser"):
        got = res[tag]
        gm, gmm = as_dict(got["map"]), as_dict(got["macros"])
        if gm != exp_map or len(got["map"]) != len(exp_map):
            bad.append(("rewrite_op_entries", f"{tag}: op entries after rewrite_offsets differ from the moved entries"))
        if set(gmm) != set(exp_mac) or len(got["macros"]) != len(exp_mac):
            bad.append(("rewrite_macro_keys", f"{tag}: macro entries present after rewrite_offsets differ"))
        else:
            for k2 in gmm:
                a, b = gmm[k2], exp_mac[k2]
                if a[:5] + a[6:] != b[:5] + b[6:]:
                    bad.append(("rewrite_macro_fields", f"{tag}: macro entry fields changed by rewrite_offsets"))
                elif a[5] != b[5]:
                    orig = [v for k, v in sm["macros"] if k in f and f[k] == k2][0][5]
                    kind = "rewrite_ret_zero" if orig == 0 else "rewrite_return_addr"
                    bad.append((kind, f"{tag}: return address {orig} became {a[5]}, expected {b[5]}"))
        if got["pos_marks"] != sm["pos_marks"] or got["pos_marks_macro"] != sm["pos_marks_macro"]:
            bad.append(("rewrite_pos_marks", f"{tag}: position marks changed by rewrite_offsets"))
    return bad


def run(run: core.Run) -> int:
    n = 3000 if run.tier == "quick" else 40000
    prep = core.lean_prepare(MODULES)
    aud = core.audit(THEOREMS, MODULES) if prep["proofs_ok"] else {"obligations": len(THEOREMS), "discharged": 0, "ok": False, "theorems": {}}
    compiled = compiled_maps()
    cases = [{"sm": c, "f": [[k, i] for i, (k, _) in enumerate(c["map"] + c["macros"])]} for c in compiled]
    corpus = os.path.join(core.ROOT, "corpus", "c14.jsonl")
    if os.path.exists(corpus):
        cases += [json.loads(l) for l in open(corpus) if l.strip()]
    cases += [gen_case(run.rng, compiled) for _ in range(n)]
    # implementation
    jobs = core.jobs_for(run.tier)
    pool = core.Pool(jobs)
    chunk = 50
    chunks = [cases[i:i + chunk] for i in range(0, len(cases), chunk)]
    from ..impl_sm import COMPILED_TEXTS
    fixture_dir = os.path.join(core.REPO, "tests", "fixtures", "compiler", "macros_imports_test")
    sources = [{"text": t} for t in COMPILED_TEXTS] + [{"file": os.path.join(fixture_dir, d, "main.exps")} for d in sorted(os.listdir(fixture_dir))
                                                       if os.path.exists(os.path.join(fixture_dir, d, "main.exps"))]
    ccases = [dict(src, fmode=fm, drop=dr) for src in sources for fm in ("dense", "dense1", "double", "shift") for dr in (0, 3, 2)]
    hists = [gen_history(run.rng, compiled) for _ in range(n // 3)]
    hchunks = [hists[i:i + chunk] for i in range(0, len(hists), chunk)]
    try:
        outs = pool.map("harness.impl_sm:run_cases", chunks, timeout=120)
        houts = pool.map("harness.impl_sm:run_histories", hchunks, timeout=120)
        couts = pool.map("harness.impl_sm:run_compiled", [ccases], timeout=180)
    finally:
        pool.close()
    cres: list[dict] = couts[0] if isinstance(couts[0], list) else [{"exc": "worker: " + json.dumps(couts[0])[:200]} for _ in ccases]
    hres: list[dict] = []
    for ch, o in zip(hchunks, houts):
        hres += o if isinstance(o, list) else [{"exc": "worker: " + json.dumps(o)[:200]} for _ in ch]
    results: list[dict] = []
    for ch, o in zip(chunks, outs):
        if isinstance(o, list):
            results += o
        else:
            results += [{"exc": "worker: " + json.dumps(o)[:200]} for _ in ch]
    # property oracle
    n_viol = 0
    stats = {"entries": 0, "macro_entries": 0, "dropped_maps": 0, "nonmonotone": 0, "ret_dropped": 0, "empty_f": 0}
    for c, r in zip(cases, results):
        f = as_dict(c["f"])
        stats["entries"] += len(c["sm"]["map"])
        stats["macro_entries"] += len(c["sm"]["macros"])
        stats["empty_f"] += not f
        ks = sorted(f)
        stats["nonmonotone"] += any(f[a] > f[b] for a, b in zip(ks, ks[1:]))
        stats["dropped_maps"] += any(k not in f for k, _ in c["sm"]["map"] + c["sm"]["macros"])
        stats["ret_dropped"] += any(v[5] is not None and v[5] not in f for _, v in c["sm"]["macros"])
        for kind, what in oracle(c, r):
            n_viol += 1
            run.violation(kind, what, {"case": c, "impl": r})
    # operation sequences on one object: every step must act on the content the object has now
    hstats = {"histories": len(hists), "steps": sum(len(h["steps"]) for h in hists), "rewrites": sum(1 for h in hists for st in h["steps"] if st[0] == "rewrite")}
    for h, r in zip(hists, hres):
        if "exc" in r:
            n_viol += 1
            run.violation("history_exception", f"source map operation sequence raised {r['exc']}", {"history": h, "impl": r})
        elif "diverged" in r:
            n_viol += 1
            d = r["diverged"]
            prev = [st[0] for st in h["steps"][:d["step"]]]
            run.violation(f"history_{d['op']}", f"after the operations {prev} on one source map object, {d['op']} does not act on the content the object has now "
                                                f"(a fresh object with the same entries answers differently)", {"history": h, "impl": r})
    # rewrite_offsets on the map objects the real compiler returns (entries may share objects there)
    cstats = {"compiled_object_cases": len(ccases), "with_macro_entries": 0}
    for cc, r in zip(ccases, cres):
        if "exc" in r:
            if "before" in r:     # the compile went through, the rewriting raised
                n_viol += 1
                run.violation("compiled_object_exception", f"rewrite_offsets on the compiler's own source map raised {r['exc']}", {"compiled": cc, "impl": r})
            continue
        cstats["with_macro_entries"] += bool(r["before"]["macros"])
        fake = {"deser": r["before"], "eq": True, "eq_rev": True, "ne": False, "reser_same": True, "pretty_same": True, "rewrite": r["after"], "rewrite_deser": r["after"]}
        for kind, what in oracle({"sm": r["before"], "f": r["f"]}, fake):
            n_viol += 1
            run.violation("compiled_object_" + kind, "on the source map object returned by the compiler: " + what, {"compiled": cc, "impl": r})
    # correspondence with the Lean model
    mism = 0
    lean_ok = prep["driver_ok"]
    if lean_ok:
        drv = core.Driver()
        reqs = []
        for c in cases:
            reqs.append({"op": "sm.ser", "sm": c["sm"]})
            reqs.append({"op": "sm.rewrite", "sm": c["sm"], "f": c["f"]})
        for c, r in zip(cases, results):
            reqs.append({"op": "sm.deser", "json": r.get("ser")} if "ser" in r else {"op": "dec.show", "i": 0})
        reps = drv.batch_parallel(reqs, jobs)
        nc = len(cases)
        for i, (c, r) in enumerate(zip(cases, results)):
            if "exc" in r:
                continue
            a, b, d = reps[2 * i], reps[2 * i + 1], reps[2 * nc + i]
            diffs = []
            if a.get("json") != r["ser"]:
                diffs.append("serialize")
            if b.get("sm") != r["rewrite"]:
                diffs.append("rewrite_offsets")
            if d.get("sm") != r["deser"]:
                diffs.append("deserialize")
            if diffs:
                mism += 1
                if mism <= 3:
                    run.broken_tie("correspondence C14: model and implementation disagree on " + ",".join(diffs),
                                   {"channel": "sm", "case": c, "impl": r, "model": {"ser": a, "rewrite": b, "deser": d}})
        # decimal printer/reader vs Python str/int
        ints = [gen_int(run.rng) for _ in range(300)] + [0, -1, 10, -10, 9, 99, 100]
        reps = drv.batch([{"op": "dec.show", "i": i} for i in ints] + [{"op": "dec.read", "s": str(i)} for i in ints])
        for k, i in enumerate(ints):
            if reps[k].get("s") != str(i) or reps[len(ints) + k].get("i") != i:
                mism += 1
                run.broken_tie("correspondence dec: showInt/readInt differ from Python str/int", {"channel": "dec", "i": i, "model": [reps[k], reps[len(ints) + k]]})
                break
    if not prep["proofs_ok"] or not aud["ok"] or not lean_ok:
        run.broken_tie("Lean obligations of C14 do not check (build/audit)", {"theorems": THEOREMS, "log": prep["log"][-3000:], "audit": aud})
    cov = core.proof_coverage(run, prep, aud, MODULES, THEOREMS, {
        "evaluations": len(cases), "distinct_nontrivial": core.distinct(c for c in cases if c["sm"]["map"] or c["sm"]["macros"]),
        "rule": "random well-typed source maps (0-8 op entries, 0-4 macro entries, return addresses hitting surviving/dropped/absent/zero/out-of-range offsets) plus maps produced by the real compiler on the repo's macro fixtures; injective offset mappings: empty, total, dropping, compaction, non-monotone; non-trivial = at least one entry",
        "samples": cases[len(compiled):len(compiled) + 2] + cases[:1],
        "generator_stats": stats, "history_stats": hstats, "compiled_object_stats": cstats, "correspondence_mismatches": mism, "oracle_violations": n_viol,
    })
    return run.finish("proof", cov, [
        "json.loads(json.dumps(v)) == v on ints/strings/None/lists/str-keyed dicts (stdlib)",
        "model deserialize is typed; ill-typed JSON documents are out of scope",
    ])


def replay(run: core.Run, path: str) -> int:
    data = json.load(open(path))
    if "compiled" in data["replay"]:
        from ..impl_sm import run_compiled
        r = run_compiled([data["replay"]["compiled"]])[0]
        if "exc" in r:
            print("VIOLATION-REPLAY", r["exc"])
            return 1
        fake = {"deser": r["before"], "eq": True, "eq_rev": True, "ne": False, "reser_same": True, "pretty_same": True, "rewrite": r["after"], "rewrite_deser": r["after"]}
        v = oracle({"sm": r["before"], "f": r["f"]}, fake)
        for kind, what in v:
            print("VIOLATION-REPLAY", kind, what)
        return 1 if v else 0
    if "history" in data["replay"]:
        from ..impl_sm import run_histories
        r = run_histories([data["replay"]["history"]])[0]
        if "exc" in r or "diverged" in r:
            print("VIOLATION-REPLAY", json.dumps(r)[:600])
            return 1
        return 0
    case = data["replay"]["case"]
    from ..impl_sm import run_cases
    r = run_cases([case])[0]
    v = oracle(case, r)
    for kind, what in v:
        print("VIOLATION-REPLAY", kind, what)
    return 1 if v else 0
