"""Implementation adapters for the ExplorerScript compiler / decompilers (run inside workers)."""
from __future__ import annotations

import json
import os
import traceback
from typing import Any

from . import rsjson
from .gen.surface import PERF_VAR

DMODE = ("DMODE_CLOSE", "DMODE_OPEN", "DMODE_REQUEST", "DMODE_OPEN_AND_REQUEST")


def _exc(e: BaseException) -> dict:
    tb = traceback.extract_tb(e.__traceback__)
    site = ""
    for fr in reversed(tb):
        if "explorerscript" in fr.filename and "/harness/" not in fr.filename:
            site = os.path.basename(fr.filename) + ":" + fr.name
            break
    return {"error": type(e).__name__, "msg": str(e)[:300], "site": site}


def sm_json(sm: Any) -> Any:
    return json.loads(sm.serialize()) if sm is not None else None


def compile_text(arg: dict) -> dict:
    """arg: {"text", "file" (abs path, default /nonexistent/main.exps), "lookup": []}"""
    from explorerscript.ssb_converting.ssb_compiler import ExplorerScriptSsbCompiler
    c = ExplorerScriptSsbCompiler(arg.get("perf", PERF_VAR), arg.get("lookup", []))
    try:
        c.compile(arg["text"], arg.get("file", "/nonexistent/main.exps"))
    except BaseException as e:  # noqa
        r = _exc(e)
        r["partial_output"] = c.routine_ops is not None
        return r
    out = rsjson.rs_to_json(c.routine_infos, c.routine_ops, c.named_coroutines)
    out["source_map"] = sm_json(c.source_map)
    out["macro_order"] = list(c.macro_resolution_order)
    out["imports"] = list(c.imports)
    return out


def compile_many(args: list[dict]) -> list[dict]:
    return [compile_text(a) for a in args]


def decompile(arg: dict) -> dict:
    """arg: {"rs": routine set json, "ssbs": bool}"""
    from explorerscript.ssb_converting.ssb_data_types import DungeonModeConstants
    infos, ops, coros = rsjson.rs_from_json(arg["rs"])
    try:
        if arg.get("ssbs"):
            from explorerscript.ssb_script.ssb_converting.ssb_decompiler import SsbScriptSsbDecompiler
            text, sm = SsbScriptSsbDecompiler(infos, ops, coros).convert()
        else:
            from explorerscript.ssb_converting.ssb_decompiler import ExplorerScriptSsbDecompiler
            dec = ExplorerScriptSsbDecompiler(infos, ops, coros, arg.get("perf", PERF_VAR), DungeonModeConstants(*DMODE))
            text, sm = dec.convert()
            if arg.get("twice"):
                # the answer of a second convert() of the same object is an answer of the decompiler like the first
                text, sm = dec.convert()
    except BaseException as e:  # noqa
        return _exc(e)
    return {"text": text, "source_map": sm_json(sm), "input_after": rsjson.rs_to_json(infos, ops, [None] * len(infos))}


def decompile_many(args: list[dict]) -> list[dict]:
    return [decompile(a) for a in args]


def decomp_pipeline(arg: dict) -> dict:
    """routine set -> real decompiler -> text -> real compiler + repo parser. arg: {"rs", "ssbs"?}
    returns {"dec": {...}|error, "fallback": bool, "recompiled": {...}|error, "core": core program | None, "ast_error": str}"""
    from . import astdump
    from .gen import surface
    out: dict = {"dec": decompile(arg)}
    if "error" in out["dec"]:
        return out
    text = out["dec"]["text"]
    out["fallback"] = "is-ssb-script" in text.split("\n", 1)[0]
    out["recompiled"] = compile_text({"text": text})
    out["recompiled"].pop("source_map_raw", None)
    if not out["fallback"] and not arg.get("ssbs"):
        try:
            ast = astdump.strip_hints(astdump.dump_text(text))
            out["ast"] = ast
            out["core"] = surface.lower_program(ast)
        except BaseException as e:  # noqa
            out["core"] = None
            out["ast_error"] = type(e).__name__ + ": " + str(e)[:200]
    return out


def decomp_pipeline_many(args: list[dict]) -> list[dict]:
    return [decomp_pipeline(a) for a in args]


def decompile_traced(arg: dict) -> dict:
    """like decompile, but records the writer protocol: every write_stmnt / write_line / source-map call with the
    indent in force, by wrapping the methods of the decompiler instance from outside"""
    from explorerscript.ssb_converting.ssb_data_types import DungeonModeConstants
    infos, ops, coros = rsjson.rs_from_json(arg["rs"])
    log: list = []
    try:
        if arg.get("ssbs"):
            from explorerscript.ssb_script.ssb_converting.ssb_decompiler import SsbScriptSsbDecompiler as D
            dec = D(infos, ops, coros)
        else:
            from explorerscript.ssb_converting.ssb_decompiler import ExplorerScriptSsbDecompiler as D
            dec = D(infos, ops, coros, arg.get("perf", PERF_VAR), DungeonModeConstants(*DMODE))
        cls = type(dec)
        stmnt_name = "write_stmnt"
        line_name = "write_line" if hasattr(cls, "write_line") else "_write_line"
        orig_stmnt, orig_line = getattr(cls, stmnt_name), getattr(cls, line_name)
        state = {"fallback": False}

        def w_stmnt(self, stmnt, line=True):  # type: ignore
            log.append(["indent", self.indent])
            log.append(["stmnt", stmnt, bool(line)])
            # the real method calls write_line itself: do not log that inner call
            state["inner"] = True
            try:
                return orig_stmnt(self, stmnt, line)
            finally:
                state["inner"] = False

        def w_line(self):  # type: ignore
            if not state.get("inner"):
                log.append(["indent", self.indent])
                log.append(["line"])
            return orig_line(self)
        dec.write_stmnt = w_stmnt.__get__(dec, cls)  # type: ignore
        setattr(dec, line_name, w_line.__get__(dec, cls))
        if arg.get("ssbs"):
            orig_read = cls._read_op

            def r_op(self, op):  # type: ignore
                # _read_op records the entry itself (builder.add_opcode(offset, line, indent*4)) right before write_stmnt
                log.append(["indent", self.indent])
                log.append(["opcode", op.offset])
                return orig_read(self, op)
            dec._read_op = r_op.__get__(dec, cls)  # type: ignore
        if not arg.get("ssbs"):
            o1, o2 = cls.source_map_add_opcode, getattr(cls, "source_map_add_opcode_in_current_line", None)

            def a1(self, off):  # type: ignore
                log.append(["indent", self.indent])
                log.append(["opcode", off])
                return o1(self, off)
            dec.source_map_add_opcode = a1.__get__(dec, cls)  # type: ignore
            if o2 is not None:
                def a2(self, off):  # type: ignore
                    log.append(["opcode_inline", off])
                    return o2(self, off)
                dec.source_map_add_opcode_in_current_line = a2.__get__(dec, cls)  # type: ignore
        text, sm = dec.convert()
    except BaseException as e:  # noqa
        return _exc(e)
    return {"text": text, "source_map": sm_json(sm), "log": log, "fallback": "is-ssb-script" in text.split("\n", 1)[0]}


# ----------------------------------------------------------------------------------------------------------------------
# C08: multi-file projects, SourceMapBuilder protocol trace
# ----------------------------------------------------------------------------------------------------------------------
def _pairs(d: Any) -> list:
    return [[str(k), v if isinstance(v, int) and not isinstance(v, bool) else str(v)] for k, v in dict(d).items()]


def _mm_json(m: Any) -> list:
    """MacroSourceMapping -> [relpath, name, line, col, called_in|None, return_addr, [[k, v]…]]"""
    ci = None if m.called_in is None else [m.called_in[0], m.called_in[1], m.called_in[2]]
    return [m.relpath_included_file, m.macro_name, m.line, m.column, ci, m.return_addr, _pairs(m.parameter_mapping)]


class _SmbTrace:
    """Records, from outside, every call of the public methods of every SourceMapBuilder object created while it is
    installed (the routine visitor's builder and each macro visitor's builder), and the inputs of every
    ExplorerScriptMacro.build call (counter, blueprint kinds with the source map entries `_build_op` will read,
    paths, parameter mapping, position-mark lists).  The wrapped bodies are the current /repo code."""

    def __init__(self) -> None:
        self.builders: dict[int, int] = {}
        self.objs: list = []
        self.logs: list[list] = []
        self.builds: list[dict] = []
        self.built: list = []
        self.saved: list = []

    def idx(self, b: Any) -> int:
        i = self.builders.get(id(b))
        if i is None:
            i = len(self.logs)
            self.builders[id(b)] = i
            self.objs.append(b)
            self.logs.append([])
        return i

    def install(self) -> None:
        from explorerscript import source_map as smod
        from explorerscript import macro as mmod
        from explorerscript.ssb_converting.ssb_special_ops import SsbLabel, SsbLabelJump
        B = smod.SourceMapBuilder
        tr = self

        def wrap(name: str, enc: Any) -> None:
            orig = getattr(B, name)
            self.saved.append((B, name, orig))

            def w(self, *a, **kw):  # type: ignore
                tr.logs[tr.idx(self)].append(enc(*a, **kw))
                return orig(self, *a, **kw)
            setattr(B, name, w)
        wrap("add_opcode", lambda op_offset, line_number, column: ["op", op_offset, line_number, column])
        wrap("add_position_mark", lambda position_mark: ["pm", position_mark.serialize()])
        wrap("macro_context__push", lambda opcode_to_jump_to, parameter_mapping: ["push", opcode_to_jump_to, _pairs(parameter_mapping)])
        wrap("macro_context__pop", lambda: ["pop"])
        wrap("next_macro_opcode_called_in", lambda if_incl_rel_path, line_number, column: ["ci", if_incl_rel_path, line_number, column])
        wrap("add_macro_opcode", lambda op_offset, if_incl_rel_path, macro_name, line_number, column: ["mop", op_offset, if_incl_rel_path, macro_name, line_number, column])
        wrap("add_macro_position_mark", lambda if_incl_rel_path, macro_name, position_mark: ["mpm", if_incl_rel_path, macro_name, position_mark.serialize()])
        orig_smb_build = B.build
        self.saved.append((B, "build", orig_smb_build))

        def smb_build(self):  # type: ignore
            sm = orig_smb_build(self)
            tr.built.append((sm, tr.idx(self)))     # (the object is kept so that its identity stays unique)
            return sm
        B.build = smb_build
        M = mmod.ExplorerScriptMacro
        orig_build = M.build
        self.saved.append((M, "build", orig_build))

        def build(self, op_idx_counter, lbl_idx_counter, parameters, smb):  # type: ignore
            bi = tr.idx(smb)
            bp = []
            for o in self.blueprints:
                if isinstance(o, mmod.MacroStartSsbLabel):
                    bp.append(["ms", o.length_of_macro, _pairs(o.parameter_mapping)])
                elif isinstance(o, mmod.MacroEndSsbLabel):
                    bp.append(["me"])
                elif isinstance(o, SsbLabel):
                    bp.append(["lbl"])
                else:
                    off = o.root.offset if isinstance(o, SsbLabelJump) else o.offset
                    rel = self.source_map.get_op_line_and_col__macros(off)
                    dr = self.source_map.get_op_line_and_col__direct(off)
                    bp.append(["op", None if rel is None else _mm_json(rel), None if dr is None else [dr.line, dr.column]])
            rec = {"builder": bi, "count": op_idx_counter.count, "bp": bp, "start": len(tr.logs[bi]),
                   "macro": {"name": self.name, "relpath": self.included__relative_path, "params": _pairs({x: str(y) for x, y in parameters.items()}),
                             "pos_direct": [p.serialize() for p in self.source_map.get_position_marks__direct()],
                             "pos_macros": [[y[0], y[1], y[2].serialize()] for y in self.source_map.get_position_marks__macros()]},
                   "same_tables": self.source_map.get_position_marks__macros() is smb._pos_marks_macros}   # aliasing (hang) indicator
            tr.builds.append(rec)
            out = orig_build(self, op_idx_counter, lbl_idx_counter, parameters, smb)
            rec["end"] = len(tr.logs[bi])
            rec["count_after"] = op_idx_counter.count
            # the returned list as blueprint kinds (it becomes part of the blueprint of an enclosing macro)
            rec["out"] = [(["ms", o.length_of_macro, _pairs(o.parameter_mapping)] if isinstance(o, mmod.MacroStartSsbLabel) else ["me"] if isinstance(o, mmod.MacroEndSsbLabel)
                           else ["lbl"] if isinstance(o, SsbLabel) else ["op"]) for o in out]
            return out
        M.build = build

    def remove(self) -> None:
        for cls, name, orig in reversed(self.saved):
            setattr(cls, name, orig)
        self.saved = []

    def result(self, final_sm: Any) -> dict:
        from explorerscript.source_map import SourceMap
        finals = []
        routine = None
        for i, b in enumerate(self.objs):
            finals.append(json.loads(SourceMap(b._mappings, b._pos_marks, b._mappings_macros, b._pos_marks_macros).serialize()))
        for sm, i in self.built:
            if sm is final_sm:
                routine = i
        return {"logs": self.logs, "builds": self.builds, "finals": finals, "routine_builder": routine}


def compile_project(arg: dict) -> dict:
    """arg: {"root": abs dir (created and removed here), "main": rel path, "texts": {rel path: text}, "lookup": [abs], "trace": bool}
    -> compile_text result + "included": [rel paths of IncludedUsageMap] + "trace" """
    import shutil
    from explorerscript.ssb_converting.ssb_compiler import ExplorerScriptSsbCompiler
    from explorerscript.included_usage_map import IncludedUsageMap
    root = arg["root"]
    assert root.startswith("/tmp/")
    shutil.rmtree(root, ignore_errors=True)
    tr = _SmbTrace() if arg.get("trace") else None
    try:
        for f, t in arg["texts"].items():
            p = os.path.join(root, f)
            os.makedirs(os.path.dirname(p), exist_ok=True)
            with open(p, "w", encoding="utf-8") as fh:
                fh.write(t)
        main = os.path.join(root, arg["main"])
        if arg.get("warmup"):
            # another script of the same project, three directories deeper, that imports the same files, compiled first in this
            # process: what the compiled file's source map says must not depend on it (paths are relative to the COMPILED file)
            import re
            try:
                wdir = os.path.join(root, "zz_warm", "a", "b")
                os.makedirs(wdir, exist_ok=True)
                lines = []
                for m in re.finditer(r'^\s*import\s+(["\'])(.*?)\1\s*;', arg["texts"][arg["main"]], flags=re.M):
                    spec = m.group(2)
                    if spec.startswith("."):
                        spec = os.path.normpath(os.path.join(os.path.dirname(main), spec))
                    lines.append('import "' + spec.replace("\\", "/") + '";')
                wtext = "\n".join(lines) + "\ndef 0 {\n    end;\n}\n"
                wmain = os.path.join(wdir, "warm.exps")
                with open(wmain, "w", encoding="utf-8") as fh:
                    fh.write(wtext)
                ExplorerScriptSsbCompiler(arg.get("perf", PERF_VAR), arg.get("lookup", [])).compile(wtext, wmain)
            except BaseException:  # noqa
                pass
        c = ExplorerScriptSsbCompiler(arg.get("perf", PERF_VAR), arg.get("lookup", []))
        if tr:
            tr.install()
        try:
            c.compile(arg["texts"][arg["main"]], main)
        except BaseException as e:  # noqa
            r = _exc(e)
            r["partial_output"] = c.routine_ops is not None
            return r
        finally:
            if tr:
                tr.remove()
        out = rsjson.rs_to_json(c.routine_infos, c.routine_ops, c.named_coroutines)
        out["source_map"] = sm_json(c.source_map)
        out["macro_order"] = list(c.macro_resolution_order)
        out["included"] = sorted(os.path.relpath(p, root) for p in IncludedUsageMap(c.source_map, main).included_files)
        if tr:
            out["trace"] = tr.result(c.source_map)
        return out
    finally:
        shutil.rmtree(root, ignore_errors=True)


def compile_traced(arg: dict) -> dict:
    """single-file form: {"text"} compiled as <root>/main.exps with the SourceMapBuilder protocol trace"""
    root = arg.get("root") or f"/tmp/c08w/single_{os.getpid()}"
    return compile_project({"root": root, "main": "main.exps", "texts": {"main.exps": arg["text"]}, "lookup": arg.get("lookup", []), "trace": True})


def compile_project_many(args: list[dict]) -> list[dict]:
    return [compile_project(a) for a in args]
# ----------------------------------------------------------------------------------------------------------------------
# position-mark listing (property C18): the visitor editors use to find the text span of every Position<...> literal
# ----------------------------------------------------------------------------------------------------------------------
def pos_mark_listing(arg: dict) -> dict:
    """arg: {"text"} -> {"marks": [[line, col, end_line, end_col, name, x_offset, y_offset, x_relative, y_relative]]}
    The listing API: PositionMarkVisitor().visit(ExplorerScriptReader(text).read())"""
    from explorerscript.explorerscript_reader import ExplorerScriptReader
    from explorerscript.ssb_converting.compiler.compiler_visitor.position_mark_visitor import PositionMarkVisitor
    try:
        tree = ExplorerScriptReader(arg["text"]).read()
    except BaseException as e:  # noqa
        r = _exc(e)
        r["stage"] = "parse"
        return r
    try:
        # (a listing is a function of the source: every third call of a batch goes through ONE visitor object used for the
        #  whole batch - the list / edit / list-again cycle of an editor - and must answer like a fresh one)
        visitor = arg.get("_visitor") or PositionMarkVisitor()
        marks = list(visitor.visit(tree))
    except BaseException as e:  # noqa
        r = _exc(e)
        r["stage"] = "listing"
        return r
    return {"marks": [[m.line_number, m.column_number, m.end_line_number, m.end_column_number, m.name,
                       m.x_offset, m.y_offset, m.x_relative, m.y_relative] for m in marks]}


def listing_many(args: list[dict]) -> list[dict]:
    from explorerscript.ssb_converting.compiler.compiler_visitor.position_mark_visitor import PositionMarkVisitor
    shared = PositionMarkVisitor()
    return [pos_mark_listing(dict(a, _visitor=shared) if i % 3 == 2 else a) for i, a in enumerate(args)]


def listing_and_compile(arg: dict) -> dict:
    return {"listing": pos_mark_listing(arg), "compiled": compile_text(arg)}


def listing_and_compile_many(args: list[dict]) -> list[dict]:
    from explorerscript.ssb_converting.compiler.compiler_visitor.position_mark_visitor import PositionMarkVisitor
    shared = PositionMarkVisitor()
    out = []
    for i, a in enumerate(args):
        out.append({"listing": pos_mark_listing(dict(a, _visitor=shared) if i % 3 == 2 else a), "compiled": compile_text(a)})
    return out


def print_mark(arg: list) -> str:
    """str(SsbOpParamPositionMarker(name, x_offset, y_offset, x_relative, y_relative))"""
    from explorerscript.ssb_converting.ssb_data_types import SsbOpParamPositionMarker
    return str(SsbOpParamPositionMarker(*arg))


def splice_span(text: str, start: Any, end: Any, new: str) -> Any:
    """what an editor does with one listing entry: the text from (line, col) `start` up to and including the character at
    `end` is replaced by `new`; lines are separated by '\\n', columns count code points.  None: span not inside the text."""
    lines = text.split("\n")
    (l1, c1), (l2, c2) = start, end
    if not (0 <= l1 < len(lines) and 0 <= l2 < len(lines) and 0 <= c1 < len(lines[l1]) and 0 <= c2 < len(lines[l2])):
        return None
    if (l1, c1) > (l2, c2):
        return None
    head = "\n".join(lines[:l1] + [lines[l1][:c1]])
    tail = "\n".join([lines[l2][c2 + 1:]] + lines[l2 + 1:])
    return head + new + tail


def splice_and_compile(arg: dict) -> dict:
    """arg: {"text", "edits": [{"start", "end", "mark": [name, xo, yo, xr, yr]}]} -> for each edit the printed mark, the
    spliced text and its compilation"""
    out = []
    for e in arg["edits"]:
        new = print_mark(e["mark"])
        t2 = splice_span(arg["text"], e["start"], e["end"], new)
        out.append({"printed": new, "text": t2, "compiled": compile_text({"text": t2}) if t2 is not None else None})
    return {"edits": out}


def splice_and_compile_many(args: list[dict]) -> list[dict]:
    return [splice_and_compile(a) for a in args]
# ----------------------------------------------------------------------------------------------------------------------
# C05: macros, imports, file layouts
# ----------------------------------------------------------------------------------------------------------------------
ROOT_TOKEN = "{ROOT}"
TMP_PREFIX = "esv_c05_"


def macro_paths(compiler: Any) -> dict:
    """{name: (included__absolute_path, included__relative_path)} for `compiler.macros` (dict order kept)"""
    return {name: (m.included__absolute_path, m.included__relative_path) for name, m in compiler.macros.items()}


def _recording_classes() -> Any:
    """a subclass of the compiler that records, per compile() call (main file and every imported file): the file actually
    compiled, the raw imports, what `_resolve_imported_file` returned, the keys of `in_macros` given to
    MacroResolutionOrderVisitor and the order it computed.  The bodies executed are the current /repo code."""
    import re
    from explorerscript.ssb_converting import ssb_compiler as sc
    log: list[dict] = []
    stack: list[dict] = []
    base_visitor = getattr(sc.MacroResolutionOrderVisitor, "_esv_base", sc.MacroResolutionOrderVisitor)

    class RecVisitor(base_visitor):  # type: ignore
        _esv_base = base_visitor

        def __init__(self, in_macros: Any):
            if stack:
                stack[-1]["in_macros"] = list(in_macros.keys())
            super().__init__(in_macros)

        def visitStart(self, ctx: Any) -> Any:
            try:
                r = super().visitStart(ctx)
            except BaseException as e:  # noqa
                if stack:
                    m = re.search(r"for macro '([^']*)'", str(e))
                    stack[-1]["order_error"] = [type(e).__name__, m.group(1) if m else str(e)[:100]]
                raise
            if stack:
                stack[-1]["order"] = list(r)
            return r

    class RecCompiler(sc.ExplorerScriptSsbCompiler):  # type: ignore
        def compile(self, src: str, file_name: str, macros_only: bool = False, original_base_file: Any = None) -> Any:
            entry: dict = {"file": file_name, "macros_only": macros_only, "depth": len(stack)}
            log.append(entry)
            stack.append(entry)
            try:
                return super().compile(src, file_name, macros_only, original_base_file)
            except BaseException as e:  # noqa
                entry["raised"] = type(e).__name__
                raise
            finally:
                stack.pop()

        def _resolve_imported_file(self, dir_name: str) -> Any:
            e = stack[-1] if stack else {}
            e["dir"] = dir_name
            e["imports"] = list(self.imports)
            e["lookup"] = list(self.lookup_paths)
            try:
                r = super()._resolve_imported_file(dir_name)
            except BaseException as ex:  # noqa
                e["resolve_error"] = [type(ex).__name__, str(ex)[:200]]
                raise
            e["resolved"] = list(r)
            return r

    return sc, RecVisitor, RecCompiler, log


def compile_layout(arg: dict) -> dict:
    """arg: {"files": {relpath: text}, "dirs": [relpath], "main": relpath, "lookup": [str], "run": id}
    `{ROOT}` in texts and lookup paths stands for the temporary root directory (created under /tmp, always removed).
    Returns the routine set JSON + macro order + macro paths + per-file log, every path with the root replaced by `{ROOT}`."""
    import shutil
    import tempfile
    root = os.path.realpath(tempfile.mkdtemp(prefix=TMP_PREFIX + str(arg.get("run", "x")) + "_", dir="/tmp"))
    assert root.startswith("/tmp/") and "/repo" not in root and "/verif" not in root

    def unroot(x: Any) -> Any:
        if isinstance(x, str):
            return x.replace(root, ROOT_TOKEN)
        if isinstance(x, (list, tuple)):
            return [unroot(y) for y in x]
        if isinstance(x, dict):
            return {unroot(k): unroot(v) for k, v in x.items()}
        return x

    sc, RecVisitor, RecCompiler, log = _recording_classes()
    saved = sc.MacroResolutionOrderVisitor
    out: dict
    try:
        files = dict(arg.get("files") or {})
        if arg.get("asts"):
            # surface ASTs are printed here, in the worker (the printer is harness code; this only moves the work off the
            # single-threaded parent)
            from .gen import surface
            for rel, ast in arg["asts"].items():
                files[rel] = surface.print_program(ast)[0]
        for d in arg.get("dirs", []):
            os.makedirs(os.path.join(root, d), exist_ok=True)
        for rel, text in files.items():
            p = os.path.join(root, rel)
            os.makedirs(os.path.dirname(p), exist_ok=True)
            with open(p, "w", encoding="utf-8") as fh:
                fh.write(text.replace(ROOT_TOKEN, root))
        tree = []
        for dp, _dns, fns in os.walk(root):
            tree.append(dp)
            tree += [os.path.join(dp, f) for f in fns]
        main = os.path.join(root, arg["main"])
        lookup = [lp.replace(ROOT_TOKEN, root) for lp in arg.get("lookup", [])]
        sc.MacroResolutionOrderVisitor = RecVisitor
        c = RecCompiler(arg.get("perf", PERF_VAR), lookup)
        try:
            with open(main, encoding="utf-8") as fh:
                c.compile(fh.read(), main)
            out = rsjson.rs_to_json(c.routine_infos, c.routine_ops, c.named_coroutines)
            # source-map macro entries, reduced to (relative file, macro name, count)
            pairs: dict = {}
            if c.source_map is not None:
                for _off, m in c.source_map.collect_mappings__macros():
                    key = (m.relpath_included_file, m.macro_name)
                    pairs[key] = pairs.get(key, 0) + 1
            out["sm_macros"] = [[k[0], k[1], v] for k, v in pairs.items()]
            if arg.get("full_source_map"):
                out["source_map"] = sm_json(c.source_map)
        except BaseException as e:  # noqa
            out = _exc(e)
        out["macro_order"] = list(c.macro_resolution_order)
        out["macros"] = {k: list(v) for k, v in macro_paths(c).items()}
        out["log"] = log
        out["tree"] = tree if len(files) > 1 or arg.get("dirs") else [root, os.path.dirname(main), main]
        out["tree_files"] = [x for x in out["tree"] if os.path.isfile(x)]
        out["cwd"] = os.getcwd()
        out = unroot(out)
    finally:
        sc.MacroResolutionOrderVisitor = saved
        shutil.rmtree(root, ignore_errors=True)
    return out


def compile_layouts(args: list[dict]) -> list[dict]:
    return [compile_layout(a) for a in args]


def resolve_many(arg: dict) -> dict:
    """direct calls of the real `_resolve_imported_file` on a temporary tree.
    arg: {"files": [rel], "dirs": [rel], "queries": [{"dir", "lookup": [...], "imports": [...]}], "run"}; `{ROOT}` = the tree's root"""
    import shutil
    import tempfile
    from explorerscript.ssb_converting.ssb_compiler import ExplorerScriptSsbCompiler
    root = os.path.realpath(tempfile.mkdtemp(prefix=TMP_PREFIX + str(arg.get("run", "x")) + "_", dir="/tmp"))
    assert root.startswith("/tmp/") and "/repo" not in root and "/verif" not in root
    try:
        for d in arg.get("dirs", []):
            os.makedirs(os.path.join(root, d), exist_ok=True)
        for rel in arg["files"]:
            p = os.path.join(root, rel)
            os.makedirs(os.path.dirname(p), exist_ok=True)
            with open(p, "w") as fh:
                fh.write("")
        tree = []
        for dp, _dns, fns in os.walk(root):
            tree.append(dp)
            tree += [os.path.join(dp, f) for f in fns]
        answers = []
        for q in arg["queries"]:
            c = ExplorerScriptSsbCompiler(PERF_VAR, [lp.replace(ROOT_TOKEN, root) for lp in q["lookup"]])
            c.imports = [i.replace(ROOT_TOKEN, root) for i in q["imports"]]
            try:
                r = c._resolve_imported_file(q["dir"].replace(ROOT_TOKEN, root))
                answers.append({"ok": [p.replace(root, ROOT_TOKEN) for p in r]})
            except BaseException as e:  # noqa
                answers.append({"err": type(e).__name__, "msg": str(e)[:200].replace(root, ROOT_TOKEN)})
        return {"tree": [t.replace(root, ROOT_TOKEN) for t in tree], "tree_files": [t.replace(root, ROOT_TOKEN) for t in tree if os.path.isfile(t)],
                "answers": answers, "cwd": os.getcwd()}
    finally:
        shutil.rmtree(root, ignore_errors=True)
