"""Implementation adapters for the ExplorerScript compiler / decompilers (run inside workers)."""
from __future__ import annotations

import json
import os
import traceback
from typing import Any

from . import rsjson
from .gen.surface import PERF_VAR

DMODE = ("DMODE_CLOSE", "DMODE_OPEN", "DMODE_REQUEST", "DMODE_OPEN_AND_REQUEST")


def _exc(e: BaseException) -> dict:
    tb = traceback.extract_tb(e.__traceback__)
    site = ""
    for fr in reversed(tb):
        if "explorerscript" in fr.filename and "/harness/" not in fr.filename:
            site = os.path.basename(fr.filename) + ":" + fr.name
            break
    return {"error": type(e).__name__, "msg": str(e)[:300], "site": site}


def sm_json(sm: Any) -> Any:
    return json.loads(sm.serialize()) if sm is not None else None


def compile_text(arg: dict) -> dict:
    """arg: {"text", "file" (abs path, default /nonexistent/main.exps), "lookup": []}"""
    from explorerscript.ssb_converting.ssb_compiler import ExplorerScriptSsbCompiler
    c = ExplorerScriptSsbCompiler(arg.get("perf", PERF_VAR), arg.get("lookup", []))
    try:
        c.compile(arg["text"], arg.get("file", "/nonexistent/main.exps"))
    except BaseException as e:  # noqa
        r = _exc(e)
        r["partial_output"] = c.routine_ops is not None
        return r
    out = rsjson.rs_to_json(c.routine_infos, c.routine_ops, c.named_coroutines)
    out["source_map"] = sm_json(c.source_map)
    out["macro_order"] = list(c.macro_resolution_order)
    out["imports"] = list(c.imports)
    return out


def compile_many(args: list[dict]) -> list[dict]:
    return [compile_text(a) for a in args]


def decompile(arg: dict) -> dict:
    """arg: {"rs": routine set json, "ssbs": bool}"""
    from explorerscript.ssb_converting.ssb_data_types import DungeonModeConstants
    infos, ops, coros = rsjson.rs_from_json(arg["rs"])
    try:
        if arg.get("ssbs"):
            from explorerscript.ssb_script.ssb_converting.ssb_decompiler import SsbScriptSsbDecompiler
            text, sm = SsbScriptSsbDecompiler(infos, ops, coros).convert()
        else:
            from explorerscript.ssb_converting.ssb_decompiler import ExplorerScriptSsbDecompiler
            text, sm = ExplorerScriptSsbDecompiler(infos, ops, coros, arg.get("perf", PERF_VAR), DungeonModeConstants(*DMODE)).convert()
    except BaseException as e:  # noqa
        return _exc(e)
    return {"text": text, "source_map": sm_json(sm), "input_after": rsjson.rs_to_json(infos, ops, [None] * len(infos))}


def decompile_many(args: list[dict]) -> list[dict]:
    return [decompile(a) for a in args]


def decomp_pipeline(arg: dict) -> dict:
    """routine set -> real decompiler -> text -> real compiler + repo parser. arg: {"rs", "ssbs"?}
    returns {"dec": {...}|error, "fallback": bool, "recompiled": {...}|error, "core": core program | None, "ast_error": str}"""
    from . import astdump
    from .gen import surface
    out: dict = {"dec": decompile(arg)}
    if "error" in out["dec"]:
        return out
    text = out["dec"]["text"]
    out["fallback"] = "is-ssb-script" in text.split("\n", 1)[0]
    out["recompiled"] = compile_text({"text": text})
    out["recompiled"].pop("source_map_raw", None)
    if not out["fallback"] and not arg.get("ssbs"):
        try:
            ast = astdump.strip_hints(astdump.dump_text(text))
            out["ast"] = ast
            out["core"] = surface.lower_program(ast)
        except BaseException as e:  # noqa
            out["core"] = None
            out["ast_error"] = type(e).__name__ + ": " + str(e)[:200]
    return out


def decomp_pipeline_many(args: list[dict]) -> list[dict]:
    return [decomp_pipeline(a) for a in args]
