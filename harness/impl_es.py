"""Implementation adapters for the ExplorerScript compiler / decompilers (run inside workers)."""
from __future__ import annotations

import json
import os
import traceback
from typing import Any

from . import rsjson
from .gen.surface import PERF_VAR

DMODE = ("DMODE_CLOSE", "DMODE_OPEN", "DMODE_REQUEST", "DMODE_OPEN_AND_REQUEST")


def _exc(e: BaseException) -> dict:
    tb = traceback.extract_tb(e.__traceback__)
    site = ""
    for fr in reversed(tb):
        if "explorerscript" in fr.filename and "/harness/" not in fr.filename:
            site = os.path.basename(fr.filename) + ":" + fr.name
            break
    return {"error": type(e).__name__, "msg": str(e)[:300], "site": site}


def sm_json(sm: Any) -> Any:
    return json.loads(sm.serialize()) if sm is not None else None


def compile_text(arg: dict) -> dict:
    """arg: {"text", "file" (abs path, default /nonexistent/main.exps), "lookup": []}"""
    from explorerscript.ssb_converting.ssb_compiler import ExplorerScriptSsbCompiler
    c = ExplorerScriptSsbCompiler(arg.get("perf", PERF_VAR), arg.get("lookup", []))
    try:
        c.compile(arg["text"], arg.get("file", "/nonexistent/main.exps"))
    except BaseException as e:  # noqa
        r = _exc(e)
        r["partial_output"] = c.routine_ops is not None
        return r
    out = rsjson.rs_to_json(c.routine_infos, c.routine_ops, c.named_coroutines)
    out["source_map"] = sm_json(c.source_map)
    out["macro_order"] = list(c.macro_resolution_order)
    out["imports"] = list(c.imports)
    return out


def compile_many(args: list[dict]) -> list[dict]:
    return [compile_text(a) for a in args]


def decompile(arg: dict) -> dict:
    """arg: {"rs": routine set json, "ssbs": bool}"""
    from explorerscript.ssb_converting.ssb_data_types import DungeonModeConstants
    infos, ops, coros = rsjson.rs_from_json(arg["rs"])
    try:
        if arg.get("ssbs"):
            from explorerscript.ssb_script.ssb_converting.ssb_decompiler import SsbScriptSsbDecompiler
            text, sm = SsbScriptSsbDecompiler(infos, ops, coros).convert()
        else:
            from explorerscript.ssb_converting.ssb_decompiler import ExplorerScriptSsbDecompiler
            text, sm = ExplorerScriptSsbDecompiler(infos, ops, coros, arg.get("perf", PERF_VAR), DungeonModeConstants(*DMODE)).convert()
    except BaseException as e:  # noqa
        return _exc(e)
    return {"text": text, "source_map": sm_json(sm), "input_after": rsjson.rs_to_json(infos, ops, [None] * len(infos))}


def decompile_many(args: list[dict]) -> list[dict]:
    return [decompile(a) for a in args]


# ----------------------------------------------------------------------------------------------------------------------
# position-mark listing (property C18): the visitor editors use to find the text span of every Position<...> literal
# ----------------------------------------------------------------------------------------------------------------------
def pos_mark_listing(arg: dict) -> dict:
    """arg: {"text"} -> {"marks": [[line, col, end_line, end_col, name, x_offset, y_offset, x_relative, y_relative]]}
    The listing API: PositionMarkVisitor().visit(ExplorerScriptReader(text).read())"""
    from explorerscript.explorerscript_reader import ExplorerScriptReader
    from explorerscript.ssb_converting.compiler.compiler_visitor.position_mark_visitor import PositionMarkVisitor
    try:
        tree = ExplorerScriptReader(arg["text"]).read()
    except BaseException as e:  # noqa
        r = _exc(e)
        r["stage"] = "parse"
        return r
    try:
        marks = PositionMarkVisitor().visit(tree)
    except BaseException as e:  # noqa
        r = _exc(e)
        r["stage"] = "listing"
        return r
    return {"marks": [[m.line_number, m.column_number, m.end_line_number, m.end_column_number, m.name,
                       m.x_offset, m.y_offset, m.x_relative, m.y_relative] for m in marks]}


def listing_many(args: list[dict]) -> list[dict]:
    return [pos_mark_listing(a) for a in args]


def listing_and_compile(arg: dict) -> dict:
    return {"listing": pos_mark_listing(arg), "compiled": compile_text(arg)}


def listing_and_compile_many(args: list[dict]) -> list[dict]:
    return [listing_and_compile(a) for a in args]


def print_mark(arg: list) -> str:
    """str(SsbOpParamPositionMarker(name, x_offset, y_offset, x_relative, y_relative))"""
    from explorerscript.ssb_converting.ssb_data_types import SsbOpParamPositionMarker
    return str(SsbOpParamPositionMarker(*arg))


def splice_span(text: str, start: Any, end: Any, new: str) -> Any:
    """what an editor does with one listing entry: the text from (line, col) `start` up to and including the character at
    `end` is replaced by `new`; lines are separated by '\\n', columns count code points.  None: span not inside the text."""
    lines = text.split("\n")
    (l1, c1), (l2, c2) = start, end
    if not (0 <= l1 < len(lines) and 0 <= l2 < len(lines) and 0 <= c1 < len(lines[l1]) and 0 <= c2 < len(lines[l2])):
        return None
    if (l1, c1) > (l2, c2):
        return None
    head = "\n".join(lines[:l1] + [lines[l1][:c1]])
    tail = "\n".join([lines[l2][c2 + 1:]] + lines[l2 + 1:])
    return head + new + tail


def splice_and_compile(arg: dict) -> dict:
    """arg: {"text", "edits": [{"start", "end", "mark": [name, xo, yo, xr, yr]}]} -> for each edit the printed mark, the
    spliced text and its compilation"""
    out = []
    for e in arg["edits"]:
        new = print_mark(e["mark"])
        t2 = splice_span(arg["text"], e["start"], e["end"], new)
        out.append({"printed": new, "text": t2, "compiled": compile_text({"text": t2}) if t2 is not None else None})
    return {"edits": out}


def splice_and_compile_many(args: list[dict]) -> list[dict]:
    return [splice_and_compile(a) for a in args]
