"""Implementation adapters for the ExplorerScript compiler / decompilers (run inside workers)."""
from __future__ import annotations

import json
import os
import traceback
from typing import Any

from . import rsjson
from .gen.surface import PERF_VAR

DMODE = ("DMODE_CLOSE", "DMODE_OPEN", "DMODE_REQUEST", "DMODE_OPEN_AND_REQUEST")


def _exc(e: BaseException) -> dict:
    tb = traceback.extract_tb(e.__traceback__)
    site = ""
    for fr in reversed(tb):
        if "explorerscript" in fr.filename and "/harness/" not in fr.filename:
            site = os.path.basename(fr.filename) + ":" + fr.name
            break
    return {"error": type(e).__name__, "msg": str(e)[:300], "site": site}


def sm_json(sm: Any) -> Any:
    return json.loads(sm.serialize()) if sm is not None else None


def compile_text(arg: dict) -> dict:
    """arg: {"text", "file" (abs path, default /nonexistent/main.exps), "lookup": []}"""
    from explorerscript.ssb_converting.ssb_compiler import ExplorerScriptSsbCompiler
    c = ExplorerScriptSsbCompiler(arg.get("perf", PERF_VAR), arg.get("lookup", []))
    try:
        c.compile(arg["text"], arg.get("file", "/nonexistent/main.exps"))
    except BaseException as e:  # noqa
        r = _exc(e)
        r["partial_output"] = c.routine_ops is not None
        return r
    out = rsjson.rs_to_json(c.routine_infos, c.routine_ops, c.named_coroutines)
    out["source_map"] = sm_json(c.source_map)
    out["macro_order"] = list(c.macro_resolution_order)
    out["imports"] = list(c.imports)
    return out


def compile_many(args: list[dict]) -> list[dict]:
    return [compile_text(a) for a in args]


def decompile(arg: dict) -> dict:
    """arg: {"rs": routine set json, "ssbs": bool}"""
    from explorerscript.ssb_converting.ssb_data_types import DungeonModeConstants
    infos, ops, coros = rsjson.rs_from_json(arg["rs"])
    try:
        if arg.get("ssbs"):
            from explorerscript.ssb_script.ssb_converting.ssb_decompiler import SsbScriptSsbDecompiler
            text, sm = SsbScriptSsbDecompiler(infos, ops, coros).convert()
        else:
            from explorerscript.ssb_converting.ssb_decompiler import ExplorerScriptSsbDecompiler
            text, sm = ExplorerScriptSsbDecompiler(infos, ops, coros, arg.get("perf", PERF_VAR), DungeonModeConstants(*DMODE)).convert()
    except BaseException as e:  # noqa
        return _exc(e)
    return {"text": text, "source_map": sm_json(sm), "input_after": rsjson.rs_to_json(infos, ops, [None] * len(infos))}


def decompile_many(args: list[dict]) -> list[dict]:
    return [decompile(a) for a in args]


def decomp_pipeline(arg: dict) -> dict:
    """routine set -> real decompiler -> text -> real compiler + repo parser. arg: {"rs", "ssbs"?}
    returns {"dec": {...}|error, "fallback": bool, "recompiled": {...}|error, "core": core program | None, "ast_error": str}"""
    from . import astdump
    from .gen import surface
    out: dict = {"dec": decompile(arg)}
    if "error" in out["dec"]:
        return out
    text = out["dec"]["text"]
    out["fallback"] = "is-ssb-script" in text.split("\n", 1)[0]
    out["recompiled"] = compile_text({"text": text})
    out["recompiled"].pop("source_map_raw", None)
    if not out["fallback"] and not arg.get("ssbs"):
        try:
            ast = astdump.strip_hints(astdump.dump_text(text))
            out["ast"] = ast
            out["core"] = surface.lower_program(ast)
        except BaseException as e:  # noqa
            out["core"] = None
            out["ast_error"] = type(e).__name__ + ": " + str(e)[:200]
    return out


def decomp_pipeline_many(args: list[dict]) -> list[dict]:
    return [decomp_pipeline(a) for a in args]


def decompile_traced(arg: dict) -> dict:
    """like decompile, but records the writer protocol: every write_stmnt / write_line / source-map call with the
    indent in force, by wrapping the methods of the decompiler instance from outside"""
    from explorerscript.ssb_converting.ssb_data_types import DungeonModeConstants
    infos, ops, coros = rsjson.rs_from_json(arg["rs"])
    log: list = []
    try:
        if arg.get("ssbs"):
            from explorerscript.ssb_script.ssb_converting.ssb_decompiler import SsbScriptSsbDecompiler as D
            dec = D(infos, ops, coros)
        else:
            from explorerscript.ssb_converting.ssb_decompiler import ExplorerScriptSsbDecompiler as D
            dec = D(infos, ops, coros, arg.get("perf", PERF_VAR), DungeonModeConstants(*DMODE))
        cls = type(dec)
        stmnt_name = "write_stmnt"
        line_name = "write_line" if hasattr(cls, "write_line") else "_write_line"
        orig_stmnt, orig_line = getattr(cls, stmnt_name), getattr(cls, line_name)
        state = {"fallback": False}

        def w_stmnt(self, stmnt, line=True):  # type: ignore
            log.append(["indent", self.indent])
            log.append(["stmnt", stmnt, bool(line)])
            # the real method calls write_line itself: do not log that inner call
            state["inner"] = True
            try:
                return orig_stmnt(self, stmnt, line)
            finally:
                state["inner"] = False

        def w_line(self):  # type: ignore
            if not state.get("inner"):
                log.append(["indent", self.indent])
                log.append(["line"])
            return orig_line(self)
        dec.write_stmnt = w_stmnt.__get__(dec, cls)  # type: ignore
        setattr(dec, line_name, w_line.__get__(dec, cls))
        if arg.get("ssbs"):
            orig_read = cls._read_op

            def r_op(self, op):  # type: ignore
                # _read_op records the entry itself (builder.add_opcode(offset, line, indent*4)) right before write_stmnt
                log.append(["indent", self.indent])
                log.append(["opcode", op.offset])
                return orig_read(self, op)
            dec._read_op = r_op.__get__(dec, cls)  # type: ignore
        if not arg.get("ssbs"):
            o1, o2 = cls.source_map_add_opcode, getattr(cls, "source_map_add_opcode_in_current_line", None)

            def a1(self, off):  # type: ignore
                log.append(["indent", self.indent])
                log.append(["opcode", off])
                return o1(self, off)
            dec.source_map_add_opcode = a1.__get__(dec, cls)  # type: ignore
            if o2 is not None:
                def a2(self, off):  # type: ignore
                    log.append(["opcode_inline", off])
                    return o2(self, off)
                dec.source_map_add_opcode_in_current_line = a2.__get__(dec, cls)  # type: ignore
        text, sm = dec.convert()
    except BaseException as e:  # noqa
        return _exc(e)
    return {"text": text, "source_map": sm_json(sm), "log": log, "fallback": "is-ssb-script" in text.split("\n", 1)[0]}
