"""Implementation adapters for the ExplorerScript compiler / decompilers (run inside workers)."""
from __future__ import annotations

import json
import os
import traceback
from typing import Any

from . import rsjson
from .gen.surface import PERF_VAR

DMODE = ("DMODE_CLOSE", "DMODE_OPEN", "DMODE_REQUEST", "DMODE_OPEN_AND_REQUEST")


def _exc(e: BaseException) -> dict:
    tb = traceback.extract_tb(e.__traceback__)
    site = ""
    for fr in reversed(tb):
        if "explorerscript" in fr.filename and "/harness/" not in fr.filename:
            site = os.path.basename(fr.filename) + ":" + fr.name
            break
    return {"error": type(e).__name__, "msg": str(e)[:300], "site": site}


def sm_json(sm: Any) -> Any:
    return json.loads(sm.serialize()) if sm is not None else None


def compile_text(arg: dict) -> dict:
    """arg: {"text", "file" (abs path, default /nonexistent/main.exps), "lookup": []}"""
    from explorerscript.ssb_converting.ssb_compiler import ExplorerScriptSsbCompiler
    c = ExplorerScriptSsbCompiler(arg.get("perf", PERF_VAR), arg.get("lookup", []))
    try:
        c.compile(arg["text"], arg.get("file", "/nonexistent/main.exps"))
    except BaseException as e:  # noqa
        r = _exc(e)
        r["partial_output"] = c.routine_ops is not None
        return r
    out = rsjson.rs_to_json(c.routine_infos, c.routine_ops, c.named_coroutines)
    out["source_map"] = sm_json(c.source_map)
    out["macro_order"] = list(c.macro_resolution_order)
    out["imports"] = list(c.imports)
    return out


def compile_many(args: list[dict]) -> list[dict]:
    return [compile_text(a) for a in args]


def decompile(arg: dict) -> dict:
    """arg: {"rs": routine set json, "ssbs": bool}"""
    from explorerscript.ssb_converting.ssb_data_types import DungeonModeConstants
    infos, ops, coros = rsjson.rs_from_json(arg["rs"])
    try:
        if arg.get("ssbs"):
            from explorerscript.ssb_script.ssb_converting.ssb_decompiler import SsbScriptSsbDecompiler
            text, sm = SsbScriptSsbDecompiler(infos, ops, coros).convert()
        else:
            from explorerscript.ssb_converting.ssb_decompiler import ExplorerScriptSsbDecompiler
            text, sm = ExplorerScriptSsbDecompiler(infos, ops, coros, arg.get("perf", PERF_VAR), DungeonModeConstants(*DMODE)).convert()
    except BaseException as e:  # noqa
        return _exc(e)
    return {"text": text, "source_map": sm_json(sm), "input_after": rsjson.rs_to_json(infos, ops, [None] * len(infos))}


def decompile_many(args: list[dict]) -> list[dict]:
    return [decompile(a) for a in args]


# ----------------------------------------------------------------------------------------------------------------------
# C05: macros, imports, file layouts
# ----------------------------------------------------------------------------------------------------------------------
ROOT_TOKEN = "{ROOT}"
TMP_PREFIX = "esv_c05_"


def macro_paths(compiler: Any) -> dict:
    """{name: (included__absolute_path, included__relative_path)} for `compiler.macros` (dict order kept)"""
    return {name: (m.included__absolute_path, m.included__relative_path) for name, m in compiler.macros.items()}


def _recording_classes() -> Any:
    """a subclass of the compiler that records, per compile() call (main file and every imported file): the file actually
    compiled, the raw imports, what `_resolve_imported_file` returned, the keys of `in_macros` given to
    MacroResolutionOrderVisitor and the order it computed.  The bodies executed are the current /repo code."""
    import re
    from explorerscript.ssb_converting import ssb_compiler as sc
    log: list[dict] = []
    stack: list[dict] = []
    base_visitor = getattr(sc.MacroResolutionOrderVisitor, "_esv_base", sc.MacroResolutionOrderVisitor)

    class RecVisitor(base_visitor):  # type: ignore
        _esv_base = base_visitor

        def __init__(self, in_macros: Any):
            if stack:
                stack[-1]["in_macros"] = list(in_macros.keys())
            super().__init__(in_macros)

        def visitStart(self, ctx: Any) -> Any:
            try:
                r = super().visitStart(ctx)
            except BaseException as e:  # noqa
                if stack:
                    m = re.search(r"for macro '([^']*)'", str(e))
                    stack[-1]["order_error"] = [type(e).__name__, m.group(1) if m else str(e)[:100]]
                raise
            if stack:
                stack[-1]["order"] = list(r)
            return r

    class RecCompiler(sc.ExplorerScriptSsbCompiler):  # type: ignore
        def compile(self, src: str, file_name: str, macros_only: bool = False, original_base_file: Any = None) -> Any:
            entry: dict = {"file": file_name, "macros_only": macros_only, "depth": len(stack)}
            log.append(entry)
            stack.append(entry)
            try:
                return super().compile(src, file_name, macros_only, original_base_file)
            except BaseException as e:  # noqa
                entry["raised"] = type(e).__name__
                raise
            finally:
                stack.pop()

        def _resolve_imported_file(self, dir_name: str) -> Any:
            e = stack[-1] if stack else {}
            e["dir"] = dir_name
            e["imports"] = list(self.imports)
            e["lookup"] = list(self.lookup_paths)
            try:
                r = super()._resolve_imported_file(dir_name)
            except BaseException as ex:  # noqa
                e["resolve_error"] = [type(ex).__name__, str(ex)[:200]]
                raise
            e["resolved"] = list(r)
            return r

    return sc, RecVisitor, RecCompiler, log


def compile_layout(arg: dict) -> dict:
    """arg: {"files": {relpath: text}, "dirs": [relpath], "main": relpath, "lookup": [str], "run": id}
    `{ROOT}` in texts and lookup paths stands for the temporary root directory (created under /tmp, always removed).
    Returns the routine set JSON + macro order + macro paths + per-file log, every path with the root replaced by `{ROOT}`."""
    import shutil
    import tempfile
    root = os.path.realpath(tempfile.mkdtemp(prefix=TMP_PREFIX + str(arg.get("run", "x")) + "_", dir="/tmp"))
    assert root.startswith("/tmp/") and "/repo" not in root and "/verif" not in root

    def unroot(x: Any) -> Any:
        if isinstance(x, str):
            return x.replace(root, ROOT_TOKEN)
        if isinstance(x, (list, tuple)):
            return [unroot(y) for y in x]
        if isinstance(x, dict):
            return {unroot(k): unroot(v) for k, v in x.items()}
        return x

    sc, RecVisitor, RecCompiler, log = _recording_classes()
    saved = sc.MacroResolutionOrderVisitor
    out: dict
    try:
        files = dict(arg.get("files") or {})
        if arg.get("asts"):
            # surface ASTs are printed here, in the worker (the printer is harness code; this only moves the work off the
            # single-threaded parent)
            from .gen import surface
            for rel, ast in arg["asts"].items():
                files[rel] = surface.print_program(ast)[0]
        for d in arg.get("dirs", []):
            os.makedirs(os.path.join(root, d), exist_ok=True)
        for rel, text in files.items():
            p = os.path.join(root, rel)
            os.makedirs(os.path.dirname(p), exist_ok=True)
            with open(p, "w", encoding="utf-8") as fh:
                fh.write(text.replace(ROOT_TOKEN, root))
        tree = []
        for dp, _dns, fns in os.walk(root):
            tree.append(dp)
            tree += [os.path.join(dp, f) for f in fns]
        main = os.path.join(root, arg["main"])
        lookup = [lp.replace(ROOT_TOKEN, root) for lp in arg.get("lookup", [])]
        sc.MacroResolutionOrderVisitor = RecVisitor
        c = RecCompiler(arg.get("perf", PERF_VAR), lookup)
        try:
            with open(main, encoding="utf-8") as fh:
                c.compile(fh.read(), main)
            out = rsjson.rs_to_json(c.routine_infos, c.routine_ops, c.named_coroutines)
            # source-map macro entries, reduced to (relative file, macro name, count)
            pairs: dict = {}
            if c.source_map is not None:
                for _off, m in c.source_map.collect_mappings__macros():
                    key = (m.relpath_included_file, m.macro_name)
                    pairs[key] = pairs.get(key, 0) + 1
            out["sm_macros"] = [[k[0], k[1], v] for k, v in pairs.items()]
            if arg.get("full_source_map"):
                out["source_map"] = sm_json(c.source_map)
        except BaseException as e:  # noqa
            out = _exc(e)
        out["macro_order"] = list(c.macro_resolution_order)
        out["macros"] = {k: list(v) for k, v in macro_paths(c).items()}
        out["log"] = log
        out["tree"] = tree if len(files) > 1 or arg.get("dirs") else [root, os.path.dirname(main), main]
        out["tree_files"] = [x for x in out["tree"] if os.path.isfile(x)]
        out["cwd"] = os.getcwd()
        out = unroot(out)
    finally:
        sc.MacroResolutionOrderVisitor = saved
        shutil.rmtree(root, ignore_errors=True)
    return out


def compile_layouts(args: list[dict]) -> list[dict]:
    return [compile_layout(a) for a in args]


def resolve_many(arg: dict) -> dict:
    """direct calls of the real `_resolve_imported_file` on a temporary tree.
    arg: {"files": [rel], "dirs": [rel], "queries": [{"dir", "lookup": [...], "imports": [...]}], "run"}; `{ROOT}` = the tree's root"""
    import shutil
    import tempfile
    from explorerscript.ssb_converting.ssb_compiler import ExplorerScriptSsbCompiler
    root = os.path.realpath(tempfile.mkdtemp(prefix=TMP_PREFIX + str(arg.get("run", "x")) + "_", dir="/tmp"))
    assert root.startswith("/tmp/") and "/repo" not in root and "/verif" not in root
    try:
        for d in arg.get("dirs", []):
            os.makedirs(os.path.join(root, d), exist_ok=True)
        for rel in arg["files"]:
            p = os.path.join(root, rel)
            os.makedirs(os.path.dirname(p), exist_ok=True)
            with open(p, "w") as fh:
                fh.write("")
        tree = []
        for dp, _dns, fns in os.walk(root):
            tree.append(dp)
            tree += [os.path.join(dp, f) for f in fns]
        answers = []
        for q in arg["queries"]:
            c = ExplorerScriptSsbCompiler(PERF_VAR, [lp.replace(ROOT_TOKEN, root) for lp in q["lookup"]])
            c.imports = [i.replace(ROOT_TOKEN, root) for i in q["imports"]]
            try:
                r = c._resolve_imported_file(q["dir"].replace(ROOT_TOKEN, root))
                answers.append({"ok": [p.replace(root, ROOT_TOKEN) for p in r]})
            except BaseException as e:  # noqa
                answers.append({"err": type(e).__name__, "msg": str(e)[:200].replace(root, ROOT_TOKEN)})
        return {"tree": [t.replace(root, ROOT_TOKEN) for t in tree], "tree_files": [t.replace(root, ROOT_TOKEN) for t in tree if os.path.isfile(t)],
                "answers": answers, "cwd": os.getcwd()}
    finally:
        shutil.rmtree(root, ignore_errors=True)
