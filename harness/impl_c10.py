"""Implementation adapters for C10 (run inside workers): compile a text or a small world of files with the real
compiler and report the exception class (with its base classes), the innermost repository frame, and whether any
output object was left behind; run the compile CLI in a subprocess."""
from __future__ import annotations

import contextlib
import io
import json
import os
import shutil
import subprocess
import sys
import tempfile
import traceback
from typing import Any

from .gen.surface import PERF_VAR

DOCUMENTED = ("ParseError", "SsbCompilerError", "ValueError")
PY_DEFAULT_RECURSION_LIMIT = 1000


def _site(e: BaseException) -> str:
    tb = traceback.extract_tb(e.__traceback__)
    for fr in reversed(tb):
        fn = fr.filename.replace("\\", "/")
        if "/explorerscript/" in fn and "/harness/" not in fn:
            return os.path.basename(fn) + ":" + fr.name
    return ""


def _outcome(c: Any, e: BaseException | None) -> dict:
    if e is None:
        return {"ok": True, "routines": len(c.routine_ops) if c.routine_ops is not None else None,
                "ops": sum(len(r) for r in (c.routine_ops or [])),
                "has_all": all(x is not None for x in (c.routine_ops, c.routine_infos, c.named_coroutines, c.source_map))}
    mro = [k.__name__ for k in type(e).__mro__]
    site = _site(e)
    if isinstance(e, RecursionError):
        site = "nesting"                       # the frame in which the limit trips is arbitrary
    return {"error": type(e).__name__, "mro": mro, "documented": any(d in mro for d in DOCUMENTED), "site": site,
            "msg": str(e)[:200],
            "partial_output": any(x is not None for x in (c.routine_ops, c.routine_infos, c.named_coroutines, c.source_map))}


def compile_one(arg: dict) -> dict:
    """arg: {"text", "file"?, "lookup"?, "perf"?}"""
    from explorerscript.ssb_converting.ssb_compiler import ExplorerScriptSsbCompiler
    c = ExplorerScriptSsbCompiler(arg.get("perf", PERF_VAR), arg.get("lookup", []))
    old = sys.getrecursionlimit()
    # the worker raises the limit for its own purposes; the property is about a standard interpreter
    sys.setrecursionlimit(PY_DEFAULT_RECURSION_LIMIT + 10)
    try:
        try:
            # ANTLR's ConsoleErrorListener stays registered and prints every syntax error
            with contextlib.redirect_stderr(io.StringIO()), contextlib.redirect_stdout(io.StringIO()):
                c.compile(arg["text"], arg.get("file", "/nonexistent/main.exps"))
        except BaseException as e:  # noqa
            if isinstance(e, (KeyboardInterrupt, SystemExit)):
                raise
            return _outcome(c, e)
        return _outcome(c, None)
    finally:
        sys.setrecursionlimit(old)


def compile_many(args: list[dict]) -> list[dict]:
    return [compile_one(a) for a in args]


def compile_world(arg: dict) -> dict:
    """arg: {"files": {relative name: text | {"bytes": [..]} | {"dir": true}}, "root": name, "lookup": [relative dirs]}
    The files are written below a fresh directory in /tmp, the root is compiled from there."""
    d = os.path.realpath(tempfile.mkdtemp(prefix="c10w_"))
    try:
        # "@ROOT@" in file texts and lookup paths stands for the directory the world is written to (absolute imports)
        arg = dict(arg, files={n: (c.replace("@ROOT@", d) if isinstance(c, str) else c) for n, c in arg["files"].items()},
                   lookup=[lp.replace("@ROOT@", d) for lp in arg.get("lookup", [])])
        for name, content in arg["files"].items():
            p = os.path.join(d, name)
            os.makedirs(os.path.dirname(p), exist_ok=True)
            if isinstance(content, dict) and content.get("dir"):
                os.makedirs(p, exist_ok=True)
            elif isinstance(content, dict):
                with open(p, "wb") as fh:
                    fh.write(bytes(content["bytes"]))
            else:
                with open(p, "w", encoding="utf-8") as fh:
                    fh.write(content)
        root = os.path.join(d, arg["root"])
        text = arg["files"][arg["root"]]
        r = compile_one({"text": text, "file": root, "lookup": arg.get("lookup", []), "perf": arg.get("perf", PERF_VAR)})
        if "msg" in r:
            r["msg"] = r["msg"].replace(d, "<tmp>")
        return r
    finally:
        shutil.rmtree(d, ignore_errors=True)


def worlds_many(args: list[dict]) -> list[dict]:
    return [compile_world(a) for a in args]


def cli_compile(arg: dict) -> dict:
    """run `python -m explorerscript.cli.compile` on {"text"} in a subprocess; report exit status and whether stdout is JSON"""
    d = tempfile.mkdtemp(prefix="c10cli_")
    try:
        src = os.path.join(d, "main.exps")
        with open(src, "w", encoding="utf-8") as fh:
            fh.write(arg["text"])
        settings = os.path.join(d, "settings.json")
        with open(settings, "w") as fh:
            json.dump({"settings": {"performance_progress_list_var_name": arg.get("perf", PERF_VAR),
                                    "dungeon_mode_constants": {"open": "DMODE_OPEN", "closed": "DMODE_CLOSE", "request": "DMODE_REQUEST",
                                                               "open_request": "DMODE_OPEN_AND_REQUEST"}}}, fh)
        env = dict(os.environ)
        env["PYTHONPATH"] = os.environ.get("VERIF_REPO", "/repo") + os.pathsep + env.get("PYTHONPATH", "")
        p = subprocess.run([sys.executable, "-m", "explorerscript.cli.compile", src, "--settings", settings],
                           capture_output=True, text=True, timeout=arg.get("timeout", 60), cwd=d, env=env)
        out = p.stdout.strip()
        is_json = False
        if out:
            try:
                json.loads(out)
                is_json = True
            except Exception:
                is_json = False
        last = [l for l in p.stderr.strip().splitlines() if l.strip()][-1:] or [""]
        return {"rc": p.returncode, "stdout_json": is_json, "stdout_len": len(out), "stderr_last": last[0][:200]}
    except subprocess.TimeoutExpired:
        return {"rc": None, "timeout": True, "stdout_json": False, "stdout_len": 0, "stderr_last": ""}
    finally:
        shutil.rmtree(d, ignore_errors=True)
