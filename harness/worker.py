"""Worker process: executes `module:function(arg)` tasks against the implementation in $VERIF_REPO.
One JSON task per input line, one JSON result per output line."""
from __future__ import annotations

import importlib
import json
import os
import resource
import sys
import traceback
import warnings

ROOT = os.path.dirname(os.path.dirname(os.path.abspath(__file__)))
REPO = os.environ.get("VERIF_REPO", "/repo")
sys.path.insert(0, REPO)
sys.path.insert(0, ROOT)
# the default recursion limit is kept: it is part of the behaviour users see (RecursionError -> fallback)
warnings.simplefilter("ignore")


def main() -> None:
    mem = int(os.environ.get("VERIF_MEM_MB", "3000")) * 1024 * 1024
    try:
        resource.setrlimit(resource.RLIMIT_AS, (mem, mem))
    except Exception:
        pass
    out = os.fdopen(os.dup(1), "w")
    if not os.environ.get("VERIF_DEBUG"):
        devnull = os.open(os.devnull, os.O_WRONLY)
        os.dup2(devnull, 2)  # the implementation logs and prints a lot
    os.dup2(2, 1)  # anything the implementation prints goes to stderr
    import logging
    logging.disable(logging.CRITICAL)
    sys.stdout = sys.stderr
    cache: dict = {}
    for line in sys.stdin:
        try:
            task = json.loads(line)
            mod, fn = task["fn"].split(":")
            if mod not in cache:
                cache[mod] = importlib.import_module(mod)
            res = getattr(cache[mod], fn)(task["arg"])
        except MemoryError:
            res = {"__exc__": "MemoryError"}
        except BaseException as e:  # noqa
            res = {"__exc__": type(e).__name__, "msg": str(e)[:500], "tb": traceback.format_exc()[-1500:]}
        out.write(json.dumps(res, default=str) + "\n")
        out.flush()


if __name__ == "__main__":
    main()
