#!/bin/sh
# run every claimed check (quick) on the unchanged /repo and report exit codes
cd "$(dirname "$0")"
for id in $(/venv/bin/python -c "import json; print(' '.join(c['property_id'] for c in json.load(open('MANIFEST.json'))['checks']))"); do
  ./check "$id" --tier "${1:-quick}" > /tmp/runall_$id.log 2>&1; rc=$?
  echo "$id exit=$rc $(grep -c '^VIOLATION' /tmp/runall_$id.log) violations $(tail -1 /tmp/runall_$id.log)"
done
