"""Ingest the round-7 seeded changes: /tmp/seed7/<PROP>/out/{patchN.diff,demoN.py,notesN.md} -> seeded/<PROP>-mut7_<prop>-N/"""
import json, os, re, shutil, sys
HERE = os.path.dirname(os.path.abspath(__file__))
for prop in sys.argv[1:]:
    wt = f"/tmp/seed7/{prop}"
    for n in (1, 2, 3):
        p, d = f"{wt}/out/patch{n}.diff", f"{wt}/out/demo{n}.py"
        if not (os.path.exists(p) and os.path.exists(d)):
            continue
        sid = f"{prop}-mut7_{prop.lower()}-{n}"
        dst = os.path.join(HERE, "seeded", sid)
        os.makedirs(dst, exist_ok=True)
        shutil.copy(p, os.path.join(dst, "patch.diff"))
        src = open(d).read()
        if wt in src:
            print("NOTE: demo mentions its worktree path:", sid)
        open(os.path.join(dst, "demo.py"), "w").write(src)
        notes = f"{wt}/out/notes{n}.md"
        needs = ""
        if os.path.exists(notes):
            shutil.copy(notes, os.path.join(dst, "notes.md"))
            txt = open(notes).read()
            m = re.search(r"(?is)(needs?|manifest)[^\n]*\n?(.{0,400})", txt)
            needs = " ".join(txt.split())[:500]
        json.dump({"property": prop, "needs": needs, "round": 7,
                   "source": "independent sub-agent given only the property text and a scratch worktree of /repo",
                   "ran": "tools_seeded.py (demo without/with the change, test suite with the change, the property's check with VERIF_REPO=<patched copy>)"},
                  open(os.path.join(dst, "meta.json"), "w"), indent=1)
        print(sid)
