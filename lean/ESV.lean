import ESV.Gen.Tables
import ESV.Base.Dec
import ESV.Base.Dict
import ESV.SourceMap.Model
import ESV.Props.C14
import ESV.Pyg.Model
import ESV.Pyg.Lemmas
import ESV.Props.C17
