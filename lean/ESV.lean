import ESV.Gen.Tables
import ESV.Base.Dec
import ESV.Base.Dict
import ESV.SourceMap.Model
import ESV.Lit.Model
import ESV.Props.C14
