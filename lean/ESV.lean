import ESV.Gen.Tables
import ESV.Base.Dec
import ESV.Base.Dict
import ESV.Base.Ssb
import ESV.SourceMap.Model
import ESV.SsbScript.Model
import ESV.Props.C14
