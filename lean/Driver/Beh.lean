import Driver.Util
import ESV.Beh.Search
import ESV.Beh.Machine
import ESV.Src.Sem
open Lean Drv ESV ESV.Beh ESV.Src

namespace Drv.BehD

def paramOf (j : Json) : R Param := do
  match j with
  | .num _ => pure (.int (← asInt j))
  | _ =>
    if let .ok v := j.getObjVal? "fx" then return .fixed (← asStr v)
    if let .ok v := j.getObjVal? "c" then return .const (← asStr v)
    if let .ok v := j.getObjVal? "s" then return .str (← asStr v)
    if let .ok v := j.getObjVal? "ls" then
      let kvs ← (← asArr v).mapM fun kv => do
        match (← asArr kv) with
        | [k, x] => pure ((← asStr k), (← asStr x))
        | _ => throw "bad lang string"
      return .lang kvs
    if let .ok v := j.getObjVal? "pm" then
      match (← asArr v) with
      | [n, a, b, c, d] => return .pos (← asStr n) (← asInt a) (← asInt b) (← asInt c) (← asInt d)
      | _ => throw "bad posmark"
    throw s!"bad param {j.compress}"

def paramTo : Param → Json
  | .int i => jInt i
  | .fixed s => Json.mkObj [("fx", .str s)]
  | .const s => Json.mkObj [("c", .str s)]
  | .str s => Json.mkObj [("s", .str s)]
  | .lang kvs => Json.mkObj [("ls", jList (fun (kv : String × String) => Json.arr #[.str kv.1, .str kv.2]) kvs)]
  | .pos n a b c d => Json.mkObj [("pm", .arr #[.str n, jInt a, jInt b, jInt c, jInt d])]

def paramsOf (j : Json) : R (List Param) := do (← asArr j).mapM paramOf

def evOf (j : Json) : R Ev := do
  match (← asArr j) with
  | [n, ps] => pure ⟨← asStr n, ← paramsOf ps⟩
  | _ => throw "bad event"

def evTo (e : Ev) : Json := .arr #[.str e.name, jList paramTo e.params]

def obsTo : Obs Ev → Json
  | .op e => .arr #[.str "op", evTo e]
  | .tst e b => .arr #[.str "test", evTo e, .bool b]
  | .stop e => .arr #[.str "stop", evTo e]

mutual
partial def stmtOf (j : Json) : R Stmt := do
  let a ← asArr j
  match a with
  | [] => throw "empty stmt"
  | tag :: rest =>
    match (← asStr tag), rest with
    | "op", [n, ps] => pure (.op (← asStr n) (← paramsOf ps))
    | "ctx", [n, ps, inner] => pure (.ctx (← asStr n) (← paramsOf ps) (← stmtOf inner))
    | "label", [n] => pure (.label (← asStr n))
    | "jump", [n] => pure (.jump (← asStr n))
    | "call", [n] => pure (.call (← asStr n))
    | "ret", [] => pure .ret
    | "end", [] => pure .end_
    | "hold", [] => pure .hold
    | "break", [] => pure .brk
    | "continue", [] => pure .cont
    | "break_loop", [] => pure .brkLoop
    | "if", [bs, els] =>
      let bs' ← branchesOf (← asArr bs)
      match els with
      | .null => pure (.ite bs' false .nil)
      | _ => pure (.ite bs' true (← stmtsOf els))
    | "switch", [hdr, cs] => pure (.switch (← evOf hdr) (← casesOf (← asArr cs)))
    | "forever", [body] => pure (.forever (← stmtsOf body))
    | "while", [neg, t, body] => pure (.while_ (← asBool neg) (← evOf t) (← stmtsOf body))
    | "for", [init, t, inc, body] => pure (.for_ (← stmtOf init) (← evOf t) (← stmtOf inc) (← stmtsOf body))
    | "macro", [n, args] => pure (.macroCall (← asStr n) (← paramsOf args))
    | t, _ => throw s!"bad stmt {t}"
partial def stmtsOf (j : Json) : R Stmts := do
  let l ← asArr j
  let ss ← l.mapM stmtOf
  pure (ss.foldr Stmts.cons .nil)
partial def branchesOf (l : List Json) : R Branches := do
  match l with
  | [] => pure .nil
  | x :: rest =>
    match (← asArr x) with
    | [neg, tests, body] =>
      pure (.cons (← asBool neg) (← (← asArr tests).mapM evOf) (← stmtsOf body) (← branchesOf rest))
    | _ => throw "bad branch"
partial def casesOf (l : List Json) : R Cases := do
  match l with
  | [] => pure .nil
  | x :: rest =>
    match (← asArr x) with
    | [isD, t, body] =>
      let t' ← match t with
        | .null => pure (⟨"", []⟩ : Ev)
        | _ => evOf t
      pure (.cons (← asBool isD) t' (← stmtsOf body) (← casesOf rest))
    | _ => throw "bad case"
end

def programOf (j : Json) : R Program := do
  let ms ← (← asArr (← fld j "macros")).mapM fun m => do
    pure (⟨← asStr (← fld m "name"), ← (← asArr (← fld m "vars")).mapM asStr, ← stmtsOf (← fld m "body")⟩ : Src.Macro)
  let rs ← (← asArr (← fld j "routines")).mapM fun r => do
    match r with
    | .null => pure (⟨none⟩ : Routine)
    | _ => pure (⟨some (← stmtsOf r)⟩ : Routine)
  pure ⟨ms, rs⟩

def mopOf (j : Json) : R MOp := do
  pure ⟨← asInt (← fld j "off"), ← asStr (← fld j "name"), ← paramsOf (← fld j "params")⟩

def machineOf (j : Json) : R Machine := do
  let rs ← (← asArr j).mapM fun r => do (← asArr r).mapM mopOf
  pure ⟨flatten rs⟩

def verdictJson (f₁ f₂ : NStep) (fuel budget a b : Nat) : Json :=
  let (o, ok) := validate f₁ f₂ fuel budget a b
  match o with
  | .ok rel =>
    let heads := rel.filterMap fun (a, b) =>
      match settlePos f₁ fuel a, settlePos f₂ fuel b with
      | some a', some b' => some (Json.arr #[jNat a', jNat b'])
      | _, _ => none
    Json.mkObj [("verdict", .str (if ok then "equiv" else "check-rejected")), ("pairs", jNat rel.length),
      ("heads", .arr heads.toArray)]
  | .differ path why =>
    Json.mkObj [("verdict", .str "differ"), ("why", .str why), ("path", jList Json.bool path),
      ("trace_left", jList obsTo (traceAlong f₁ fuel (path.length * 8 + 200) a path)),
      ("trace_right", jList obsTo (traceAlong f₂ fuel (path.length * 8 + 200) b path))]
  | .silentCycle left path =>
    Json.mkObj [("verdict", .str (if left then "silent-left" else "silent-right")), ("path", jList Json.bool path)]
  | .budget => Json.mkObj [("verdict", .str "budget")]

/-- reachability facts of one routine of a machine: can it fall off the end / get stuck / spin silently? -/
def wfFacts (m : Machine) (r : Nat) : Json :=
  let fuel := m.ops.size + 8
  let rec go (n : Nat) (todo : List Nat) (seen : List Nat) (fall stuck silent : Bool) : Bool × Bool × Bool × List Nat :=
    match n, todo with
    | 0, _ => (fall, stuck, silent, seen)
    | _, [] => (fall, stuck, silent, seen)
    | n+1, s :: rest =>
      if seen.contains s then go n rest seen fall stuck silent
      else
        let fall' := fall || s == m.fellOff
        let stuck' := stuck || s == m.stuck
        let silent' := silent || (settleN m.step fuel s).isNone
        let succs := match m.step s with
          | .silent t => [t]
          | .emit _ t => [t]
          | .test _ y no => [y, no]
          | .halt _ => []
        go n (succs ++ rest) (s :: seen) fall' stuck' silent'
  let (f, st, si, seen) := go (4 * m.ops.size + 16) [m.entry r] [] false false false
  let own := (List.range m.ops.size).filter fun i => match m.ops[i]? with | some o => o.rtn == r | none => false
  let unreach := own.filter fun i => !seen.contains i
  Json.mkObj [("r", jNat r), ("falls_off", .bool f), ("stuck", .bool st), ("silent_cycle", .bool si),
    ("unreachable", jNat unreach.length), ("reached", jList jNat (seen.filter (· < m.ops.size)))]

def handle (op : String) (j : Json) : R Json := do
  match op with
  | "beh.validate" =>
    -- source program vs machine, per routine
    let p ← programOf (← fld j "prog")
    let m ← machineOf (← fld j "ops")
    let g := p.graph
    let fuel := g.nodes.size + m.ops.size + 8
    let budget := (g.nodes.size + 4) * (m.ops.size + 4) + 64
    let res := g.entries.zipIdx.map fun (e, r) =>
      match e with
      | none => Json.mkObj [("r", jNat r), ("verdict", .str "alias")]
      | some a => (verdictJson g.step m.step fuel budget a (m.entry r)).setObjVal! "r" (jNat r)
    pure (Json.mkObj [("routines", .arr res.toArray), ("nodes", jNat g.nodes.size)])
  | "beh.validate_mm" =>
    let m1 ← machineOf (← fld j "a")
    let m2 ← machineOf (← fld j "b")
    let n ← asNat (← fld j "n")
    let fuel := m1.ops.size + m2.ops.size + 8
    let budget := (m1.ops.size + 4) * (m2.ops.size + 4) + 64
    let res := (List.range n).map fun r =>
      (verdictJson m1.step m2.step fuel budget (m1.entry r) (m2.entry r)).setObjVal! "r" (jNat r)
    pure (Json.mkObj [("routines", .arr res.toArray)])
  | "beh.wf" =>
    let m ← machineOf (← fld j "ops")
    let n ← asNat (← fld j "n")
    pure (Json.mkObj [("routines", .arr ((List.range n).map (wfFacts m)).toArray)])
  | "beh.trace" =>
    let m ← machineOf (← fld j "ops")
    let r ← asNat (← fld j "r")
    let path ← (← asArr (← fld j "path")).mapM asBool
    pure (Json.mkObj [("trace", jList obsTo (traceAlong m.step (m.ops.size + 8) (path.length * 8 + 200) (m.entry r) path))])
  | _ => throw s!"unknown op {op}"

end Drv.BehD
