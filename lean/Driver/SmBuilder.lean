import Driver.Util
import Driver.SM
import ESV.SmBuilder.Model
open Lean Drv ESV ESV.SM ESV.SmBuilder

namespace Drv.SmbD
open Drv.SMD

def pmapOf (j : Json) : R ParamMap := do
  (← asArr j).mapM fun kv => do
    match (← asArr kv) with
    | [k, v] => pure ((← asStr k), (← pvalOf v))
    | _ => throw "bad param pair"

def pmapTo (pm : ParamMap) : Json :=
  jList (fun (kv : String × PVal) => Json.arr #[.str kv.1, match kv.2 with | .int i => jInt i | .str s => .str s]) pm

def cmdOf (j : Json) : R Cmd := do
  match (← asArr j) with
  | [t, k, l, c] =>
    match (← asStr t) with
    | "op" => pure (.addOpcode (← asInt k) (← asInt l) (← asInt c))
    | "ci" => pure (.calledIn (← asOpt asStr k) (← asInt l) (← asInt c))
    | "mpm" => pure (.addMacroPosMark (← asOpt asStr k) (← asStr l) (← posMarkOf c))
    | x => throw s!"bad cmd {x}"
  | [t, a] =>
    match (← asStr t) with
    | "pm" => pure (.addPosMark (← posMarkOf a))
    | x => throw s!"bad cmd {x}"
  | [t, r, pm] =>
    match (← asStr t) with
    | "push" => pure (.push (← asInt r) (← pmapOf pm))
    | x => throw s!"bad cmd {x}"
  | [t] =>
    match (← asStr t) with
    | "pop" => pure .pop
    | x => throw s!"bad cmd {x}"
  | [t, k, f, n, l, c] =>
    match (← asStr t) with
    | "mop" => pure (.addMacroOpcode (← asInt k) (← asOpt asStr f) (← asStr n) (← asInt l) (← asInt c))
    | x => throw s!"bad cmd {x}"
  | _ => throw "bad cmd"

def cmdTo : Cmd → Json
  | .addOpcode k l c => .arr #[.str "op", jInt k, jInt l, jInt c]
  | .addPosMark p => .arr #[.str "pm", posMarkTo p]
  | .push r pm => .arr #[.str "push", jInt r, pmapTo pm]
  | .pop => .arr #[.str "pop"]
  | .calledIn f l c => .arr #[.str "ci", jOpt jStr f, jInt l, jInt c]
  | .addMacroOpcode k f n l c => .arr #[.str "mop", jInt k, jOpt jStr f, .str n, jInt l, jInt c]
  | .addMacroPosMark f n p => .arr #[.str "mpm", jOpt jStr f, .str n, posMarkTo p]

def errTo : Err → Json
  | .valueError => .str "ValueError"
  | .indexError => .str "IndexError"
  | .assertionError => .str "AssertionError"

def bpOf (j : Json) : R Bp := do
  match (← asArr j) with
  | [t] =>
    match (← asStr t) with
    | "lbl" => pure .lbl
    | "me" => pure .mend
    | x => throw s!"bad bp {x}"
  | [t, a, b] =>
    match (← asStr t) with
    | "op" =>
      let relay ← asOpt macroOf a
      let direct ← asOpt (fun x => do
        match (← asArr x) with
        | [l, c] => pure (⟨← asInt l, ← asInt c⟩ : Mapping)
        | _ => throw "bad direct") b
      pure (.op ⟨relay, direct⟩)
    | "ms" => pure (.mstart (← asNat a) (← pmapOf b))
    | x => throw s!"bad bp {x}"
  | _ => throw "bad bp"

def bpKindTo : Bp → Json
  | .op _ => .arr #[.str "op"]
  | .lbl => .arr #[.str "lbl"]
  | .mstart len pm => .arr #[.str "ms", jNat len, pmapTo pm]
  | .mend => .arr #[.str "me"]

def macroInOf (j : Json) : R MacroIn := do
  let pd ← (← asArr (← fld j "pos_direct")).mapM posMarkOf
  let pmm ← (← asArr (← fld j "pos_macros")).mapM fun y => do
    match (← asArr y) with
    | [f, n, p] => pure ((← asOpt asStr f), (← asStr n), (← posMarkOf p))
    | _ => throw "bad macro posmark"
  pure ⟨← asStr (← fld j "name"), ← asOpt asStr (← fld j "relpath"), ← pmapOf (← fld j "params"), pd, pmm⟩

def handle (op : String) (j : Json) : R Json := do
  match op with
  | "smb.replay" =>
    let cs ← (← asArr (← fld j "cmds")).mapM cmdOf
    let disc := Json.mkObj [("disjoint", .bool (disjointOffs cs)), ("depth_ok", .bool (depthOk 0 cs)),
                            ("bracketed", .bool (bracketed 0 cs))]
    match run cs with
    | .ok b =>
      pure (Json.mkObj [("ok", .bool true), ("sm", smTo b.tables), ("depth", jNat b.stack.length),
        ("next", jOpt (fun (x : CalledIn) => Json.arr #[jOpt jStr x.1, jInt x.2.1, jInt x.2.2]) b.next), ("discipline", disc)])
    | .error e => pure (Json.mkObj [("ok", .bool false), ("err", errTo e), ("discipline", disc)])
  | "smb.build" =>
    let m ← macroInOf (← fld j "macro")
    let c ← asNat (← fld j "count")
    let bp ← (← asArr (← fld j "bp")).mapM bpOf
    let wf := wfBlueprint c bp
    match build m c bp with
    | .ok (cs, c') => pure (Json.mkObj [("ok", .bool true), ("cmds", jList cmdTo cs), ("count", jNat c'), ("wf", .bool wf),
        ("n_real", jNat (nReal bp)), ("out", jList bpKindTo (buildItems m bp))])
    | .error e => pure (Json.mkObj [("ok", .bool false), ("err", errTo e), ("wf", .bool wf)])
  | _ => throw s!"unknown op {op}"

end Drv.SmbD
