import Driver.Util
import ESV.Lit.Model
open Lean Drv ESV ESV.Lit

namespace Drv.LitD

def chars (j : Json) (k : String) : R (List Char) := do
  pure (← asStr (← fld j k)).toList

def errName : LErr → String
  | .valueError => "ValueError"
  | .assertionError => "AssertionError"
  | .compilerError => "SsbCompilerError"

def jExcStr (r : Except LErr (List Char)) : Json :=
  match r with
  | .ok v => Json.mkObj [("v", jChars v)]
  | .error e => Json.mkObj [("err", .str (errName e))]

def jKind : Option (StrKind × Nat) → Json
  | some (.single, n) => Json.mkObj [("kind", .str "single"), ("n", jNat n)]
  | some (.multi, n) => Json.mkObj [("kind", .str "multi"), ("n", jNat n)]
  | none => Json.mkObj [("kind", .null), ("n", jNat 0)]

def quoteArg (j : Json) : R (Option Char) := do
  match (← fld j "q") with
  | .null => pure none
  | .str s => match s.toList with
    | [c] => pure (some c)
    | _ => throw "q must be one character"
  | _ => throw "q must be null or a string"

def handle (op : String) (j : Json) : R Json := do
  match op with
  | "lit.replace" =>
    pure (Json.mkObj [("r", jChars (replaceAll (← chars j "a") (← chars j "b") (← chars j "s")))])
  | "lit.splitlines" => pure (Json.mkObj [("r", jList jChars (splitlines (← chars j "s")))])
  | "lit.split" =>
    match (← chars j "sep") with
    | [c] => pure (Json.mkObj [("r", jList jChars (splitOn c (← chars j "s")))])
    | _ => throw "sep must be one character"
  | "lit.escq" => pure (Json.mkObj [("r", jChars (escapeQuotes (← chars j "s") (← quoteArg j)))])
  | "lit.escnl" => pure (Json.mkObj [("r", jChars (escapeNewlines (← chars j "s")))])
  | "lit.repr" =>
    let s ← chars j "s"
    let i ← asNat (← fld j "indent")
    let q ← asBool (← fld j "single")
    pure (Json.mkObj [("r", jChars (reprString s i q)), ("guard", .bool (Guard s i q))])
  | "lit.roundtrip" =>
    -- print, put `rest` behind it, lex one string token, read it
    let s ← chars j "s"
    let i ← asNat (← fld j "indent")
    let q ← asBool (← fld j "single")
    let rest ← chars j "rest"
    let printed := reprString s i q
    let t := printed ++ rest
    pure (Json.mkObj [("r", jChars printed), ("guard", .bool (Guard s i q)), ("tok", jKind (lexString t)),
                      ("exact", .bool ((lexString t).map (·.2) == some printed.length)),
                      ("v", jOpt jChars (readString t))])
  | "lit.langstr" =>
    let items ← (← asArr (← fld j "items")).mapM fun kv => do
      match (← asArr kv) with
      | [k, v] => pure ((← asStr k).toList, (← asStr v).toList)
      | _ => throw "bad item"
    pure (Json.mkObj [("r", jChars (langStr items (← asNat (← fld j "indent"))))])
  | "lit.read_single" => pure (Json.mkObj [("v", jChars (readSingle (← chars j "tok")))])
  | "lit.read_multi" => pure (Json.mkObj [("v", jChars (readMulti (← chars j "tok")))])
  | "lit.tok" => pure (jKind (lexString (← chars j "text")))
  | "lit.readstr" => pure (Json.mkObj [("v", jOpt jChars (readString (← chars j "text")))])
  | "lit.int" =>
    let s ← chars j "s"
    pure (Json.mkObj [("tok", .bool (isIntegerTok s)), ("v", jOpt jInt (expsInt s))])
  | "lit.fixed" =>
    let s ← chars j "s"
    pure ((jExcStr (fixedFromStr s)).setObjVal! "tok" (.bool (isDecimalTok s)))
  | "lit.fixedmk" =>
    pure (jExcStr (fixedMk (← asOpt asInt (← fld j "whole")) (← chars j "fract")))
  | "lit.posarg" =>
    let s ← chars j "s"
    let kind := if isIntegerTok s then "INTEGER" else if isDecimalTok s then "DECIMAL" else "other"
    match parsePosArg s with
    | .ok (p, o) => pure (Json.mkObj [("v", .arr #[jInt p, jInt o]), ("kind", .str kind)])
    | .error e => pure (Json.mkObj [("err", .str (errName e)), ("kind", .str kind)])
  | "lit.posmark" =>
    let p : PosMark := ⟨← chars j "name", ← asInt (← fld j "xo"), ← asInt (← fld j "yo"), ← asInt (← fld j "xr"), ← asInt (← fld j "yr")⟩
    pure (Json.mkObj [("r", jChars (posMarkStr p))])
  | "lit.dmode" =>
    match (← asArr (← fld j "consts")) with
    | [a, b, c, d] =>
      let dm : DMode := ⟨(← asStr a).toList, (← asStr b).toList, (← asStr c).toList, (← asStr d).toList⟩
      pure (Json.mkObj [("r", jChars (dmodeConst dm (← asInt (← fld j "idx"))))])
    | _ => throw "consts: close, open, request, open_and_request"
  | "lit.ctxindent" =>
    let c : PrintCtx ← match (← asStr (← fld j "ctx")) with
      | "opArg" => pure .opArg
      | "menuHeader" => pure .menuHeader
      | "msgText" => pure .msgText
      | "switchHeader" => pure .switchHeader
      | "ssbsArg" => pure .ssbsArg
      | x => throw s!"unknown printing context {x}"
    let d ← asNat (← fld j "depth")
    let s ← chars j "s"
    -- indent of the context, and the guards of `s` there: as a constant string, as a value of a language string
    pure (Json.mkObj [("indent", jNat (ctxIndent c d)), ("guard_const", .bool (Guard s (ctxIndent c d) true)),
                      ("guard_lang", .bool (Guard s (ctxIndent c d + 1) false))])
  | _ => throw s!"unknown op {op}"

end Drv.LitD
