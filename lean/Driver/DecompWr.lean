import Driver.DecompLp
import ESV.Decomp.WriterSem
import ESV.Decomp.WriterGuard
import ESV.Decomp.WriterWitness
open Lean Drv ESV ESV.Beh ESV.Src ESV.Decomp

/-! The text writers of the ExplorerScript decompiler at the level of the statement tree (`ESV/Decomp/Writer.lean`):
`decompwr.write` - the model's program for the REAL final graphs (compared exactly with `lower_program(astdump(real text))`);
`decompwr.validate` - the model's AST of every routine against the real final graph (`ltsL` from vertex 0) with the proven checker. -/
namespace Drv.DecompWrD
open Drv.DecompD Drv.BehD ESV.Decomp.Wr

def evToJ (e : Ev) : Json := .arr #[.str e.name, jList paramTo e.params]

mutual
partial def stmtTo : Stmt → Json
  | .op n ps => .arr #[.str "op", .str n, jList paramTo ps]
  | .ctx n ps inner => .arr #[.str "ctx", .str n, jList paramTo ps, stmtTo inner]
  | .label n => .arr #[.str "label", .str n]
  | .jump n => .arr #[.str "jump", .str n]
  | .call n => .arr #[.str "call", .str n]
  | .ret => .arr #[.str "ret"]
  | .end_ => .arr #[.str "end"]
  | .hold => .arr #[.str "hold"]
  | .brk => .arr #[.str "break"]
  | .cont => .arr #[.str "continue"]
  | .brkLoop => .arr #[.str "break_loop"]
  | .ite bs hasElse els => .arr #[.str "if", .arr (branchesTo bs).toArray, if hasElse then stmtsTo els else .null]
  | .switch hdr cs => .arr #[.str "switch", evToJ hdr, .arr (casesTo cs).toArray]
  | .forever body => .arr #[.str "forever", stmtsTo body]
  | .while_ neg t body => .arr #[.str "while", .bool neg, evToJ t, stmtsTo body]
  | .for_ init t inc body => .arr #[.str "for", stmtTo init, evToJ t, stmtTo inc, stmtsTo body]
  | .macroCall n args => .arr #[.str "macro", .str n, jList paramTo args]
partial def stmtsList : Stmts → List Json
  | .nil => []
  | .cons s r => stmtTo s :: stmtsList r
partial def stmtsTo (ss : Stmts) : Json := .arr (stmtsList ss).toArray
partial def branchesTo : Branches → List Json
  | .nil => []
  | .cons neg tests body r => .arr #[.bool neg, jList evToJ tests, stmtsTo body] :: branchesTo r
partial def casesTo : Cases → List Json
  | .nil => []
  | .cons d t body r => .arr #[.bool d, if d then .null else evToJ t, stmtsTo body] :: casesTo r
end

def programTo (p : Program) : Json :=
  Json.mkObj [("macros", .arr #[]), ("routines", jList (fun (r : Routine) => match r.body with
    | some b => stmtsTo b
    | none => .null) p.routines)]

def infosOf (j : Json) : R (List RInfo) := do
  let infos ← asArr (← fld j "infos")
  let coros ← match j.getObjVal? "coros" with
    | .ok a => asArr a
    | .error _ => pure []
  infos.zipIdx.mapM fun (i, k) => do
    let kind ← match i with
      | .null => pure "INVALID"
      | _ => asStr (← fld i "type")
    let named := match coros[k]? with
      | some (.str _) => true
      | _ => false
    pure (⟨kind, named⟩ : RInfo)

/-- leaving the routine through a label of another routine: the graph halts with `!FOREIGN l`, the AST of the routine alone with
"undefined label label_l" - the same final event under two names -/
def renameForeign (f : NStep) : NStep := fun s =>
  match f s with
  | .halt e =>
    if e.name == "!FOREIGN" then
      match e.params with
      | [.int l] => .halt (evInvalid ("undefined label " ++ labelName l.toNat))
      | _ => .halt e
    else .halt e
  | st => st

/-- the program that consists of routine `k` of `p` alone -/
def onlyRoutine (p : Program) (k : Nat) : Program :=
  ⟨[], p.routines.zipIdx.map fun (r, i) => if i == k then r else ⟨none⟩⟩

/-- per routine: the semantics of the model's AST (`Src.sem`) against the final graph under `stepL` from vertex 0 -/
def validateAst (perf : String) (p : Program) (graphs : List BGraph) : Json :=
  let res := graphs.zipIdx.map fun (g, k) =>
    let sg := (onlyRoutine p k).graph
    -- the hypotheses of the theorems of lean/ESV/Props/DecompWriter.lean on the real graph
    let body : Stmts := match (p.routines[k]?).bind (·.body) with
      | some b => b
      | none => .nil
    let facts := [("r", jNat k), ("lf_ok", Json.bool (lfGraph perf g)), ("straight_ok", Json.bool (straightGraph perf g)),
      ("jn_graph", Json.bool (jnGraph perf g)),
      ("jn_ok", Json.bool (jnGraph perf g && noJumpL body && decide (Src.labelsOfStmts body).Nodup))]
    match (sg.entries[k]?).join with
    | none => Json.mkObj (facts ++ [("verdict", .str (if g.vs.isEmpty then "alias" else "no-entry"))])
    | some a =>
      let n₁ := sg.nodes.size
      let n₂ := g.sStates
      facts.foldl (fun acc (key, v) => acc.setObjVal! key v)
        (verdictJson sg.step (renameForeign g.stepL) (n₁ + n₂ + 8) ((n₁ + 4) * (n₂ + 4) + 64) a 0)
  Json.mkObj [("routines", .arr res.toArray)]

def handle (op : String) (j : Json) : R Json := do
  match op with
  | "decompwr.write" =>
    let graphs ← (← asArr (← fld j "rl")).mapM bgraphOf
    let infos ← infosOf j
    let perf ← asStr (← fld j "perf")
    match writeProgram perf infos graphs with
    | .error e => pure (Json.mkObj [("error", .str e)])
    | .ok p =>
      let out := Json.mkObj [("prog", programTo p)]
      match j.getObjVal? "validate" with
      | .ok (.bool true) => pure (out.setObjVal! "ast_vs_graph" (validateAst perf p graphs))
      | _ => pure out
  | "decompwr.witnesses" =>
    -- the witnesses of lean/ESV/Props/DecompWriter.lean (graph, the statement list the theorem names, does the theorem say "behaves
    -- like the graph"): replayed on the real write handlers by the harness
    let ws : List (String × BGraph × Stmts × Bool) := [("exLf", exLf, exLfAst, true), ("exJn", exJn, exJnAst, true),
      ("cexParams", cexParams, cexParamsAst, false), ("cexLowering", cexLowering, cexLoweringAst, false),
      ("cexCtxShared", cexCtxShared, cexCtxSharedAst, false), ("cexElseIf", cexElseIf, cexElseIfAst, false)]
    pure (Json.mkObj [("perf", .str perfName), ("witnesses", jList (fun (w : String × BGraph × Stmts × Bool) =>
      Json.mkObj [("name", .str w.1), ("g", lgraphTo w.2.1), ("ast", stmtsTo w.2.2.1), ("equiv", .bool w.2.2.2)]) ws)])
  | _ => throw s!"unknown op {op}"

end Drv.DecompWrD
