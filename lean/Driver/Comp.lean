import Driver.Util
import Driver.Ssbs
import ESV.Comp.Backend
import ESV.Comp.LabSem
import ESV.Comp.ToSrcEq
import ESV.Comp.GuardDefs
import ESV.Comp.CgDefs
import Driver.Beh
import ESV.SsbScript.Model
import ESV.Comp.Project
open Lean Drv ESV ESV.Comp


/-
comp.compile  {prog: Comp AST (harness/gen/complower.py)}  →  {"ok": {ops, infos, coros}} | {"error": class}
comp.frontend {prog}  →  the labelled code before the back end + whether its op offsets are pairwise distinct
comp.backend  {routines: labelled code}  →  ops | error   (the three back-end passes on arbitrary labelled code)
comp.tosrc    {prog, core}  →  {"agree": bool, "f0": bool}: `toSrc prog` against the core program lowered for `Src.tr`;
              whether `prog` is in fragment F0 (`compile_correct_F0`)
comp.flatten  {files: [{path, imports, prog}], exists, cwd, lookups, main}  →  {"perr": kind} | {macros, order, f5, f5why, result}:
              the project flattened to one program (ESV/Comp/Project.lean) and compiled by the model
comp.wfl      {prog}  →  {"wfl": bool, one flag per conjunct} | {"error": class}: the hypothesis `WFL` of the back-end theorem
              (ESV/Props/C01Backend.lean `backend_preserves`) evaluated on the labelled code the front-end model produces
-/
namespace Drv.CompD
open Drv.SsbsD (paramOf paramTo)
def paramsOf (j : Json) : R (List Param) := do (← asArr j).mapM paramOf

def hdrOf (j : Json) : R Hdr := do
  match (← asArr j) with
  | [isOp, n, ps] => pure ⟨← asBool isOp, ← asStr n, ← paramsOf ps⟩
  | _ => throw "bad header"

mutual
partial def stmtOf (j : Json) : R Stmt := do
  let a ← asArr j
  match a with
  | [] => throw "empty stmt"
  | tag :: rest =>
    match (← asStr tag), rest with
    | "op", [n, ps] => pure (.op (← asStr n) (← paramsOf ps))
    | "inl", [cn, cp, n, ps] => pure (.inl (← asStr cn) (← paramOf cp) (← asStr n) (← paramsOf ps))
    | "with", [cn, cp, inner] => pure (.with_ (← asStr cn) (← paramOf cp) (← stmtOf inner))
    | "label", [n] => pure (.label (← asStr n))
    | "jump", [n] => pure (.jump (← asStr n))
    | "call", [n] => pure (.call (← asStr n))
    | "ret", [] => pure .ret
    | "end", [] => pure .end_
    | "hold", [] => pure .hold
    | "break", [] => pure .brk
    | "continue", [] => pure .cont
    | "break_loop", [] => pure .brkLoop
    | "if", [neg, hs, body, elifs, els] =>
      let hs' ← (← asArr hs).mapM hdrOf
      let es ← elifsOf (← asArr elifs)
      match els with
      | .null => pure (.ite (← asBool neg) hs' (← stmtsOf body) es false .nil)
      | _ => pure (.ite (← asBool neg) hs' (← stmtsOf body) es true (← stmtsOf els))
    | "switch", [hdr, cs] => pure (.switch (← hdrOf hdr) (← casesOf (← asArr cs)))
    | "forever", [body] => pure (.forever (← stmtsOf body))
    | "while", [neg, h, body] => pure (.while_ (← asBool neg) (← hdrOf h) (← stmtsOf body))
    | "for", [init, h, inc, body] => pure (.for_ (← stmtOf init) (← hdrOf h) (← stmtOf inc) (← stmtsOf body))
    | "macro", [n, args] => pure (.macroCall (← asStr n) (← paramsOf args))
    | t, _ => throw s!"bad stmt {t}"
partial def stmtsOf (j : Json) : R Stmts := do
  let l ← asArr j
  let ss ← l.mapM stmtOf
  pure (ss.foldr Stmts.cons .nil)
partial def elifsOf (l : List Json) : R Elifs := do
  match l with
  | [] => pure .nil
  | x :: rest =>
    match (← asArr x) with
    | [neg, hs, body] => pure (.cons (← asBool neg) (← (← asArr hs).mapM hdrOf) (← stmtsOf body) (← elifsOf rest))
    | _ => throw "bad elseif"
partial def casesOf (l : List Json) : R Cases := do
  match l with
  | [] => pure .nil
  | x :: rest =>
    match (← asArr x) with
    | [isD, n, ps, body] =>
      let d ← asBool isD
      let n' ← match n with
        | .null => pure ""
        | _ => asStr n
      let ps' ← match ps with
        | .null => pure []
        | _ => paramsOf ps
      pure (.cons d n' ps' (← stmtsOf body) (← casesOf rest))
    | _ => throw "bad case"
end

def programOf (j : Json) : R Program := do
  let ms ← (← asArr (← fld j "macros")).mapM fun m => do
    pure (⟨← asStr (← fld m "name"), ← (← asArr (← fld m "vars")).mapM asStr, ← stmtsOf (← fld m "body")⟩ : Comp.Macro)
  let order ← (← asArr (← fld j "macro_order")).mapM asStr
  let rs ← (← asArr (← fld j "routines")).mapM fun r => do
    pure (⟨← asOpt asNat (← fld r "rid"), ← asStr (← fld r "info"), ← asOpt asStr (← fld r "coro"), ← stmtsOf (← fld r "body")⟩ : Comp.Routine)
  pure ⟨ms, order, rs⟩

def opTo (o : Comp.Op) : Json :=
  Json.mkObj [("off", jNat o.offset), ("name", .str o.name), ("params", jList paramTo o.params)]

def opOf (j : Json) : R Comp.Op := do
  pure ⟨← asNat (← fld j "off"), ← asStr (← fld j "name"), ← paramsOf (← fld j "params")⟩

def itemTo : LItem → Json
  | .op o => Json.mkObj [("op", opTo o)]
  | .label id nm => Json.mkObj [("label", jNat id), ("named", .bool nm)]
  | .ljump r l => Json.mkObj [("ljump", opTo r), ("to", jOpt jNat l)]

def itemOf (j : Json) : R LItem := do
  if let .ok o := j.getObjVal? "op" then return .op (← opOf o)
  if let .ok l := j.getObjVal? "label" then return .label (← asNat l) (← asBool (← fld j "named"))
  if let .ok r := j.getObjVal? "ljump" then return .ljump (← opOf r) (← asOpt asNat (← fld j "to"))
  throw "bad item"

def resultTo (r : Except Err (List (List Comp.Op))) (infos coros : List (Option String)) : Json :=
  match r with
  | .error e => Json.mkObj [("error", .str e.name)]
  | .ok ops => Json.mkObj [("ok", Json.mkObj [("ops", jList (jList opTo) ops), ("infos", jList (jOpt Json.str) infos),
      ("coros", jList (jOpt Json.str) coros)])]

def stmtKind : Stmt → String
  | .op .. => "op" | .inl .. => "inline ctx" | .with_ .. => "with" | .label _ => "label" | .jump _ => "jump" | .call _ => "call"
  | .ret => "return" | .end_ => "end" | .hold => "hold" | .brk => "break" | .cont => "continue" | .brkLoop => "break_loop"
  | .ite .. => "if" | .switch .. => "switch" | .forever .. => "forever" | .while_ .. => "while" | .for_ .. => "for" | .macroCall .. => "macro call"

def lastKind : Stmts → String
  | .nil => "nothing"
  | .cons s .nil => stmtKind s
  | .cons _ r => lastKind r

mutual
/-- diagnostics only: why a statement is outside `cgStmt 5` (empty = inside; a macro call is outside `cgStmt 4`) -/
def whyStmt : Stmt → String
  | .op n _ => if nameOK n then "" else "op name " ++ n
  | .inl c _ n _ => if ESV.Beh.isCtx c && nameOK n && n != Gen.op_return then "" else "inline ctx " ++ c ++ "/" ++ n
  | .with_ c _ inner => if ESV.Beh.isCtx c && f0Inner inner then "" else "with-block"
  | .ite _ hdrs body elifs _ els =>
    if !hdrs.all (fun h => ESV.Beh.isTest h.name) then "if header" else
    let a := whyStmts body; if a != "" then a else
    let b := whyElifs elifs; if b != "" then b else whyStmts els
  | .switch hdr cs =>
    if !nameOK hdr.name then "switch header name " ++ hdr.name else if Beh.endsFlow hdr.name then "switch header ends flow"
    else if countDefaults cs > 1 then "two defaults" else whyCases hdr.name true "" cs
  | .forever body => whyStmts body
  | .while_ _ h body => if !ESV.Beh.isTest h.name then "while header" else whyStmts body
  | .for_ init h inc body =>
    if !ESV.Beh.isTest h.name then "for header" else if !cgSimple init then "for init" else if !cgSimple inc then "for inc" else whyStmts body
  | _ => ""
def whyStmts : Stmts → String
  | .nil => ""
  | .cons s r => let a := whyStmt s; if a != "" then a else whyStmts r
def whyElifs : Elifs → String
  | .nil => ""
  | .cons _ hdrs body r =>
    if !hdrs.all (fun h => ESV.Beh.isTest h.name) then "elseif header" else
    let a := whyStmts body; if a != "" then a else whyElifs r
def whyCases (sw : String) (nf : Bool) (prev : String) : Cases → String
  | .nil => ""
  | .cons d name _ body r =>
    if !(d || (ESV.Beh.isTest name && ESV.Beh.isTest (caseName sw name))) then "case name " ++ name
    else if loneExit body && !d && !nf then "lone exit case block, fall-in possible; block before ends in " ++ prev
    else let a := whyStmts body; if a != "" then a else whyCases sw (if body.isNil then nf else (endsFlowStmts body || surelyFallsStmts body))
      (if body.isNil then prev else lastKind body) r
end

/-- diagnostics only: why a program is outside `CgProg5` (empty = inside) -/
def f5whyOf (p : Program) : String :=
  if seqFrom p.routines 0 = false then "routine ids"
        else if p.routines.any (fun r => !cgStmts 5 r.body) then
          "stmt:" ++ (p.routines.foldl (fun acc r => if acc == "" then whyStmts r.body else acc) "")
        else if ¬ (allDefs p).Nodup then "label defined twice"
        else if p.routines.any (fun r => (mlStmts r.body).any (fun n => !(allDefs p).contains n)) then "label not defined"
        else if ¬ (p.macros.map (·.name)).Nodup then "macro name twice"
        else if p.macros.any (fun m => decide (¬ m.vars.Nodup)) then "macro variable twice"
        else if p.macros.any (fun m => !cgStmts 5 m.body) then
          "macro stmt:" ++ (p.macros.foldl (fun acc m => if acc == "" then whyStmts m.body else acc) "")
        else if p.macros.any (fun m => decide (¬ (dfStmts m.body).Nodup)) then "macro label defined twice"
        else if p.macros.any (fun m => (mlStmts m.body).any (fun n => !(dfStmts m.body).contains n)) then "macro label not defined in the macro"
        else ""

def compsOf (s : String) : ESV.Macro.Imp.Comps := ESV.Macro.Imp.normalize (ESV.Macro.Imp.parse s.toList).parts

def handle (op : String) (j : Json) : R Json := do
  match op with
  | "comp.compile" =>
    let p ← programOf (← fld j "prog")
    match compile p with
    | .error e => pure (Json.mkObj [("error", .str e.name)])
    | .ok r => pure (resultTo (.ok r.ops) r.infos r.coros)
  | "comp.frontend" =>
    let p ← programOf (← fld j "prog")
    match frontend p with
    | .error e => pure (Json.mkObj [("error", .str e.name)])
    | .ok t =>
      let offs := (t.ops.flatten.filterMap LItem.offsetOf)
      pure (Json.mkObj [("routines", jList (jList itemTo) t.ops), ("distinct", .bool (decide offs.Nodup))])
  | "comp.wfl" =>
    let p ← programOf (← fld j "prog")
    match frontend p with
    | .error e => pure (Json.mkObj [("error", .str e.name)])
    | .ok t =>
      let rs := t.ops
      pure (Json.mkObj [("wfl", .bool (decide (WFL rs))), ("guard", .bool (decide (FrontGuard p))), ("distinct", .bool (decide (DistinctOffsets rs))),
        ("labels", .bool (decide (labelIds rs.flatten).Nodup)), ("raw", .bool (rs.flatten.all rawOK)),
        ("root", .bool (rs.flatten.all rootOK)), ("ctx", .bool (rs.all ctxOK)), ("cond", .bool (rs.all condOK))])
  | "comp.tosrc" =>
    -- tie of `toSrc`: the source program the harness lowers for the language semantics against `toSrc` of the program
    -- it lowers for the compiler model
    let p ← programOf (← fld j "prog")
    let core ← Drv.BehD.programOf (← fld j "core")
    pure (Json.mkObj [("agree", .bool (srcAgrees (toSrc p) core)), ("f0", .bool (decide (F0Prog p))), ("f1", .bool (decide (CgProg 1 p))), ("f2", .bool (decide (CgProg 2 p))), ("f3", .bool (decide (CgProg 3 p))), ("f4", .bool (decide (CgProg 4 p))),
      ("f4why", .str (if p.macros ≠ [] then "macros" else if seqFrom p.routines 0 = false then "routine ids"
        else if p.routines.any (fun r => !cgStmts 4 r.body) then
          "stmt:" ++ (p.routines.foldl (fun acc r => if acc == "" then whyStmts r.body else acc) "")
        else if ¬ (allDefs p).Nodup then "label defined twice" else if ¬ CgProg 4 p then "label not defined" else "")),
      ("f5", .bool (decide (CgProg5 p))),
      ("f5why", .str (f5whyOf p))])
  | "comp.flatten" =>
    -- a project of files with imports: flattened to one program (ESV/Comp/Project.lean), then as comp.compile / comp.tosrc
    let files ← (← asArr (← fld j "files")).mapM fun f => do
      let pr ← programOf (← fld f "prog")
      let imps ← (← asArr (← fld f "imports")).mapM asStr
      pure (compsOf (← asStr (← fld f "path")), (⟨imps, pr.macros, pr.macroOrder, pr.routines⟩ : PFile))
    let ex := (← (← asArr (← fld j "exists")).mapM asStr).map compsOf
    let cwd := compsOf (← asStr (← fld j "cwd"))
    let lookups := (← (← asArr (← fld j "lookups")).mapM asStr).map String.toList
    match flatten files (fun c => ex.contains c) cwd lookups (compsOf (← asStr (← fld j "main"))) with
    | .error e => pure (Json.mkObj [("perr", .str e.name)])
    | .ok p =>
      let res := match compile p with
        | .error e => Json.mkObj [("error", .str e.name)]
        | .ok r => resultTo (.ok r.ops) r.infos r.coros
      pure (Json.mkObj [("macros", jList Json.str (p.macros.map (·.name))), ("order", jList Json.str p.macroOrder),
        ("f5", .bool (decide (CgProg5 p))), ("f5why", .str (f5whyOf p)), ("result", res)])
  | "comp.backend" =>
    let rs ← (← asArr (← fld j "routines")).mapM fun r => do (← asArr r).mapM itemOf
    pure (resultTo (backend rs) [] [])
  | "comp.ssbs_compile" =>
    -- the SsbScript compiler model with the routine id check of repo commit 418dd8e in front
    -- (`ESV.SsbScript.Cl.compileRawChecked` of ESV/SsbScript/Closed.lean is this function by definition; the driver imports no proof file)
    match ESV.SsbScript.compileRaw (← (← asArr (← fld j "ast")).mapM Drv.SsbsD.routineOf) with
    | .ok o => pure (Json.mkObj [("out", Drv.SsbsD.outTo o)])
    | .error e => pure (Drv.SsbsD.errTo e)
  | _ => throw s!"unknown op {op}"

end Drv.CompD
