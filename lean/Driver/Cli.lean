import Driver.Util
import Driver.Ssbs
import ESV.Cli.Model
open Lean Drv ESV ESV.Cli

/-
JSON glue for the CLI model (property C15).  A JSON *value* `J` travels in an order-preserving encoding
(harness/impl_cli.py to_wire/from_wire):  null | integer | string | [..] | {"o": [[key, value], ..]} | {"f": 0} (non-integer number).
Routine sets use the format of Driver/Ssbs.lean (harness/rsjson.py).
  cli.build      {settings: J, set}  → {json: J} | {err}
  cli.read       {json: J}           → {set, named: [[id, name]]} | {err}
  cli.docshape   {json: J}           → {ok, str}               (documented structure; … with string position coordinates)
  cli.info       {set}               → {closed, positional, canon: set, renum: set, headers_ok}
-/
namespace Drv.CliD

partial def jOf (j : Json) : R J := do
  match j with
  | .null => pure .null
  | .str s => pure (.str s)
  | .num _ => pure (.int (← asInt j))
  | .arr a => do pure (.arr (← a.toList.mapM jOf))
  | .bool _ => throw "bool is outside the model"
  | .obj _ =>
    match j.getObjVal? "o" with
    | .ok v => do
      let items ← (← asArr v).mapM fun p => do
        match (← asArr p) with
        | [k, x] => pure ((← asStr k), (← jOf x))
        | _ => throw "bad object item"
      pure (.obj items)
    | .error _ =>
      match j.getObjVal? "f" with
      | .ok _ => pure .float
      | .error _ => throw "bad wire value"

partial def jTo : J → Json
  | .null => .null
  | .int i => jInt i
  | .float => Json.mkObj [("f", jInt 0)]
  | .str s => .str s
  | .arr l => .arr (l.map jTo).toArray
  | .obj kv => Json.mkObj [("o", .arr (kv.map fun p => Json.arr #[.str p.1, jTo p.2]).toArray)]

def errTo (e : CErr) : Json := Json.mkObj [("err", .str e.name)]

def handle (op : String) (j : Json) : R Json := do
  match op with
  | "cli.build" =>
    match buildJson (← jOf (← fld j "settings")) (← SsbsD.setOf (← fld j "set")) with
    | .ok d => pure (Json.mkObj [("json", jTo d)])
    | .error e => pure (errTo e)
  | "cli.read" =>
    match readRaw (← jOf (← fld j "json")) with
    | .ok rs => pure (Json.mkObj [("set", SsbsD.setTo (toSet rs)),
        ("named", jList (fun (r : RRoutine) => Json.arr #[jInt r.coro.1, .str r.coro.2]) rs)])
    | .error e => pure (errTo e)
  | "cli.docshape" =>
    let d ← jOf (← fld j "json")
    pure (Json.mkObj [("ok", .bool (DocShape d)), ("str", .bool (DocShapeStr d))])
  | "cli.info" =>
    let c ← SsbsD.setOf (← fld j "set")
    pure (Json.mkObj [("closed", .bool (closedB c)), ("positional", .bool (positionalB c)),
      ("canon", SsbsD.setTo (canon c)), ("renum", SsbsD.setTo (renum c)), ("headers_ok", .bool (headersOk c))])
  | _ => throw s!"unknown op {op}"

end Drv.CliD
