import Lean.Data.Json
open Lean

namespace Drv

abbrev R := Except String

def fld (j : Json) (k : String) : R Json :=
  match j.getObjVal? k with
  | .ok v => pure v
  | .error _ => throw s!"missing field {k}"

def asArr (j : Json) : R (List Json) :=
  match j with
  | .arr a => pure a.toList
  | _ => throw "expected array"

def asInt (j : Json) : R Int :=
  match j.getInt? with
  | .ok v => pure v
  | .error _ => throw s!"expected int, got {j.compress}"

def asNat (j : Json) : R Nat := do
  let i ← asInt j
  if i < 0 then throw "expected nat" else pure i.toNat

def asStr (j : Json) : R String :=
  match j with
  | .str s => pure s
  | _ => throw s!"expected string, got {j.compress}"

def asBool (j : Json) : R Bool :=
  match j with
  | .bool b => pure b
  | _ => throw "expected bool"

def asOpt {α} (f : Json → R α) (j : Json) : R (Option α) :=
  match j with
  | .null => pure none
  | _ => some <$> f j

def jInt (i : Int) : Json := Json.num (JsonNumber.fromInt i)
def jNat (n : Nat) : Json := Json.num (JsonNumber.fromNat n)
def jOpt {α} (f : α → Json) : Option α → Json
  | none => .null
  | some a => f a
def jList {α} (f : α → Json) (l : List α) : Json := .arr (l.map f).toArray
def jStr (s : String) : Json := .str s
def jChars (cs : List Char) : Json := .str (String.ofList cs)

end Drv
