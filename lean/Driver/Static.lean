import Driver.Util
import Driver.Beh
import ESV.Static.Wf
open Lean Drv ESV ESV.Static

/-
Driver glue for C10: `static.check` {world: [[key, file]], root, cfg?} and `static.check_core` {prog (core AST)}.
import = {"direct": key} | {"lookup": [key]} | "invalid"
file = {"imports": [import], "macros": [{"name","vars","body"}], "routines": [{"id": int | null (coro), "fixed": bool, "body": body | null (alias)}], "ssbscript": bool}
stmt = ["op", inline] | ["label", n] | ["jump", n] | ["call", n] | ["ret"] | ["end"] | ["hold"] | ["break"] |
       ["continue"] | ["break_loop"] | ["with", stmt] | ["if", [[neg, [hdr], body]], else_body] | ["switch", cases] |
       ["msgswitch", cases] | ["forever", body] | ["while", hdr, body] | ["for", init, hdr, inc, body] | ["macro", name, nargs]
hdr  = "plain" | ["bit", neg, var]        case = [isDefault, intHdr, isStr, body]
Reply: {"ok": true} | {"error": class, "phase": where the root file's compilation stops (diagnostic only)}.
-/
namespace Drv.StaticD

def hdrOf (j : Json) : R Hdr := do
  match j with
  | .str "plain" => pure .plain
  | _ =>
    match (← asArr j) with
    | [.str "bit", neg, var] => pure (.bit (← asBool neg) (← asStr var))
    | _ => throw s!"bad header {j.compress}"

mutual
partial def stmtOf (j : Json) : R Stmt := do
  match (← asArr j) with
  | [] => throw "empty stmt"
  | tag :: rest =>
    match (← asStr tag), rest with
    | "op", [i] => pure (.op (← asBool i))
    | "label", [n] => pure (.label (← asStr n))
    | "jump", [n] => pure (.jump (← asStr n))
    | "call", [n] => pure (.call (← asStr n))
    | "ret", [] => pure .ret
    | "end", [] => pure .end_
    | "hold", [] => pure .hold
    | "break", [] => pure .brk
    | "continue", [] => pure .cont
    | "break_loop", [] => pure .brkLoop
    | "with", [s] => pure (.with_ (← stmtOf s))
    | "if", [bs, els] => pure (.ite (← branchesOf (← asArr bs)) (← stmtsOf els))
    | "switch", [cs] => pure (.switch (← casesOf (← asArr cs)))
    | "msgswitch", [cs] => pure (.msgSwitch (← casesOf (← asArr cs)))
    | "forever", [b] => pure (.forever (← stmtsOf b))
    | "while", [h, b] => pure (.while_ (← hdrOf h) (← stmtsOf b))
    | "for", [i, h, n, b] => pure (.for_ (← stmtOf i) (← hdrOf h) (← stmtOf n) (← stmtsOf b))
    | "macro", [n, k] => pure (.macroCall (← asStr n) (← asNat k))
    | t, _ => throw s!"bad stmt {t}"
partial def stmtsOf (j : Json) : R Stmts := do
  let ss ← (← asArr j).mapM stmtOf
  pure (Stmts.ofList ss)
partial def branchesOf (l : List Json) : R Branches := do
  match l with
  | [] => pure .nil
  | x :: rest =>
    match (← asArr x) with
    | [neg, hdrs, body] => pure (.cons (← asBool neg) (← (← asArr hdrs).mapM hdrOf) (← stmtsOf body) (← branchesOf rest))
    | _ => throw "bad branch"
partial def casesOf (l : List Json) : R Cases := do
  match l with
  | [] => pure .nil
  | x :: rest =>
    match (← asArr x) with
    | [d, i, s, body] => pure (.cons (← asBool d) (← asBool i) (← asBool s) (← stmtsOf body) (← casesOf rest))
    | _ => throw "bad case"
end

def fileOf (j : Json) : R File := do
  let imports ← (← asArr (← fld j "imports")).mapM fun i => do
    match i with
    | .str "invalid" => pure Import.invalid
    | _ =>
      if let .ok v := i.getObjVal? "direct" then return Import.direct (← asStr v)
      if let .ok v := i.getObjVal? "lookup" then return Import.lookup (← (← asArr v).mapM asStr)
      throw s!"bad import {i.compress}"
  let macros ← (← asArr (← fld j "macros")).mapM fun m => do
    pure (⟨← asStr (← fld m "name"), ← (← asArr (← fld m "vars")).mapM asStr, ← stmtsOf (← fld m "body")⟩ : Static.Macro)
  let routines ← (← asArr (← fld j "routines")).mapM fun r => do
    let fixed ← match r.getObjVal? "fixed" with
      | .ok v => asBool v
      | .error _ => pure false
    pure ({ id := ← asOpt asInt (← fld r "id"), fixedTarget := fixed, body := ← asOpt stmtsOf (← fld r "body") } : Routine)
  let ssb ← match j.getObjVal? "ssbscript" with
    | .ok v => asBool v
    | .error _ => pure false
  pure { imports := imports, macros := macros, routines := routines, isSsbScript := ssb }

def cfgOf (j : Json) : R Cfg := do
  match j.getObjVal? "cfg" with
  | .error _ => pure {}
  | .ok c =>
    let perf ← match c.getObjVal? "perf" with
      | .ok v => asStr v
      | .error _ => pure ({} : Cfg).perfVar
    pure { perfVar := perf }

def clsName : ErrKind → String
  | .ssbCompilerError => "SsbCompilerError"
  | .valueError => "ValueError"
  | .other c => c

/-- diagnostic: the phase of the root file's own compilation that fails (given the macros of its imports) -/
def localPhase (cfg : Cfg) (imported : List Static.Macro) (f : File) : String :=
  let ms := imported ++ f.macros
  let env : Env := ⟨cfg.perfVar, ms⟩
  if macroCycle f.macros then "macro-cycle"
  else if !(checkBodies env (f.macros.map fun m => m.body)).ok? then
    (if (f.macros.all fun m => addOkSs cfg.perfVar m.body) then "macro-body-collect" else "macro-body-add")
  else if !(routinesGo env (-1) 0 f.routines).ok? then
    (if !(routinesGo env (-1) 0 (f.routines.map fun r => { r with body := none, fixedTarget := false })).ok? then "routine-id"
     else if !(f.routineBodies.all fun b => addOkSs cfg.perfVar b) then "routine-add"
     else if f.routines.any (fun r => r.fixedTarget) then "routine-target-or-collect"
     else "routine-collect")
  else if labelsBad ms f then "labels"
  else "none"

def reply (r : Res) (phase : String) : Json :=
  match r with
  | .ok _ => Json.mkObj [("ok", .bool true)]
  | .error e => Json.mkObj [("error", .str (clsName e)), ("phase", .str phase)]

def handle (op : String) (j : Json) : R Json := do
  match op with
  | "static.check" =>
    let cfg ← cfgOf j
    let w ← (← asArr (← fld j "world")).mapM fun kv => do
      match (← asArr kv) with
      | [k, f] => pure ((← asStr k), (← fileOf f))
      | _ => throw "bad world entry"
    let root ← asStr (← fld j "root")
    let r := checkWorld cfg w root
    let phase := match World.get? w root with
      | none => "no-root"
      | some (f : File) =>
        if f.isSsbScript then "ssbscript"
        else if (f.resolved w).any Option.isNone then "import-missing"
        else match importAll (fun s => checkFile cfg w w.length [root] s true) [] (f.resolved w) [] with
          | .error _ => "import"
          | .ok imported => localPhase cfg imported f
    pure (reply r phase)
  | "static.check_core" =>
    let p ← BehD.programOf (← fld j "prog")
    pure (reply (Static.check p) (localPhase {} [] (ofCore p)))
  | _ => throw s!"unknown op {op}"

end Drv.StaticD
