import Driver.Util
import Driver.Ssbs
import ESV.SsbScript.Text
open Lean Drv ESV ESV.SsbScript ESV.SsbScript.Text

/-
  ssbstext.decompile {set, prefix} → {text, entries:[[off,line,col]], map:[[off,line,col]] (dict semantics, insertion order),
                                      marks:[[line,col,endLine,endCol,name,xOff,yOff,xRel,yRel]]} | {err}
-/
namespace Drv.SsbsTextD

def entryTo (e : Int × Nat × Nat) : Json := Json.arr #[jInt e.1, jNat e.2.1, jNat e.2.2]

def markTo (m : Mark) : Json :=
  Json.arr #[jNat m.line, jNat m.col, jNat m.endLine, jNat m.endCol, jChars m.name, jInt m.xOff, jInt m.yOff, jInt m.xRel, jInt m.yRel]

def handle (op : String) (j : Json) : R Json := do
  match op with
  | "ssbstext.decompile" =>
    let x ← SsbsD.setOf (← fld j "set")
    let pre := (← asStr (← fld j "prefix")).toList
    match decompileText pre x with
    | .ok (text, entries, marks) =>
      pure (Json.mkObj [("text", jChars text), ("entries", jList entryTo entries),
        ("map", jList (fun (e : Int × Nat × Nat) => entryTo e) (mappingsOf entries)),
        ("marks", jList markTo marks)])
    | .error e => pure (SsbsD.errTo e)
  | _ => throw s!"unknown op {op}"

end Drv.SsbsTextD
