import Driver.Util
import ESV.Macro.Order
import ESV.Macro.Pinned
import ESV.Macro.Import
open Lean Drv ESV.Macro

namespace Drv.MacroD

def inputOf (j : Json) : R (Input String) := do
  let imported ← (← asArr (← fld j "imported")).mapM asStr
  let defs ← (← asArr (← fld j "defs")).mapM fun d => do
    match (← asArr d) with
    | [n, cs] => pure ((← asStr n), (← (← asArr cs).mapM asStr))
    | _ => throw "bad macro def"
  pure ⟨imported, defs⟩

def compsOf (s : String) : Imp.Comps := Imp.normalize (Imp.parse s.toList).parts

def pathTo (c : Imp.Comps) : Json :=
  .str ("/" ++ "/".intercalate (c.map String.ofList))

def handle (op : String) (j : Json) : R Json := do
  match op with
  | "macro.order" =>
    let inp ← inputOf j
    let g := build inp
    let base := [("vs", jList Json.str g.vs),
      ("es", jList (fun (e : String × String) => Json.arr #[.str e.1, .str e.2]) g.es)]
    match visitStart inp with
    | .error (.cycle v) => pure (Json.mkObj (base ++ [("cycle", .str v)]))
    | .error .stopIteration => pure (Json.mkObj (base ++ [("stop_iteration", .bool true)]))
    | .ok order =>
      let comp := match compileMacros inp with
        | .ok known => Json.mkObj [("ok", jList Json.str known)]
        | .error (.cycle v) => Json.mkObj [("err", .str "SsbCompilerError"), ("cycle", .str v)]
        | .error .stopIteration => Json.mkObj [("err", .str "StopIteration")]
        | .error (.valueError n) => Json.mkObj [("err", .str "ValueError"), ("name", .str n)]
        | .error (.notFound n) =>
          let cands := match sortDefs order inp.defs with
            | .ok sorted => match firstFailure inp.imported sorted with
              | some (_, cs) => cs
              | none => [n]
            | .error _ => [n]
          Json.mkObj [("err", .str "SsbCompilerError"), ("name", .str n), ("candidates", jList Json.str cands)]
      -- "pinned_order": what the ordering of the pinned tree (ESV/Macro/Pinned.lean) gives, for information only
      pure (Json.mkObj (base ++ [("order", jList Json.str order), ("compile", comp),
        ("pinned_order", jList Json.str g.resolutionOrderPinned)]))
  | "macro.resolve" =>
    let ex ← (← asArr (← fld j "exists")).mapM asStr
    let exc := ex.map compsOf
    let fs : Imp.Comps → Bool := fun c => exc.contains c
    let cwd := compsOf (← asStr (← fld j "cwd"))
    let dir := (← asStr (← fld j "dir")).toList
    let lookups := (← (← asArr (← fld j "lookups")).mapM asStr).map String.toList
    let imports := (← (← asArr (← fld j "imports")).mapM asStr).map String.toList
    match Imp.resolveAll fs cwd dir lookups imports 0 with
    | .ok ps => pure (Json.mkObj [("ok", jList pathTo ps)])
    | .error (i, e) =>
      pure (Json.mkObj [("err", .str (match e with | .notFound => "notFound" | .invalid => "invalid")), ("index", jNat i)])
  | _ => throw s!"unknown op {op}"

end Drv.MacroD
