import Driver.Util
import ESV.SsbScript.Model
open Lean Drv ESV ESV.SsbScript

/-
JSON glue for routine sets and the SsbScript statement AST (formats: harness/ssbjson.py, harness/astdump_ssbs.py).
  ssbs.decompile {set}  → {ast} | {err}
  ssbs.compile   {ast}  → {out} | {err}        (raw result: infos may contain null)
  ssbs.wf        {set}  → {wf}
  ssbs.canon     {set}  → {set}                (expected round-trip result)
  ssbs.roundtrip {set}  → {set} | {err}        (compile (decompile x))
  ssbs.all       {set}  → {dec, wf, canon, rt}  (the four above in one reply)
-/
namespace Drv.SsbsD

def strPairOf (j : Json) : R (String × String) := do
  match (← asArr j) with
  | [a, b] => pure ((← asStr a), (← asStr b))
  | _ => throw "bad pair"

def paramOf (j : Json) : R Param := do
  match j with
  | .num _ => pure (.int (← asInt j))
  | _ =>
    match j.getObjVal? "fx" with
    | .ok v => pure (.fixed (← asStr v))
    | .error _ =>
    match j.getObjVal? "c" with
    | .ok v => pure (.const (← asStr v))
    | .error _ =>
    match j.getObjVal? "s" with
    | .ok v => pure (.constString (← asStr v))
    | .error _ =>
    match j.getObjVal? "ls" with
    | .ok v => pure (.langString (← (← asArr v).mapM strPairOf))
    | .error _ =>
    match j.getObjVal? "pm" with
    | .ok v =>
      match (← asArr v) with
      | [n, a, b, c, d] => pure (.posMark (← asStr n) (← asInt a) (← asInt b) (← asInt c) (← asInt d))
      | _ => throw "bad pm"
    | .error _ => throw s!"bad param {j.compress}"

def paramTo : Param → Json
  | .int i => jInt i
  | .fixed s => Json.mkObj [("fx", .str s)]
  | .const s => Json.mkObj [("c", .str s)]
  | .constString s => Json.mkObj [("s", .str s)]
  | .langString l => Json.mkObj [("ls", jList (fun (p : String × String) => Json.arr #[.str p.1, .str p.2]) l)]
  | .posMark n a b c d => Json.mkObj [("pm", .arr #[.str n, jInt a, jInt b, jInt c, jInt d])]

def opOf (j : Json) : R Op := do
  pure ⟨← asInt (← fld j "off"), ← asStr (← fld j "name"), ← (← asArr (← fld j "params")).mapM paramOf⟩

def opTo (o : Op) : Json :=
  Json.mkObj [("off", jInt o.offset), ("name", .str o.name), ("params", jList paramTo o.params)]

def kindOf (s : String) : R RoutineKind :=
  match s with
  | "GENERIC" => pure .generic
  | "ACTOR" => pure .actor
  | "OBJECT" => pure .object
  | "PERFORMER" => pure .performer
  | "COROUTINE" => pure .coroutine
  | "INVALID" => pure .invalid
  | _ => throw s!"bad routine type {s}"

def kindTo : RoutineKind → String
  | .generic => "GENERIC"
  | .actor => "ACTOR"
  | .object => "OBJECT"
  | .performer => "PERFORMER"
  | .coroutine => "COROUTINE"
  | .invalid => "INVALID"

def infoOf (j : Json) : R RoutineInfo := do
  pure ⟨← kindOf (← asStr (← fld j "type")), ← asInt (← fld j "linked_to"), ← asOpt asStr (← fld j "linked_to_name")⟩

def infoTo (i : RoutineInfo) : Json :=
  Json.mkObj [("type", .str (kindTo i.kind)), ("linked_to", jInt i.linkedTo), ("linked_to_name", jOpt jStr i.linkedToName)]

def setOf (j : Json) : R RoutineSet := do
  let infos ← (← asArr (← fld j "infos")).mapM infoOf
  let coros ← (← asArr (← fld j "coros")).mapM (asOpt asStr)
  let ops ← (← asArr (← fld j "ops")).mapM fun r => do (← asArr r).mapM opOf
  pure ⟨infos, ops, coros⟩

def setTo (x : RoutineSet) : Json :=
  Json.mkObj [("infos", jList infoTo x.infos), ("coros", jList (jOpt jStr) x.coros), ("ops", jList (jList opTo) x.ops)]

def outTo (x : CompileOut) : Json :=
  Json.mkObj [("infos", jList (jOpt infoTo) x.infos), ("coros", jList (jOpt jStr) x.coros), ("ops", jList (jList opTo) x.ops)]

def argOf (j : Json) : R SArg := do
  match j.getObjVal? "j" with
  | .ok v => pure (.jump (← asStr v))
  | .error _ => pure (.param (← paramOf j))

def argTo : SArg → Json
  | .param p => paramTo p
  | .jump l => Json.mkObj [("j", .str l)]

def stmtOf (j : Json) : R SStmt := do
  match j.getObjVal? "l" with
  | .ok v => pure (.label (← asStr v))
  | .error _ => pure (.op (← asStr (← fld j "op")) (← (← asArr (← fld j "args")).mapM argOf))

def stmtTo : SStmt → Json
  | .label n => Json.mkObj [("l", .str n)]
  | .op n args => Json.mkObj [("op", .str n), ("args", jList argTo args)]

def targetOf (j : Json) : R STarget :=
  match j with
  | .str s => pure (.name s)
  | _ => do pure (.int (← asInt j))

def headerOf (j : Json) : R SHeader := do
  match (← asStr (← fld j "k")) with
  | "def" => pure (.simple (← asInt (← fld j "id")))
  | "coro" => pure (.coro (← asStr (← fld j "name")))
  | "for" => pure (.forTarget (← asInt (← fld j "id")) (← asStr (← fld j "word")) (← targetOf (← fld j "target")))
  | k => throw s!"bad header kind {k}"

def headerTo : SHeader → Json
  | .simple id => Json.mkObj [("k", "def"), ("id", jInt id)]
  | .coro n => Json.mkObj [("k", "coro"), ("name", .str n)]
  | .forTarget id w t => Json.mkObj [("k", "for"), ("id", jInt id), ("word", .str w),
      ("target", match t with | .int i => jInt i | .name s => .str s)]

def routineOf (j : Json) : R SRoutine := do
  let b ← fld j "body"
  let body ← match b with
    | .null => pure none
    | _ => do pure (some (← (← asArr b).mapM stmtOf))
  pure ⟨← headerOf (← fld j "hdr"), body⟩

def routineTo (r : SRoutine) : Json :=
  Json.mkObj [("hdr", headerTo r.header), ("body", jOpt (jList stmtTo) r.body)]

def errTo (e : Err) : Json := Json.mkObj [("err", .str e.name)]

def handle (op : String) (j : Json) : R Json := do
  match op with
  | "ssbs.decompile" =>
    match decompile (← setOf (← fld j "set")) with
    | .ok ast => pure (Json.mkObj [("ast", jList routineTo ast)])
    | .error e => pure (errTo e)
  | "ssbs.compile" =>
    match compileRaw (← (← asArr (← fld j "ast")).mapM routineOf) with
    | .ok o => pure (Json.mkObj [("out", outTo o)])
    | .error e => pure (errTo e)
  | "ssbs.wf" => pure (Json.mkObj [("wf", .bool (decide (WF' (← setOf (← fld j "set")))))])
  | "ssbs.canon" => pure (Json.mkObj [("set", setTo (canon (← setOf (← fld j "set"))))])
  | "ssbs.roundtrip" =>
    match decompile (← setOf (← fld j "set")) with
    | .error e => pure (errTo e)
    | .ok ast =>
      match compile ast with
      | .ok y => pure (Json.mkObj [("set", setTo y)])
      | .error e => pure (errTo e)
  | "ssbs.all" =>
    let x ← setOf (← fld j "set")
    let dec := match decompile x with
      | .ok ast => Json.mkObj [("ast", jList routineTo ast)]
      | .error e => errTo e
    let rt := match decompile x with
      | .error e => errTo e
      | .ok ast =>
        match compile ast with
        | .ok y => Json.mkObj [("set", setTo y)]
        | .error e => errTo e
    pure (Json.mkObj [("dec", dec), ("wf", .bool (decide (WF' x))), ("canon", setTo (canon x)), ("rt", rt)])
  | _ => throw s!"unknown op {op}"

end Drv.SsbsD
