import Driver.Decomp
import ESV.Decomp.SemS
import ESV.Decomp.SwGuard
open Lean Drv ESV ESV.Beh ESV.Decomp

/-! `build_and_group_switch_cases` / `group_switch_cases`: graph-level tie (`decompsw.switch`: one pass of the model on a
hand-built graph) and per-input validation of the REAL graphs with the proven checker under `stepS` (`decompsw.validate`). -/
namespace Drv.DecompSwD
open Drv.DecompD

def verdictS (f₁ f₂ : NStep) (n₁ n₂ a b : Nat) : Json :=
  BehD.verdictJson f₁ f₂ (n₁ + n₂ + 8) ((n₁ + 4) * (n₂ + 4) + 64) a b

/-- REAL graph after each of the two passes vs REAL graph before it (`stepB` / `stepS`; the start vertex is found again by
its name), the bridge `stepB` vs `stepS` on the real graph after `invert_branches`, and the hypotheses of the theorems of
lean/ESV/Props/DecompSwitch.lean evaluated on the real graphs and the recorded real answers -/
def validate (ibs : List BGraph) (scs gss : Option (List BGraph)) (answers : List (List (Option (List Nat)))) : Json :=
  let res := ibs.zipIdx.map fun (b, k) =>
    let bridge := (verdictS b.stepB b.stepS (bStates b) b.sStates 0 0).setObjVal! "no_switch_marks" (.bool (noSwitchMarks b))
    let base := [("r", jNat k), ("bridge", bridge)]
    let rest := match scs.bind (·[k]?) with
      | none => []
      | some sc =>
        let ans := answers.getD k []
        let v := match startIn b sc with
          | some st => verdictS b.stepB sc.stepS (bStates b) sc.sStates 0 st
          | none => Json.mkObj [("verdict", .str "start-deleted")]
        let v := (((v.setObjVal! "struct_ok" (.bool (switchStructOk b))).setObjVal! "answers_ok" (.bool (switchAnswersOk ans b))).setObjVal!
          "changed" (.bool (decide (sc.vs ≠ b.vs) || decide (sc.es ≠ b.es)))).setObjVal! "lvl_det" (.bool (lvlDet b))
            |>.setObjVal! "flag_det" (.bool (flagDet b))
        let grp := match gss.bind (·[k]?) with
          | none => []
          | some gs =>
            [("group", (((verdictS sc.stepS gs.stepS sc.sStates gs.sStates 0 0).setObjVal! "struct_ok" (.bool (groupSwStructOk sc))).setObjVal!
              "changed" (.bool (decide (gs.vs ≠ sc.vs) || decide (gs.es ≠ sc.es)))).setObjVal! "else_det" (.bool (elseDet sc))
                |>.setObjVal! "idx_det" (.bool (idxDet sc)) |>.setObjVal! "else_no_ops" (.bool (elseNoOps sc)))]
        ("build", v) :: grp
    Json.mkObj (base ++ rest)
  Json.mkObj [("routines", .arr res.toArray)]

def handle (op : String) (j : Json) : R Json := do
  match op with
  | "decompsw.validate" =>
    let ibs ← (← asArr (← fld j "ib")).mapM bgraphOf
    let opt (k : String) : R (Option (List BGraph)) := match j.getObjVal? k with
      | .ok (.arr a) => some <$> a.toList.mapM bgraphOf
      | _ => pure none
    let answers ← match j.getObjVal? "sw_answers" with
      | .ok a => swAnswersOf a
      | .error _ => pure []
    pure (validate ibs (← opt "sc") (← opt "gs") answers)
  | "decompsw.switch" =>
    -- graph-level tie: one pass of the model on a hand-built graph, the hypotheses and the checker's verdict
    let g ← bgraphOf (← fld j "g")
    let pass ← asStr (← fld j "pass")
    let answers ← match j.getObjVal? "answers" with
      | .ok a => do (← asArr a).mapM swAnswerOf
      | .error _ => pure []
    let (res, hyp) := if pass == "build" then (buildSwitchCases answers g, switchStructOk g && switchAnswersOk answers g)
      else (groupSwitchCases g, groupSwStructOk g)
    pure (match res with
      | .ok g' =>
        -- vertex 0 stays vertex 0 unless the phase deletes it (the model's own deleted set: hand-built graphs may have no names)
        let st := if pass == "build" then
            (match buildSwitchCasesRaw answers g with
             | .ok (_, dH, dI) => if (dH ++ dI).contains 0 then none else some 0
             | .error _ => none)
          else some 0
        let v := match st with
          | some s => (verdictS g.stepS g'.stepS g.sStates g'.sStates 0 s).getObjValD "verdict"
          | none => .str "start-deleted"
        (((sgraphTo g').setObjVal! "hyp" (.bool hyp)).setObjVal! "verdict" v).setObjVal! "bridge"
          ((verdictS g.stepB g.stepS (bStates g) g.sStates 0 0).getObjValD "verdict") |>.setObjVal! "no_switch_marks" (.bool (noSwitchMarks g))
      | .error e => Json.mkObj [("error", .str e)])
  | _ => throw s!"unknown op {op}"

end Drv.DecompSwD
