import Driver.Util
import ESV.Pyg.Model
open Lean Drv ESV ESV.Pyg

namespace Drv.PygD

def toksTo : Option (List Tok) → Json
  | none => .null
  | some l => jList (fun (t : Tok) => Json.arr #[jChars t.ty, jChars t.text]) l

def flagsOf (j : Json) : R Nat :=
  match j.getObjVal? "flags" with
  | .ok v => asNat v
  | .error _ => pure Gen.pygFlags

def handle (op : String) (j : Json) : R Json := do
  match op with
  | "pyg.lex" => pure (Json.mkObj [("tokens", toksTo (lexRaw (← asStr (← fld j "text")).toList))])
  | "pyg.get_tokens" => pure (Json.mkObj [("tokens", toksTo (getTokens (← asStr (← fld j "text")).toList))])
  | "pyg.clean" => pure (Json.mkObj [("clean", .bool (Clean (← asStr (← fld j "text")).toList))])
  | "pyg.preprocess" => pure (Json.mkObj [("text", jChars (preprocess (← asStr (← fld j "text")).toList))])
  | "pyg.lex_many" =>
    let pre ← asBool (← fld j "pre")
    let ts ← (← asArr (← fld j "texts")).mapM asStr
    pure (Json.mkObj [("results", jList (fun (s : String) => toksTo ((if pre then getTokens else lexRaw) s.toList)) ts),
                      ("clean", jList (fun (s : String) => Json.bool (Clean s.toList)) ts)])
  | "pyg.match" =>
    let rx ← asStr (← fld j "regex")
    let text ← asStr (← fld j "text")
    let pos ← asNat (← fld j "pos")
    match matchAt (← flagsOf j) rx.toList text.toList pos with
    | none => pure (Json.mkObj [("known", .bool false), ("len", .null)])
    | some r => pure (Json.mkObj [("known", .bool true), ("len", jOpt jNat r)])
  | "pyg.match_many" =>
    -- {"regex", "cases": [[text, pos], …]} → {"known", "lens": [n|null, …]}
    let rx ← asStr (← fld j "regex")
    let fl ← flagsOf j
    match matchRegex fl rx.toList with
    | none => pure (Json.mkObj [("known", .bool false), ("lens", .null)])
    | some m =>
      let cs ← (← asArr (← fld j "cases")).mapM fun c => do
        match (← asArr c) with
        | [t, p] => pure ((← asStr t), (← asNat p))
        | _ => throw "bad case"
      pure (Json.mkObj [("known", .bool true),
        ("lens", jList (fun (c : String × Nat) => jOpt jNat (m (c.1.toList.drop c.2))) cs)])
  | _ => throw s!"unknown op {op}"

end Drv.PygD
