import Driver.Util
import ESV.SourceMap.Model
open Lean Drv ESV ESV.SM

namespace Drv.SMD

partial def jOfWire (j : Json) : R J := do
  match j with
  | .null => pure .null
  | .str s => pure (.str s)
  | .num _ => pure (.int (← asInt j))
  | _ =>
    match j.getObjVal? "a" with
    | .ok a => do
      let l ← asArr a
      pure (.arr (← l.mapM jOfWire))
    | .error _ =>
      let o ← fld j "o"
      let l ← asArr o
      let kvs ← l.mapM fun kv => do
        let p ← asArr kv
        match p with
        | [k, v] => pure ((← asStr k), (← jOfWire v))
        | _ => throw "bad pair"
      pure (.obj kvs)

partial def wireOfJ : J → Json
  | .null => .null
  | .int i => jInt i
  | .str s => .str s
  | .arr l => Json.mkObj [("a", .arr (l.map wireOfJ).toArray)]
  | .obj kvs => Json.mkObj [("o", .arr (kvs.map fun kv => Json.arr #[.str kv.1, wireOfJ kv.2]).toArray)]

def posMarkOf (j : Json) : R PosMark := do
  match (← asArr j) with
  | [a, b, c, d, n, e, f, g, h] =>
    pure ⟨← asInt a, ← asInt b, ← asInt c, ← asInt d, ← asStr n, ← asInt e, ← asInt f, ← asInt g, ← asInt h⟩
  | _ => throw "bad posmark"

def posMarkTo (p : PosMark) : Json :=
  .arr #[jInt p.line, jInt p.col, jInt p.endLine, jInt p.endCol, .str p.name, jInt p.xOff, jInt p.yOff, jInt p.xRel, jInt p.yRel]

def pvalOf (j : Json) : R PVal :=
  match j with
  | .str s => pure (.str s)
  | _ => do pure (.int (← asInt j))

def macroOf (j : Json) : R MacroMapping := do
  match (← asArr j) with
  | [rp, mn, l, c, ci, ra, ps] =>
    let ci' ← asOpt (fun x => do
      match (← asArr x) with
      | [f, l, c] => pure ((← asOpt asStr f), (← asInt l), (← asInt c))
      | _ => throw "bad called_in") ci
    let ps' ← (← asArr ps).mapM fun kv => do
      match (← asArr kv) with
      | [k, v] => pure ((← asStr k), (← pvalOf v))
      | _ => throw "bad param"
    pure ⟨← asOpt asStr rp, ← asStr mn, ← asInt l, ← asInt c, ci', ← asOpt asInt ra, ps'⟩
  | _ => throw "bad macro mapping"

def macroTo (m : MacroMapping) : Json :=
  .arr #[jOpt jStr m.relpath, .str m.macroName, jInt m.line, jInt m.col,
         jOpt (fun (x : Option String × Int × Int) => Json.arr #[jOpt jStr x.1, jInt x.2.1, jInt x.2.2]) m.calledIn,
         jOpt jInt m.returnAddr,
         jList (fun (kv : String × PVal) => Json.arr #[.str kv.1, match kv.2 with | .int i => jInt i | .str s => .str s]) m.params]

def smOf (j : Json) : R SourceMap := do
  let mp ← (← asArr (← fld j "map")).mapM fun kv => do
    match (← asArr kv) with
    | [k, v] => match (← asArr v) with
      | [l, c] => pure ((← asInt k), (⟨← asInt l, ← asInt c⟩ : Mapping))
      | _ => throw "bad mapping"
    | _ => throw "bad pair"
  let pms ← (← asArr (← fld j "pos_marks")).mapM posMarkOf
  let mm ← (← asArr (← fld j "macros")).mapM fun kv => do
    match (← asArr kv) with
    | [k, v] => pure ((← asInt k), (← macroOf v))
    | _ => throw "bad pair"
  let mpms ← (← asArr (← fld j "pos_marks_macro")).mapM fun y => do
    match (← asArr y) with
    | [f, n, p] => pure ((← asOpt asStr f), (← asStr n), (← posMarkOf p))
    | _ => throw "bad macro posmark"
  pure ⟨mp, pms, mm, mpms⟩

def smTo (m : SourceMap) : Json :=
  Json.mkObj [
    ("map", jList (fun (kv : Int × Mapping) => Json.arr #[jInt kv.1, .arr #[jInt kv.2.line, jInt kv.2.col]]) m.mappings),
    ("pos_marks", jList posMarkTo m.posMarks),
    ("macros", jList (fun (kv : Int × MacroMapping) => Json.arr #[jInt kv.1, macroTo kv.2]) m.macros),
    ("pos_marks_macro", jList (fun (y : Option String × String × PosMark) => Json.arr #[jOpt jStr y.1, .str y.2.1, posMarkTo y.2.2]) m.posMarksMacro)]

def pairsOf (j : Json) : R (List (Int × Int)) := do
  (← asArr j).mapM fun kv => do
    match (← asArr kv) with
    | [k, v] => pure ((← asInt k), (← asInt v))
    | _ => throw "bad pair"

def handle (op : String) (j : Json) : R Json := do
  match op with
  | "sm.ser" => pure (Json.mkObj [("json", wireOfJ (← smOf (← fld j "sm")).ser)])
  | "sm.deser" =>
    match SourceMap.deser (← jOfWire (← fld j "json")) with
    | some m => pure (Json.mkObj [("sm", smTo m)])
    | none => pure (Json.mkObj [("sm", .null)])
  | "sm.rewrite" =>
    let m ← smOf (← fld j "sm")
    let f ← pairsOf (← fld j "f")
    pure (Json.mkObj [("sm", smTo (m.rewrite f))])
  | "sm.pyeq" => pure (Json.mkObj [("eq", .bool ((← smOf (← fld j "a")).pyEq (← smOf (← fld j "b"))))])
  | "dec.show" => pure (Json.mkObj [("s", jChars (showInt (← asInt (← fld j "i"))))])
  | "dec.read" => pure (Json.mkObj [("i", jOpt jInt (readInt (← asStr (← fld j "s")).toList))])
  | _ => throw s!"unknown op {op}"

end Drv.SMD
