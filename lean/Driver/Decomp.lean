import Driver.Util
import Driver.Beh
import ESV.Decomp.Sem
import ESV.Decomp.Optimize
import ESV.Decomp.SemE
import ESV.Decomp.Branches
import ESV.Decomp.BrGuard
import ESV.Decomp.Group
import ESV.Decomp.SemB
import ESV.Decomp.GrGuard
import ESV.Decomp.Switch
import ESV.Decomp.Loops
open Lean Drv ESV ESV.Beh ESV.Decomp

namespace Drv.DecompD

def mopTo (o : MOp) : List (String × Json) :=
  [("off", jInt o.off), ("name", .str o.name), ("params", jList BehD.paramTo o.params)]

def itemTo : Item → Json
  | .op o => Json.mkObj (("k", .str "op") :: mopTo o)
  | .label id => Json.mkObj [("k", .str "label"), ("id", jNat id)]
  | .ljump r l c => Json.mkObj (("k", .str "ljump") :: mopTo r ++ [("label", jNat l), ("call", .bool c)])

def vopTo : VOp → Json
  | .item it => itemTo it
  | .foreign l => Json.mkObj [("k", .str "foreign"), ("id", jNat l)]

def lblTo (l : Lbl) : Json := .arr #[jInt l.off, jNat l.id, jNat l.rtn, .bool l.foreign]

def graphTo (g : Graph) : Json :=
  Json.mkObj [("vs", jList vopTo g.vs),
    ("es", jList (fun (e : Edge) => Json.arr #[jNat e.src, jNat e.dst, jNat e.level, .bool e.loop]) g.es)]

def bgraphTo (g : BGraph) : Json :=
  Json.mkObj [("vs", jList (fun (v : BVertex) =>
      ((vopTo v.op).setObjVal! "n" (jOpt jNat v.name)).setObjVal! "ifs" (jOpt jNat v.ifStart) |>.setObjVal! "ife" (jList jNat v.ifEnds)
        |>.setObjVal! "mops" (jList (fun o => Json.mkObj (mopTo o)) v.ifOps) |>.setObjVal! "not" (.bool v.isNot)
        -- what the Python object of a multi-if looks like: root unset, opcode renamed, marker class
        |>.setObjVal! "multi" (.bool (!v.ifOps.isEmpty))) g.vs),
    ("es", jList (fun (e : BEdge) => Json.arr #[jNat e.src, jNat e.dst, jNat e.level, .bool e.loop, .bool e.isElse]) g.es)]

def swOpTo (t : SwOp) : Json := .arr #[jNat t.1, jNat t.2.1, Json.mkObj (mopTo t.2.2)]

/-- a graph from `build_and_group_switch_cases` on: `bgraphTo` plus the switch markers ("sws", "swe") and, as sixth entry of
an edge, its `switch_ops` (`[]` for `None`) as `[switch_index, index, op]` -/
def sgraphTo (g : BGraph) : Json :=
  let vs := match (bgraphTo g).getObjValD "vs" with
    | .arr a => a.toList
    | _ => []
  Json.mkObj [("vs", .arr ((vs.zip g.vs).map fun (j, v) =>
      (j.setObjVal! "sws" (jOpt jNat v.switchStart)).setObjVal! "swe" (jList jNat v.switchEnds)).toArray),
    ("es", jList (fun (e : BEdge) => Json.arr #[jNat e.src, jNat e.dst, jNat e.level, .bool e.loop, .bool e.isElse,
      jList swOpTo e.switchOps]) g.es)]

/-- a graph from `build_switch_fallthroughs` on: `sgraphTo` plus the fall-through, loop and `force_write` attributes and the
flag "syn" of the vertices `build_loops` inserted (dumped as their root op) -/
def lgraphTo (g : BGraph) : Json :=
  let vs := match (sgraphTo g).getObjValD "vs" with
    | .arr a => a.toList
    | _ => []
  Json.mkObj [("vs", .arr ((vs.zip g.vs).map fun (j, v) =>
      (j.setObjVal! "ft" (.bool v.fallthrough)).setObjVal! "fs" (jOpt jNat v.foreverStart) |>.setObjVal! "fe" (jList jNat v.foreverEnds)
        |>.setObjVal! "fb" (jOpt jNat v.foreverBreak) |>.setObjVal! "fc" (jOpt jNat v.foreverContinue)
        |>.setObjVal! "fw" (.bool v.forceWrite) |>.setObjVal! "syn" (.bool v.synthetic)).toArray),
    ("es", (sgraphTo g).getObjValD "es")]

structure LpOracle where
  ftMarked : List (List Nat)
  ftRaised : Option String
  records : List (List LoopRec)
  /-- the decision part of `build_loops` raised while graph `k` was processed -/
  raised : Option (Nat × String)

def answerTo : Option (Nat × Nat) → Json
  | none => .null
  | some (a, b) => .arr #[jNat a, jNat b]

/-- `build_branches` of the model on the graphs that leave `optimize_paths`, with the recorded answers of the search
(one list per routine graph); the first exception aborts the phase, as in `build_branches()` -/
def frontBranches (labels : List Lbl) (gs os : List Graph) (answers : List (List (Option (Nat × Nat))))
    (swAnswers : List (List (Option (List Nat)))) (lp : Option LpOracle := none) : List (String × Json) :=
  let names := gs.map (optNames labels)
  let bgs := (os.zip names).map fun (o, ns) => BGraph.ofGraph ns o
  let err (e : String) : Json := Json.mkObj [("error", .str e)]
  let rest : List (String × Json) := match (bgs.zipIdx).mapM (fun (b, k) => buildBranches (answers.getD k []) b) with
    | .error e => [("bb", err e)]
    | .ok rs =>
      -- group_branches, then invert_branches (deterministic: no oracle)
      ("bb", jList bgraphTo rs) :: match rs.mapM groupBranches with
        | .error e => [("gb", err e)]
        | .ok gbs => ("gb", jList bgraphTo gbs) :: match gbs.mapM invertBranches with
          | .error e => [("ib", err e)]
          | .ok ibs =>
            -- build_and_group_switch_cases (search answers recorded from the real run), then group_switch_cases
            ("ib", jList bgraphTo ibs) :: match (ibs.zipIdx).mapM (fun (b, k) => buildSwitchCases (swAnswers.getD k []) b) with
              | .error e => [("sc", err e)]
              | .ok scs => ("sc", jList sgraphTo scs) :: match scs.mapM groupSwitchCases with
                | .error e => [("gs", err e)]
                | .ok gss => ("gs", jList sgraphTo gss) :: match lp with
                  | none => []
                  | some o =>
                    -- build_switch_fallthroughs (marked labels = oracle), build_loops (constructions = oracle), remove_label_markers
                    match (match o.ftRaised with
                      | some cls => Except.error cls
                      | none => (gss.zipIdx).mapM (fun (b, k) => buildSwitchFallthroughs (o.ftMarked.getD k []) b)) with
                    | .error e => [("fl", err e)]
                    | .ok fls => ("fl", jList lgraphTo fls) :: match (fls.zipIdx).mapM (fun (b, k) =>
                        buildLoops (o.records.getD k []) b (match o.raised with
                          | some (k', cls) => if k' == k then some cls else none
                          | none => none)) with
                      | .error e => [("bl", err e)]
                      | .ok bls => ("bl", jList lgraphTo bls) :: match bls.mapM (removeLabelMarkers labels) with
                        | .error e => [("rl", err e)]
                        | .ok rls => [("rl", jList lgraphTo rls)]
  ("opt_names", jList (jList (jOpt jNat)) names) :: rest

def front (rs : List (List MOp)) (answers : Option (List (List (Option (Nat × Nat)))))
    (swAnswers : List (List (Option (List Nat))) := []) (lp : Option LpOracle := none) : Json :=
  match resolve rs with
  | .error e => Json.mkObj [("error", .str e), ("stage", .str "resolve")]
  | .ok r =>
    let base := [("labels", jList lblTo r.labels), ("rtns", jList (jList itemTo) r.rtns),
      ("has_calls", .bool (hasAnyCalls r))]
    match baseGraphs r with
    | .error e => Json.mkObj (base ++ [("error", .str e), ("stage", .str "graph")])
    | .ok gs =>
      match gs.mapM (optimizePaths r.labels) with
      | .ok os =>
        let bb := match answers with
          | some ans => frontBranches r.labels gs os ans swAnswers lp
          | none => []
        Json.mkObj (base ++ [("graphs", jList graphTo gs), ("opt", jList graphTo os)] ++ bb)
      | .error e => Json.mkObj (base ++ [("graphs", jList graphTo gs), ("opt", Json.mkObj [("error", .str e)])])

/-- per-input validation of the front phases with the proven checker (`validate_sound`): machine on the
input vs labelled machine on the resolver's output (per routine), and the routine in isolation vs its base graph -/
def checkFront (rs : List (List MOp)) : Json :=
  let wf := wfSet rs
  match resolve rs with
  | .error e => Json.mkObj [("wf", .bool wf), ("error", .str e), ("stage", .str "resolve")]
  | .ok r =>
    let m : Machine := ⟨flatten rs⟩
    let lm := r.machine
    let fuel := m.ops.size + lm.items.size + 8
    let budget := (m.ops.size + 4) * (lm.items.size + 4) + 64
    let t3 := (List.range rs.length).map fun k =>
      (BehD.verdictJson m.step lm.step fuel budget (m.entry k) (lm.entry k)).setObjVal! "r" (jNat k)
    let opt := !hasAnyCalls r
    let t4 := r.rtns.zipIdx.map fun (items, k) =>
      match baseGraph r.labels opt k items with
      | .error e => Json.mkObj [("r", jNat k), ("verdict", .str "graph-error"), ("error", .str e)]
      | .ok g =>
        let rm : RMachine := ⟨r.labels, k, items⟩
        let fuel := 2 * items.length + g.vs.length + 8
        let budget := (items.length + 4) * (g.vs.length + 4) + 64
        ((BehD.verdictJson rm.stepAll g.step fuel budget 0 0).setObjVal! "r" (jNat k)).setObjVal! "guard"
          (.bool (ctxGuard items && namesGuard items))
    Json.mkObj [("wf", .bool wf), ("resolver", .arr t3.toArray), ("graph", .arr t4.toArray)]

def itemOf (j : Json) : R Item := do
  match (← asStr (← fld j "k")) with
  | "op" => pure (.op (← BehD.mopOf j))
  | "label" => pure (.label (← asNat (← fld j "id")))
  | "ljump" => pure (.ljump (← BehD.mopOf j) (← asNat (← fld j "label")) (← asBool (← fld j "call")))
  | k => throw s!"bad item {k}"

def vopOf (j : Json) : R VOp := do
  match (← asStr (← fld j "k")) with
  | "foreign" => pure (.foreign (← asNat (← fld j "id")))
  | _ => pure (.item (← itemOf j))

def lblOf (j : Json) : R Lbl := do
  match (← asArr j) with
  | [o, i, r, f] => pure ⟨← asInt o, ← asNat i, ← asNat r, ← asBool f⟩
  | _ => throw "bad label"

def graphOf (j : Json) : R Graph := do
  let vs ← (← asArr (← fld j "vs")).mapM vopOf
  let es ← (← asArr (← fld j "es")).mapM fun e => do
    match (← asArr e) with
    | [s, d, l, lp] => pure (⟨← asNat s, ← asNat d, ← asNat l, ← asBool lp⟩ : Edge)
    | _ => throw "bad edge"
  pure ⟨vs, es⟩

/-- validation of the REAL front-phase output (labels, interleaved routines, base graphs dumped from the running
Python code) against the input with the proven checker -/
def validateFront (rs : List (List MOp)) (labels : List Lbl) (rtns : List (List Item)) (graphs : List Graph) : Json :=
  let m : Machine := ⟨flatten rs⟩
  let lm : LMachine := ⟨flattenItems rtns⟩
  let fuel := m.ops.size + lm.items.size + 8
  let budget := (m.ops.size + 4) * (lm.items.size + 4) + 64
  let t3 := (List.range rs.length).map fun k =>
    (BehD.verdictJson m.step lm.step fuel budget (m.entry k) (lm.entry k)).setObjVal! "r" (jNat k)
  let t4 := (rtns.zip graphs).zipIdx.map fun ((items, g), k) =>
    let rm : RMachine := ⟨labels, k, items⟩
    let fuel := 2 * items.length + g.vs.length + 8
    let budget := (items.length + 4) * (g.vs.length + 4) + 64
    ((BehD.verdictJson rm.stepAll g.step fuel budget 0 0).setObjVal! "r" (jNat k)).setObjVal! "guard"
      (.bool (ctxGuard items && namesGuard items))
  Json.mkObj [("wf", .bool (wfSet rs)), ("resolver", .arr t3.toArray), ("graph", .arr t4.toArray)]

/-- validation of the REAL graphs after `optimize_paths` against the REAL base graphs (edge-based reading), from the
routine's first vertex, plus agreement of the two readings on the base graph -/
def validateOpt (labels : List Lbl) (rtns : List (List Item)) (graphs opts : List Graph) : Json :=
  let res := ((rtns.zip graphs).zip opts).zipIdx.map fun (((items, g), o), k) =>
    let fuel := g.vs.length + o.vs.length + 8
    let budget := (g.vs.length + 4) * (o.vs.length + 4) + 64
    let del := optimizeGoDeleted labels g
    let start := renumber del 0
    let a := (BehD.verdictJson g.stepE o.stepE fuel budget 0 start).setObjVal! "r" (jNat k)
    let b := BehD.verdictJson g.step g.stepE fuel budget 0 0
    (((a.setObjVal! "guard" (.bool (ctxGuard items && namesGuard items))).setObjVal! "readings" (b.getObjValD "verdict")).setObjVal!
      "graph_ok" (.bool (graphOk g))).setObjVal! "no_silent_cycle" (.bool (noSilentCycle g))
  Json.mkObj [("opt", .arr res.toArray)]

def answerOf (j : Json) : R (Option (Nat × Nat)) := do
  match j with
  | .null => pure none
  | _ =>
    match (← asArr j) with
    | [a, b] => pure (some (← asNat a, ← asNat b))
    | _ => throw "bad answer"

def answersOf (j : Json) : R (List (List (Option (Nat × Nat)))) := do
  (← asArr j).mapM fun g => do (← asArr g).mapM answerOf

def swAnswerOf (j : Json) : R (Option (List Nat)) := do
  match j with
  | .null => pure none
  | _ => some <$> (← asArr j).mapM asNat

def swAnswersOf (j : Json) : R (List (List (Option (List Nat)))) := do
  (← asArr j).mapM fun g => do (← asArr g).mapM swAnswerOf

def loopRecOf (j : Json) : R LoopRec := do
  match (← asArr j) with
  | [v, bs, cs] => pure ⟨← asNat v, ← (← asArr bs).mapM asNat, ← (← asArr cs).mapM asNat⟩
  | _ => throw "bad loop record"

def lpOracleOf (j : Json) : R (Option LpOracle) := do
  match j.getObjVal? "ft_marked" with
  | .error _ => pure none
  | .ok m =>
    let ftMarked ← (← asArr m).mapM fun g => do (← asArr g).mapM asNat
    let ftRaised ← match j.getObjVal? "ft_raised" with
      | .ok a => asOpt asStr a
      | .error _ => pure none
    let records ← match j.getObjVal? "lp_records" with
      | .ok a => do (← asArr a).mapM fun g => do (← asArr g).mapM loopRecOf
      | .error _ => pure []
    let raised ← match j.getObjVal? "lp_raised" with
      | .ok (.arr #[k, c]) => do pure (some (← asNat k, ← asStr c))
      | _ => pure none
    pure (some ⟨ftMarked, ftRaised, records, raised⟩)

/-- also reads the graphs of `sgraphTo` / `lgraphTo` (optional keys "sws" / "swe", "ft" / "fs" / "fe" / "fb" / "fc" / "fw" / "syn", optional
sixth entry of an edge) -/
def bgraphOf (j : Json) : R BGraph := do
  let vs ← (← asArr (← fld j "vs")).mapM fun v => do
    let mops ← match v.getObjVal? "mops" with
      | .ok a => (← asArr a).mapM BehD.mopOf
      | .error _ => pure []
    let isNot ← match v.getObjVal? "not" with
      | .ok a => asBool a
      | .error _ => pure false
    let sws ← match v.getObjVal? "sws" with
      | .ok a => asOpt asNat a
      | .error _ => pure none
    let swe ← match v.getObjVal? "swe" with
      | .ok a => do (← asArr a).mapM asNat
      | .error _ => pure []
    let optB (k : String) : R Bool := match v.getObjVal? k with
      | .ok a => asBool a
      | .error _ => pure false
    let optN (k : String) : R (Option Nat) := match v.getObjVal? k with
      | .ok a => asOpt asNat a
      | .error _ => pure none
    let fe ← match v.getObjVal? "fe" with
      | .ok a => do (← asArr a).mapM asNat
      | .error _ => pure []
    pure (⟨← asOpt asNat (← fld v "n"), ← vopOf v, ← asOpt asNat (← fld v "ifs"), ← (← asArr (← fld v "ife")).mapM asNat, mops, isNot, sws, swe,
      ← optB "fw", ← optB "ft", ← optN "fs", fe, ← optN "fb", ← optN "fc", ← optB "syn"⟩ : BVertex)
  let es ← (← asArr (← fld j "es")).mapM fun e => do
    match (← asArr e) with
    | [s, d, l, lp, el] => pure (⟨← asNat s, ← asNat d, ← asNat l, ← asBool lp, ← asBool el, []⟩ : BEdge)
    | [s, d, l, lp, el, so] =>
      let ops ← (← asArr so).mapM fun t => do
        match (← asArr t) with
        | [si, ix, o] => pure ((← asNat si, ← asNat ix, ← BehD.mopOf o) : SwOp)
        | _ => throw "bad switch op"
      pure (⟨← asNat s, ← asNat d, ← asNat l, ← asBool lp, ← asBool el, ops⟩ : BEdge)
    | _ => throw "bad edge"
  pure ⟨vs, es⟩

/-- validation of the REAL graphs after `build_branches` (markers, names and else flags forgotten) against the REAL
graphs after `optimize_paths` (edge-based reading), from the routine's first vertex - found again after the deletion
by its "name" attribute -, with the proven checker; plus the hypotheses of `buildBranches_preserves` evaluated on
the real graph and the recorded real answers -/
def validateBranches (opts : List Graph) (names : List (List (Option Nat))) (answers : List (List (Option (Nat × Nat))))
    (bbs : List BGraph) : Json :=
  let res := ((opts.zip bbs).zipIdx).map fun ((o, b), k) =>
    let ns := names.getD k []
    let ans := answers.getD k []
    let b' := b.toGraph
    let fuel := o.vs.length + b'.vs.length + 8
    let budget := (o.vs.length + 4) * (b'.vs.length + 4) + 64
    let n0 := (ns[0]?).join
    let start := b.vs.findIdx? fun v => n0.isSome && v.name == n0
    let bg := BGraph.ofGraph ns o
    let base := match start with
      | some st => BehD.verdictJson o.stepE b'.stepE fuel budget 0 st
      | none => if o.vs.isEmpty && b.vs.isEmpty then Json.mkObj [("verdict", .str "equiv")]
                else Json.mkObj [("verdict", .str "start-deleted")]
    ((((base.setObjVal! "r" (jNat k)).setObjVal! "no_silent_cycle" (.bool (noSilentCycle o))).setObjVal!
      "struct_ok" (.bool (branchesStructOk bg))).setObjVal! "answers_ok" (.bool (answersOk ans bg))).setObjVal!
      "changed" (.bool (decide (b'.vs ≠ o.vs) || decide (b'.es ≠ o.es)))
  Json.mkObj [("bb", .arr res.toArray)]

/-- number of encoded states of `stepB` that can occur (for the search budget) -/
def bStates (g : BGraph) : Nat := (g.vs.length + 2) * (1 + (g.vs.map fun v => v.ifOps.length).foldl max 0)

def verdictB (f₁ f₂ : NStep) (n₁ n₂ a b : Nat) : Json :=
  BehD.verdictJson f₁ f₂ (n₁ + n₂ + 8) ((n₁ + 4) * (n₂ + 4) + 64) a b

/-- where the vertex named like vertex 0 of `g` is in `g'` (after a `delete_vertices`) -/
def startIn (g g' : BGraph) : Option Nat :=
  match g.vs[0]? with
  | none => if g'.vs.isEmpty then some 0 else none
  | some v0 => g'.vs.findIdx? fun v => v0.name.isSome && v.name == v0.name

/-- per-input validation of the REAL graphs of `group_branches` / `invert_branches` with the proven checker, under the
flag-based reading `stepB`; plus the bridge (level-based `stepE` vs `stepB`) on the real graph after `build_branches`,
and the hypotheses of the theorems of lean/ESV/Props/DecompGroup.lean evaluated on the real graphs -/
def validateGroup (bbs : List BGraph) (gbs ibs : Option (List BGraph)) : Json :=
  let res := bbs.zipIdx.map fun (b, k) =>
    let bridge := (verdictB b.toGraph.stepE b.stepB (b.vs.length + 2) (bStates b) 0 0).setObjVal! "bridge_ok" (.bool (bridgeOk b))
    let base := [("r", jNat k), ("bridge", bridge)]
    let grp := match gbs.bind (·[k]?) with
      | none => []
      | some gb =>
        let v := match startIn b gb with
          | some st => verdictB b.stepB gb.stepB (bStates b) (bStates gb) 0 st
          | none => Json.mkObj [("verdict", .str "start-deleted")]
        let v := (((v.setObjVal! "struct_ok" (.bool (groupStructOk b))).setObjVal! "del_ok" (.bool (groupDelOk b))).setObjVal!
          "flags_unique" (.bool (flagsUnique b))).setObjVal! "changed" (.bool (decide (gb.vs ≠ b.vs) || decide (gb.es ≠ b.es)))
        let inv := match ibs.bind (·[k]?) with
          | none => []
          | some ib =>
            [("invert", ((verdictB gb.stepB ib.stepB (bStates gb) (bStates ib) 0 0).setObjVal! "struct_ok" (.bool (invertStructOk gb))).setObjVal!
              "changed" (.bool (decide (ib.vs ≠ gb.vs) || decide (ib.es ≠ gb.es))))]
        ("group", v) :: inv
    Json.mkObj (base ++ grp)
  Json.mkObj [("routines", .arr res.toArray)]

def handle (op : String) (j : Json) : R Json := do
  match op with
  | "decomp.validate_opt" =>
    let labels ← (← asArr (← fld j "labels")).mapM lblOf
    let rtns ← (← asArr (← fld j "rtns")).mapM fun r => do (← asArr r).mapM itemOf
    let graphs ← (← asArr (← fld j "graphs")).mapM graphOf
    let opts ← (← asArr (← fld j "opt")).mapM graphOf
    pure (validateOpt labels rtns graphs opts)
  | "decomp.validate_branches" =>
    let opts ← (← asArr (← fld j "opt")).mapM graphOf
    let names ← (← asArr (← fld j "opt_names")).mapM fun g => do (← asArr g).mapM (asOpt asNat)
    let answers ← answersOf (← fld j "answers")
    let bbs ← (← asArr (← fld j "bb")).mapM bgraphOf
    pure (validateBranches opts names answers bbs)
  | "decomp.branches" =>
    let g ← bgraphOf (← fld j "g")
    let answers ← (← asArr (← fld j "answers")).mapM answerOf
    pure (match buildBranches answers g with
      | .ok g' => ((bgraphTo g').setObjVal! "struct_ok" (.bool (branchesStructOk g))).setObjVal! "answers_ok" (.bool (answersOk answers g))
        |>.setObjVal! "verdict" ((BehD.verdictJson g.toGraph.stepE g'.toGraph.stepE (g.vs.length + g'.vs.length + 8)
            ((g.vs.length + 4) * (g'.vs.length + 4) + 64) 0 0).getObjValD "verdict")
        |>.setObjVal! "no_silent_cycle" (.bool (noSilentCycle g.toGraph))
      | .error e => Json.mkObj [("error", .str e)])
  | "decomp.validate_group" =>
    let bbs ← (← asArr (← fld j "bb")).mapM bgraphOf
    let opt (k : String) : R (Option (List BGraph)) := match j.getObjVal? k with
      | .ok (.arr a) => some <$> a.toList.mapM bgraphOf
      | _ => pure none
    pure (validateGroup bbs (← opt "gb") (← opt "ib"))
  | "decomp.group" =>
    -- graph-level tie: one pass of the model on a hand-built graph, the hypotheses and the checker's verdict
    let g ← bgraphOf (← fld j "g")
    let pass ← asStr (← fld j "pass")
    let (res, hyp) := if pass == "group" then (groupBranches g, groupStructOk g && groupDelOk g)
      else (invertBranches g, invertStructOk g)
    pure (match res with
      | .ok g' => (((bgraphTo g').setObjVal! "hyp" (.bool hyp)).setObjVal! "verdict"
          ((verdictB g.stepB g'.stepB (bStates g) (bStates g') 0 0).getObjValD "verdict")).setObjVal! "bridge_ok" (.bool (bridgeOk g))
          |>.setObjVal! "bridge" ((verdictB g.toGraph.stepE g.stepB (g.vs.length + 2) (bStates g) 0 0).getObjValD "verdict")
      | .error e => Json.mkObj [("error", .str e)])
  | "decomp.validate" =>
    let rs ← (← asArr (← fld j "rs")).mapM fun r => do (← asArr r).mapM BehD.mopOf
    let labels ← (← asArr (← fld j "labels")).mapM lblOf
    let rtns ← (← asArr (← fld j "rtns")).mapM fun r => do (← asArr r).mapM itemOf
    let graphs ← (← asArr (← fld j "graphs")).mapM graphOf
    pure (validateFront rs labels rtns graphs)
  | "decomp.check" =>
    let rs ← (← asArr (← fld j "rs")).mapM fun r => do (← asArr r).mapM BehD.mopOf
    pure (checkFront rs)
  | "decomp.front" =>
    let rs ← (← asArr (← fld j "rs")).mapM fun r => do (← asArr r).mapM BehD.mopOf
    let answers ← match j.getObjVal? "answers" with
      | .ok a => some <$> answersOf a
      | .error _ => pure none
    let swAnswers ← match j.getObjVal? "sw_answers" with
      | .ok a => swAnswersOf a
      | .error _ => pure []
    pure (front rs answers swAnswers (← lpOracleOf j))
  | _ => throw s!"unknown op {op}"

end Drv.DecompD
