import Driver.Util
import Driver.SM
import Driver.Beh
import Driver.Pyg
import Driver.Lit
import Driver.Ssbs
import Driver.Writer
import Driver.Static
import Driver.Cli
import Driver.SmBuilder
import Driver.Cache
import Driver.Comp
import Driver.Lex
import Driver.Macro
import Driver.Decomp
import Driver.SsbsText
import Driver.DecompSw
import Driver.DecompLp
import Driver.DecompWr
open Lean Drv

/-- dispatch on the prefix of "op" -/
def dispatch (j : Json) : R Json := do
  let op ← asStr (← fld j "op")
  let pre := (op.splitOn ".").head!
  match pre with
  | "sm" | "dec" => SMD.handle op j
  | "beh" => BehD.handle op j
  | "pyg" => PygD.handle op j
  | "lit" => LitD.handle op j
  | "ssbs" => SsbsD.handle op j
  | "writer" => WriterD.handle op j
  | "static" => StaticD.handle op j
  | "cli" => CliD.handle op j
  | "smb" => SmbD.handle op j
  | "cache" => CacheD.handle op j
  | "comp" => CompD.handle op j
  | "lex" => LexD.handle op j
  | "macro" => MacroD.handle op j
  | "decomp" => DecompD.handle op j
  | "ssbstext" => SsbsTextD.handle op j
  | "decompsw" => DecompSwD.handle op j
  | "decomplp" => DecompLpD.handle op j
  | "decompwr" => DecompWrD.handle op j
  | _ => throw s!"unknown op {op}"

partial def loop (h : IO.FS.Stream) (out : IO.FS.Stream) : IO Unit := do
  let line ← h.getLine
  if line.isEmpty then return ()
  let reply :=
    match Json.parse line with
    | .ok j => match dispatch j with
      | .ok r => r
      | .error e => Json.mkObj [("error", .str e)]
    | .error e => Json.mkObj [("error", .str s!"parse: {e}")]
  out.putStrLn reply.compress
  loop h out

def main : IO Unit := do
  let out ← IO.getStdout
  loop (← IO.getStdin) out
  out.flush
