import Driver.Util
import ESV.Cache.Model
import ESV.Cache.Threads
import ESV.Cache.Objects
import ESV.Cache.Shared
open Lean Drv ESV ESV.Cache

/-
Driver ops for the memo-table machine (C11, C12):
  cache.replay     {history:[OP], rc:[[c,k,a,r]], cuts:[i]}  → outs per op, ideal values, discipline verdicts (whole history and
                   per segment between cuts, with the tidiness of the prefix before each segment)
  cache.replay_mt  {progs:[[tid,[OP]]], sched:[tid], rc:…, memo:[[g,k,r]]}    → events of the schedule, per-thread Disciplined, all-safe
  cache.indent     {params:[PARAM], sel:[[idx,indent]]}      → params after printing, meaning kept?, __eq__?
  cache.compiler   {}                                         → attribute classification of the compiler-object model
OP = ["alloc",g,c] | ["mutate",g,c] | ["clear",g] | ["query",g,k,a] | ["lookup",g,k,a] | ["store",g,k,a] | ["drop",g]   (g, c: Nat; k, a, r: String)
-/
namespace Drv.CacheD

abbrev HOp := MOp String String Nat

def opOf (j : Json) : R HOp := do
  match (← asArr j) with
  | [t, g, c] =>
    match (← asStr t) with
    | "alloc" => pure (.alloc (← asNat g) (← asNat c))
    | "mutate" => pure (.mutate (← asNat g) (← asNat c))
    | _ => throw "bad op"
  | [t, g] =>
    match (← asStr t) with
    | "clear" => pure (.clear (← asNat g))
    | "drop" => pure (.drop (← asNat g))
    | _ => throw "bad op"
  | [t, g, k, a] =>
    match (← asStr t) with
    | "query" => pure (.query (← asNat g) (← asStr k) (← asStr a))
    | "lookup" => pure (.lookup (← asNat g) (← asStr k) (← asStr a))
    | "store" => pure (.store (← asNat g) (← asStr k) (← asStr a))
    | _ => throw "bad op"
  | _ => throw "bad op"

def rcOf (j : Json) : R (Nat → String → String → String) := do
  let rows ← (← asArr j).mapM fun row => do
    match (← asArr row) with
    | [c, k, a, r] => pure ((← asNat c), (← asStr k), (← asStr a), (← asStr r))
    | _ => throw "bad rc row"
  pure fun c k a =>
    match rows.find? (fun row => row.1 == c && row.2.1 == k && row.2.2.1 == a) with
    | some row => row.2.2.2
    | none => "?"

def outTo : Out String → Json
  | .ok => .arr #["ok"]
  | .val r hit => .arr #["val", .str r, .bool hit]
  | .miss => .arr #["miss"]
  | .illFormed => .arr #["ill"]
  | .keyError => .arr #["keyerr"]

/-- split at the cut indices -/
def segments (h : List HOp) (cuts : List Nat) : List (List HOp) :=
  let rec go (h : List HOp) (pos : Nat) (cuts : List Nat) (acc : List (List HOp)) : List (List HOp) :=
    match cuts with
    | [] => (h :: acc).reverse
    | c :: cs => go (h.drop (c - pos)) c cs (h.take (c - pos) :: acc)
  go h 0 cuts []

def memoOf (j : Json) : R (Memo String String) := do
  let rows ← (← asArr j).mapM fun row => do
    match (← asArr row) with
    | [g, k, r] => pure ((← asNat g), (← asStr k), (← asStr r))
    | _ => throw "bad memo row"
  pure (rows.foldl (fun (m : Memo String String) row =>
    match (m.lookup row.1 row.2.1).1.store row.1 row.2.1 row.2.2 with
    | some m2 => m2
    | none => m) (fun _ => none))

def evTo : Ev String String Nat String → Json
  | .ok t => .arr #["ok", jNat t]
  | .val t g k a r c hit => .arr #["val", jNat t, jNat g, .str k, .str a, .str r, jNat c, .bool hit]
  | .missed t => .arr #["missed", jNat t]
  | .computedEv t => .arr #["computed", jNat t]
  | .illFormed t => .arr #["ill", jNat t]
  | .keyError t g k => .arr #["keyerr", jNat t, jNat g, .str k]
  | .done t => .arr #["done", jNat t]

def evSafe (rc : Nat → String → String → String) : Ev String String Nat String → Bool
  | .val _ _ k a r c _ => r == rc c k a
  | .keyError .. => false
  | _ => true

def pyParamOf (j : Json) : R PyParam := do
  match j with
  | .num _ => pure (.int (← asInt j))
  | _ =>
    let ind ← match j.getObjVal? "indent" with
      | .ok v => asInt v
      | .error _ => pure 0
    match j.getObjVal? "fx" with
    | .ok v => pure (.fixed (← asStr v))
    | .error _ =>
    match j.getObjVal? "c" with
    | .ok v => pure (.const (← asStr v))
    | .error _ =>
    match j.getObjVal? "s" with
    | .ok v => pure (.constString (← asStr v) ind)
    | .error _ =>
    match j.getObjVal? "ls" with
    | .ok v => do
      let l ← (← asArr v).mapM fun kv => do
        match (← asArr kv) with
        | [a, b] => pure ((← asStr a), (← asStr b))
        | _ => throw "bad ls pair"
      pure (.langString l ind)
    | .error _ =>
    match j.getObjVal? "pm" with
    | .ok v => do
      match (← asArr v) with
      | [n, a, b, c, d] => pure (.posMark (← asStr n) (← asInt a) (← asInt b) (← asInt c) (← asInt d))
      | _ => throw "bad pm"
    | .error _ => throw "bad param"

def pyParamTo : PyParam → Json
  | .int i => jInt i
  | .fixed s => Json.mkObj [("fx", .str s)]
  | .const s => Json.mkObj [("c", .str s)]
  | .constString s i => Json.mkObj [("s", .str s), ("indent", jInt i)]
  | .langString l i => Json.mkObj [("ls", jList (fun (p : String × String) => Json.arr #[.str p.1, .str p.2]) l), ("indent", jInt i)]
  | .posMark n a b c d => Json.mkObj [("pm", .arr #[.str n, jInt a, jInt b, jInt c, jInt d])]

def handle (op : String) (j : Json) : R Json := do
  match op with
  | "cache.replay" =>
    let h ← (← asArr (← fld j "history")).mapM opOf
    let rc ← rcOf (← fld j "rc")
    let cuts ← match j.getObjVal? "cuts" with
      | .ok v => (← asArr v).mapM asNat
      | .error _ => pure []
    -- outputs of the machine, each with the answer of the memo-less machine at that point (`expected` on the state before)
    let rec go (s : St String Nat String) (h : List HOp) (acc : List (Out String × Option String)) : List (Out String × Option String) :=
      match h with
      | [] => acc.reverse
      | op :: rest =>
        let r := step rc s op
        go r.1 rest ((r.2, expected rc s.live op) :: acc)
    let both := go (fresh : St String Nat String) h []
    let outs := both.map (·.1)
    let idl := both.map (·.2)
    let segs := segments h cuts
    -- per segment: verdicts of the segment, and the ids left dirty by everything before it
    let (segJs, _) := segs.foldl (fun (acc : List Json × List Gid) seg =>
      let j := Json.mkObj [
        ("len", jNat seg.length),
        ("disciplined", .bool (disciplinedFrom (fun _ => none) seg)),
        ("isolated", .bool (isolatedFrom (fun _ => false) (fun _ => false) seg)),
        ("guarded", .bool (isolatedFrom (fun _ => true) (fun _ => false) seg)),
        ("alloc_cleared", .bool (allocClearedFrom (fun _ => false) seg)),
        ("tidy", .bool (dirtyAfter [] seg == [])),
        ("dirty_before", jList jNat acc.2.eraseDups)]
      (j :: acc.1, dirtyAfter acc.2 seg)) ([], [])
    pure (Json.mkObj [
      ("outs", jList outTo outs),
      ("ideal", jList (jOpt jStr) idl),
      ("disciplined", .bool (disciplinedFrom (fun _ => none) h)),
      ("isolated", .bool (isolatedFrom (fun _ => false) (fun _ => false) h)),
      ("alloc_cleared", .bool (allocClearedFrom (fun _ => false) h)),
      ("dirty", jList jNat (dirtyAfter [] h).eraseDups),
      ("segments", .arr segJs.reverse.toArray)])
  | "cache.replay_mt" =>
    let progsL ← (← asArr (← fld j "progs")).mapM fun p => do
      match (← asArr p) with
      | [t, ops] => pure ((← asNat t), (← (← asArr ops).mapM opOf))
      | _ => throw "bad prog"
    let progs : Tid → List HOp := fun t => match progsL.find? (·.1 == t) with | some p => p.2 | none => []
    let sched ← (← asArr (← fld j "sched")).mapM asNat
    let rc ← rcOf (← fld j "rc")
    let m ← match j.getObjVal? "memo" with
      | .ok v => memoOf v
      | .error _ => pure (fun _ => none)
    let s0 : MSt String String Nat String := startT progs m
    let evs := runT rc s0 sched
    let fin := finalT rc s0 sched
    pure (Json.mkObj [
      ("events", jList evTo evs),
      ("safe", .bool (evs.all (evSafe rc))),
      ("disciplined", jList (fun (p : Tid × List HOp) => Json.arr #[jNat p.1, .bool (disciplinedFrom (fun _ => none) p.2)]) progsL),
      ("finished", jList (fun (p : Tid × List HOp) => Json.arr #[jNat p.1,
          .bool (match (fin.th p.1).phase with | .idle => (fin.th p.1).prog.isEmpty | _ => false)]) progsL)])
  | "cache.indent" =>
    let ps ← (← asArr (← fld j "params")).mapM pyParamOf
    let selL ← (← asArr (← fld j "sel")).mapM fun p => do
      match (← asArr p) with
      | [i, v] => pure ((← asNat i), (← asInt v))
      | _ => throw "bad sel"
    let sel : Nat → Option Int := fun n => (selL.find? (·.1 == n)).map (·.2)
    let o : PyOp := ⟨0, "op", ps⟩
    let o' := o.print sel
    pure (Json.mkObj [
      ("params", jList pyParamTo o'.params),
      ("same_meaning", .bool (decide (o'.meaning = o.meaning))),
      ("py_eq", .bool (o'.pyEq o))])
  | "cache.shared" =>
    pure (Json.mkObj [("shared", jList (fun (p : String × String) => Json.arr #[.str p.1, .str p.2]) modelledShared)])
  | "cache.compiler" =>
    pure (Json.mkObj [
      ("reset", jList jStr Comp.resetAttrs), ("late", jList jStr Comp.lateAttrs), ("ctor", jList jStr Comp.ctorAttrs)])
  | _ => throw s!"unknown op {op}"

end Drv.CacheD
