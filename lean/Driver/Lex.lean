import Driver.Util
import ESV.Lex.Model
import ESV.PosMark.Model
open Lean Drv ESV ESV.Lex

namespace Drv.LexD

def tokTo (t : Token) : Json := Json.arr #[jNat t.ty, jChars t.text]

/-- start offsets (in characters) of a gap-free token sequence -/
def withOffsets : List Token → Nat → List (Token × Nat)
  | [], _ => []
  | t :: r, n => (t, n) :: withOffsets r (n + t.text.length)

def tokOffTo (p : Token × Nat) : Json := Json.arr #[jNat p.1.ty, jChars p.1.text, jNat p.2]

/-- the non-skip tokens with their start offsets (computed from the complete token sequence) -/
def lexWithOffsets (s : List Char) : List (Token × Nat) := (withOffsets (lexAll s) 0).filter (fun p => p.1.ty ≠ T_SKIP)

def clsName : Option Cls → Json
  | none => .null
  | some .sym => "sym"
  | some .word => "word"
  | some .sigil => "sigil"
  | some .int => "int"
  | some .dec => "dec"
  | some .str1 => "str1"
  | some .str3 => "str3"

def strs (j : Json) : R (List String) := do (← asArr j).mapM asStr

def pairOf (j : Json) : R (String × String) := do
  match (← asArr j) with
  | [a, b] => pure ((← asStr a), (← asStr b))
  | _ => throw "expected pair"

def natPair (j : Json) : R (Nat × Nat) := do
  match (← asArr j) with
  | [a, b] => pure ((← asNat a), (← asNat b))
  | _ => throw "expected [line, col]"

def handle (op : String) (j : Json) : R Json := do
  match op with
  | "lex.tokens" =>
    -- {"texts": [...], "all": bool} → {"results": [[[type, text], …], …]}
    let all ← match j.getObjVal? "all" with
      | .ok v => asBool v
      | .error _ => pure false
    let ts ← strs (← fld j "texts")
    let offs ← match j.getObjVal? "offsets" with
      | .ok v => asBool v
      | .error _ => pure false
    if offs then
      pure (Json.mkObj [("results", jList (fun (s : String) => jList tokOffTo (lexWithOffsets s.toList)) ts)])
    else
      pure (Json.mkObj [("results", jList (fun (s : String) => jList tokTo ((if all then lexAll else lex) s.toList)) ts)])
  | "lex.vocab" =>
    pure (Json.mkObj [("skip", jNat T_SKIP), ("unknown", jNat T_UNKNOWN), ("string", jNat T_STRING), ("multi", jNat T_MULTI),
      ("for_target", jNat T_FOR_TARGET), ("ident", jNat T_IDENT), ("var", jNat T_VAR), ("macro", jNat T_MACRO),
      ("int", jNat T_INT), ("dec", jNat T_DEC), ("for_target_lits", jList jChars forTargetLits)])
  | "lex.classify" =>
    let ts ← strs (← fld j "texts")
    pure (Json.mkObj [("results", jList (fun (s : String) => clsName (classify s.toList)) ts)])
  | "lex.boundary" =>
    -- {"pairs": [[a, b], …]} → needsSep a (head b), safeBoundary a b
    let ps ← (← asArr (← fld j "pairs")).mapM pairOf
    pure (Json.mkObj [("results", jList (fun (p : String × String) =>
      Json.arr #[.bool (match p.2.toList with | [] => false | y :: _ => needsSep p.1.toList y), .bool (safeBoundary p.1.toList p.2.toList)]) ps)])
  | "lex.replace_span" =>
    -- {"cases": [{"text", "start": [l, c], "end": [l, c], "new"}]} → {"results": [text | null]}
    let cs ← (← asArr (← fld j "cases")).mapM fun c => do
      pure ((← asStr (← fld c "text")), (← natPair (← fld c "start")), (← natPair (← fld c "end")), (← asStr (← fld c "new")))
    pure (Json.mkObj [("results", jList (fun (c : String × (Nat × Nat) × (Nat × Nat) × String) =>
      jOpt jChars (ESV.PosMark.replaceSpan c.1.toList c.2.1 c.2.2.1 c.2.2.2.toList)) cs)])
  | "lex.positions" =>
    -- {"cases": [[text, [offset, …]], …]} → per text the ANTLR (line, column) of the character at each offset (0-based line):
    -- `posOf (text.take offset)`
    let cs ← (← asArr (← fld j "cases")).mapM fun c => do
      match (← asArr c) with
      | [t, ns] => pure ((← asStr t), (← (← asArr ns).mapM asNat))
      | _ => throw "bad case"
    pure (Json.mkObj [("results", jList (fun (c : String × List Nat) =>
      let cs := c.1.toList
      jList (fun (n : Nat) => let p := ESV.PosMark.posOf (cs.take n); Json.arr #[jNat p.1, jNat p.2]) c.2) cs)])
  | _ => throw s!"unknown op {op}"

end Drv.LexD
