import Driver.DecompSw
import ESV.Decomp.SemL
import ESV.Decomp.LpGuard
open Lean Drv ESV ESV.Beh ESV.Decomp

/-! `build_switch_fallthroughs` / `build_loops` / `remove_label_markers`: graph-level tie (`decomplp.pass`: one pass of the model
on a hand-built graph) and per-input validation of the REAL graphs with the proven checker under `stepS` / `stepL`
(`decomplp.validate`). -/
namespace Drv.DecompLpD
open Drv.DecompD Drv.DecompSwD

def recordsOf (j : Json) (k : String) : R (List LoopRec) :=
  match j.getObjVal? k with
  | .ok a => do (← asArr a).mapM loopRecOf
  | .error _ => pure []

def natsOf (j : Json) (k : String) : R (List Nat) :=
  match j.getObjVal? k with
  | .ok a => do (← asArr a).mapM asNat
  | .error _ => pure []

def labelsOf (j : Json) : R (List Lbl) :=
  match j.getObjVal? "labels" with
  | .ok a => do (← asArr a).mapM lblOf
  | .error _ => pure []

/-- the clauses of `removeOk`, one by one (for the counters of the harness) -/
def removeFacts (labels : List Lbl) (g : BGraph) : List (String × Json) :=
  let base := [("remove_ok", Json.bool (removeOk labels g)), ("det_ok", .bool (detOk g))]
  match removeJumpsRaw g with
  | .error _ => base
  | .ok (g1, del1, bs1) =>
    let b1 := base ++ [("raise_ok", .bool (raiseOk g bs1)), ("jumps_ok", .bool (bypOk g1 del1 bs1)), ("jumps_bypassed", jNat bs1.length),
      ("jumps_deleted", jNat del1.length)]
    match removeLabelsRaw labels (g1.deleteVs del1) with
    | .error _ => b1
    | .ok (g2, del2, bs2) =>
      b1 ++ [("det1_ok", .bool (detOk (g1.deleteVs del1))), ("labels_ok", .bool (bypOk g2 del2 bs2)), ("labels_bypassed", jNat bs2.length),
        ("labels_deleted", jNat del2.length)]

def addFacts (j : Json) (fs : List (String × Json)) : Json := fs.foldl (fun acc (k, v) => acc.setObjVal! k v) j

def changed (a b : BGraph) : Json := .bool (decide (a.vs ≠ b.vs) || decide (a.es ≠ b.es))

/-- REAL graph after each of the three passes vs REAL graph before it, and the hypotheses of the theorems of
lean/ESV/Props/DecompLoops.lean evaluated on the real graphs and the recorded real oracle answers -/
def validate (labels : List Lbl) (gss : List BGraph) (fls bls rls : Option (List BGraph)) (records : List (List LoopRec)) : Json :=
  let res := gss.zipIdx.map fun (gs, k) =>
    let base := [("r", jNat k)]
    let rest := match fls.bind (·[k]?) with
      | none => []
      | some fl =>
        let vf := (verdictS gs.stepS fl.stepS gs.sStates fl.sStates 0 0).setObjVal! "changed" (changed gs fl)
        let lp := match bls.bind (·[k]?) with
          | none => []
          | some bl =>
            let recs := records.getD k []
            let vl := addFacts (verdictS fl.stepS bl.stepL fl.sStates bl.sStates 0 0)
              [("records_ok", .bool (loopRecordsOk recs fl)), ("no_syn", .bool (fl.vs.all fun x => !x.synthetic)), ("changed", changed fl bl),
               ("records", jNat recs.length)]
            let rm := match rls.bind (·[k]?) with
              | none => []
              | some rl =>
                let v := match startIn bl rl with
                  | some st => verdictS bl.stepL rl.stepL bl.sStates rl.sStates 0 st
                  | none => Json.mkObj [("verdict", .str "start-deleted")]
                [("remove", addFacts v (removeFacts labels bl ++ [("changed", changed bl rl)]))]
            ("loops", vl) :: rm
        ("fall", vf) :: lp
    Json.mkObj (base ++ rest)
  Json.mkObj [("routines", .arr res.toArray)]

def handle (op : String) (j : Json) : R Json := do
  match op with
  | "decomplp.validate" =>
    let gss ← (← asArr (← fld j "gs")).mapM bgraphOf
    let opt (k : String) : R (Option (List BGraph)) := match j.getObjVal? k with
      | .ok (.arr a) => some <$> a.toList.mapM bgraphOf
      | _ => pure none
    let records ← match j.getObjVal? "lp_records" with
      | .ok a => do (← asArr a).mapM fun g => do (← asArr g).mapM loopRecOf
      | .error _ => pure []
    pure (validate (← labelsOf j) gss (← opt "fl") (← opt "bl") (← opt "rl") records)
  | "decomplp.pass" =>
    -- graph-level tie: one pass of the model on a hand-built graph, the hypotheses and the checker's verdict
    let g ← bgraphOf (← fld j "g")
    let pass ← asStr (← fld j "pass")
    let labels ← labelsOf j
    let records ← recordsOf j "lp_records"
    let marked ← natsOf j "ft_marked"
    let raised ← match j.getObjVal? "raised" with
      | .ok a => asOpt asStr a
      | .error _ => pure none
    let (res, hyp) : Except String BGraph × Bool := match pass with
      | "fall" => (match raised with
          | some cls => Except.error cls
          | none => buildSwitchFallthroughs marked g, true)
      | "loops" => (buildLoops records g raised, loopRecordsOk records g)
      | _ => (removeLabelMarkers labels g, removeOk labels g)
    pure (match res with
      | .ok g' =>
        -- vertex 0 stays vertex 0 unless `remove_label_markers` deletes it
        let st : Option Nat := if pass == "remove" then
            (match removeJumpsRaw g with
             | .ok (g1, d1, _) =>
               if d1.contains 0 then none else
               (match removeLabelsRaw labels (g1.deleteVs d1) with
                | .ok (_, d2, _) => if d2.contains 0 then none else some 0
                | .error _ => none)
             | .error _ => none)
          else some 0
        let v := match st with
          | some s => (verdictS g.stepL g'.stepL g.sStates g'.sStates 0 s).getObjValD "verdict"
          | none => .str "start-deleted"
        let out := ((lgraphTo g').setObjVal! "hyp" (.bool hyp)).setObjVal! "verdict" v
        if pass == "remove" then addFacts out (removeFacts labels g) else out
      | .error e => Json.mkObj [("error", .str e)])
  | _ => throw s!"unknown op {op}"

end Drv.DecompLpD
