import Driver.Util
import ESV.Writer.Model
open Lean Drv ESV.Writer

namespace Drv.WriterD

def cmdOf (j : Json) : R Cmd := do
  match (← asArr j) with
  | [t, a] =>
    match (← asStr t) with
    | "indent" => pure (.setIndent (← asNat a))
    | "opcode" => pure (.opcode (← asInt a))
    | "opcode_inline" => pure (.opcodeInline (← asInt a))
    | x => throw s!"bad cmd {x}"
  | [t, a, b] =>
    match (← asStr t) with
    | "stmnt" => pure (.stmnt (← asStr a).toList (← asBool b))
    | x => throw s!"bad cmd {x}"
  | [t] =>
    match (← asStr t) with
    | "line" => pure .line
    | x => throw s!"bad cmd {x}"
  | _ => throw "bad cmd"

def handle (op : String) (j : Json) : R Json := do
  match op with
  | "writer.replay" =>
    let cs ← (← asArr (← fld j "cmds")).mapM cmdOf
    let w := runCmds cs
    pure (Json.mkObj [("text", jChars w.out), ("line", jNat w.line),
      ("map", jList (fun (e : Int × Nat × Nat) => Json.arr #[jInt e.1, jNat e.2.1, jNat e.2.2]) w.map)])
  | _ => throw s!"unknown op {op}"

end Drv.WriterD
