/-
The opcode facts that the property statements themselves fix (C01/C02: which ops jump, test, stop; which
open a context), pinned here by hand so that the specification side (machine, source semantics) does not
move when the repository's tables are edited.  ESV/Props/Tables.lean proves that the tables regenerated from
/repo on every run are equal to these; a repository edit of a table breaks that lemma (the tie), while the
validators keep judging the implementation's output against the pinned specification.
-/
namespace ESV.Spec

def opsBranch : List (String × Nat) := [("Branch", 2), ("BranchBit", 2), ("BranchDebug", 1), ("BranchEdit", 1), ("BranchExecuteSub", 1), ("BranchPerformance", 2), ("BranchScenarioNow", 3), ("BranchScenarioNowAfter", 3), ("BranchScenarioNowBefore", 3), ("BranchScenarioAfter", 3), ("BranchScenarioBefore", 3), ("BranchSum", 3), ("BranchValue", 3), ("BranchVariable", 3), ("BranchVariation", 1)]
def opsWithJump : List (String × Nat) := [("Case", 1), ("CaseMenu", 1), ("CaseMenu2", 1), ("CaseScenario", 2), ("CaseValue", 2), ("CaseVariable", 2), ("Jump", 0), ("Call", 0), ("Branch", 2), ("BranchBit", 2), ("BranchDebug", 1), ("BranchEdit", 1), ("BranchExecuteSub", 1), ("BranchPerformance", 2), ("BranchScenarioNow", 3), ("BranchScenarioNowAfter", 3), ("BranchScenarioNowBefore", 3), ("BranchScenarioAfter", 3), ("BranchScenarioBefore", 3), ("BranchSum", 3), ("BranchValue", 3), ("BranchVariable", 3), ("BranchVariation", 1)]
def opsEndFlow : List String := ["Jump", "JumpCommon", "Return", "End", "Hold", "Destroy"]
def opsJumpGuaranteed : List String := ["Jump", "JumpCommon"]
def opsCtx : List String := ["lives", "object", "performer"]
def opsSwitchCaseMap : List (String × List String) := [("message_SwitchMenu", ["CaseMenu", "CaseMenu2"]), ("message_SwitchMenu2", ["CaseMenu", "CaseMenu2"]), ("Switch", ["Case", "CaseValue", "CaseVariable", "CaseScenario"]), ("SwitchSector", ["Case", "CaseValue", "CaseVariable", "CaseScenario"]), ("ProcessSpecial", ["Case", "CaseValue", "CaseVariable", "CaseScenario"]), ("message_Menu", ["Case", "CaseValue", "CaseVariable", "CaseScenario"]), ("SwitchScenario", ["Case", "CaseValue", "CaseVariable", "CaseScenario"]), ("SwitchRandom", ["Case", "CaseValue", "CaseVariable", "CaseScenario"]), ("SwitchScenarioLevel", ["Case", "CaseValue", "CaseVariable", "CaseScenario"]), ("SwitchDungeonMode", ["Case", "CaseValue", "CaseVariable", "CaseScenario"]), ("main_EnterAdventure", ["Case", "CaseValue", "CaseVariable", "CaseScenario"]), ("main_EnterRescueUser", ["Case", "CaseValue", "CaseVariable", "CaseScenario"]), ("main_EnterTraining", ["Case", "CaseValue", "CaseVariable", "CaseScenario"]), ("main_EnterTraining2", ["Case", "CaseValue", "CaseVariable", "CaseScenario"])]
def opsSwitchTextCaseMap : List (String × List String) := [("message_SwitchTalk", ["CaseText", "DefaultText"]), ("message_SwitchMonologue", ["CaseText", "DefaultText"])]
def opsRegularCases : List String := ["Case", "CaseValue", "CaseVariable", "CaseScenario"]
def op_jump : String := "Jump"
def op_call : String := "Call"
def op_return : String := "Return"
def op_end : String := "End"
def op_hold : String := "Hold"
def op_dummy_end : String := "Return"
def spacesPerIndent : Nat := 4
def ssbOperators : List (String × Nat × String) := [("FALSE", 0, "FALSE"), ("TRUE", 1, "TRUE"), ("EQ", 2, "=="), ("GT", 3, ">"), ("LT", 4, "<"), ("GE", 5, ">="), ("LE", 6, "<="), ("NOT", 7, "!="), ("AND", 8, "&"), ("XOR", 9, "^"), ("BIT_SET", 10, "&<<")]
def ssbCalcOperators : List (String × Nat × String) := [("ASSIGN", 0, "="), ("MINUS", 1, "-="), ("PLUS", 2, "+="), ("MULTIPLY", 3, "*="), ("DIVIDE", 4, "/=")]
def routineTypes : List (String × Int) := [("GENERIC", 1), ("ACTOR", 3), ("OBJECT", 4), ("PERFORMER", 5), ("COROUTINE", 9), ("INVALID", -1)]

end ESV.Spec
