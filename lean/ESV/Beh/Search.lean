import ESV.Beh.Lts
import ESV.Beh.Event
/-
Unverified product search producing a candidate relation for `check` (only `check` is trusted, by
`check_sound`), and on failure the oracle prefix leading to the first differing heads.
-/
namespace ESV.Beh

abbrev NStep := Nat → Step Nat Ev
def nlts (f : NStep) : LTS Ev := ⟨Nat, f⟩
instance (f : NStep) : DecidableEq (nlts f).σ := inferInstanceAs (DecidableEq Nat)

def settleN (f : NStep) (fuel : Nat) (s : Nat) : Option (Head Nat Ev) := settle (nlts f) fuel s
def checkN (f₁ f₂ : NStep) (fuel : Nat) (rel : List (Nat × Nat)) : Bool :=
  check (nlts f₁) (nlts f₂) fuel (rel : List ((nlts f₁).σ × (nlts f₂).σ))

/-- the state at which the next observable step happens (following at most `fuel` silent steps) -/
def settlePos (f : NStep) : Nat → Nat → Option Nat
  | 0, _ => none
  | fuel+1, s =>
    match f s with
    | .silent s' => settlePos f fuel s'
    | _ => some s

inductive Outcome where
  | ok (rel : List (Nat × Nat))
  | differ (path : List Bool) (why : String)
  | silentCycle (left : Bool) (path : List Bool)
  | budget

def headStr : Option (Head Nat Ev) → String
  | none => "silent-cycle"
  | some (.emit e _) => "op " ++ e.name
  | some (.test e _ _) => "test " ++ e.name
  | some (.halt e) => "stop " ++ e.name

/-- breadth-first over pairs; `todo` holds (pair, oracle prefix in reverse) -/
def search (f₁ f₂ : NStep) (fuel : Nat) : Nat → List ((Nat × Nat) × List Bool) → List (Nat × Nat) → Outcome
  | 0, _, _ => .budget
  | _+1, [], seen => .ok seen
  | n+1, ((a, b), path) :: rest, seen =>
    if seen.contains (a, b) then search f₁ f₂ fuel n rest seen
    else
      let h1 := settleN f₁ fuel a
      let h2 := settleN f₂ fuel b
      match h1, h2 with
      | none, _ => .silentCycle true path.reverse
      | _, none => .silentCycle false path.reverse
      | some (.emit e s1), some (.emit e' s2) =>
        if e = e' then search f₁ f₂ fuel n (rest ++ [((s1, s2), path)]) ((a, b) :: seen)
        else .differ path.reverse (headStr h1 ++ " vs " ++ headStr h2)
      | some (.test e y no), some (.test e' y' no') =>
        if e = e' then
          search f₁ f₂ fuel n (rest ++ [((y, y'), true :: path), ((no, no'), false :: path)]) ((a, b) :: seen)
        else .differ path.reverse (headStr h1 ++ " vs " ++ headStr h2)
      | some (.halt e), some (.halt e') =>
        if e = e' then search f₁ f₂ fuel n rest ((a, b) :: seen)
        else .differ path.reverse (headStr h1 ++ " vs " ++ headStr h2)
      | _, _ => .differ path.reverse (headStr h1 ++ " vs " ++ headStr h2)

/-- the observable trace along a finite oracle prefix (for replays) -/
def traceAlong (f : NStep) (fuel : Nat) : Nat → Nat → List Bool → List (Obs Ev)
  | 0, _, _ => []
  | n+1, s, ω =>
    match settleN f fuel s with
    | none => []
    | some (.emit e s') => Obs.op e :: traceAlong f fuel n s' ω
    | some (.test e y no) =>
      match ω with
      | [] => [Obs.tst e true]   -- prefix exhausted: show the pending test and stop
      | c :: ω' => Obs.tst e c :: traceAlong f fuel n (if c then y else no) ω'
    | some (.halt e) => [Obs.stop e]

/-- search + the verified check; `true` only if `check` accepts a relation containing the initial pair -/
def validate (f₁ f₂ : NStep) (fuel budget : Nat) (a b : Nat) : Outcome × Bool :=
  match search f₁ f₂ fuel budget [((a, b), [])] [] with
  | .ok rel => (.ok rel, checkN f₁ f₂ fuel rel && rel.contains (a, b))
  | o => (o, false)

/-- what a `true` verdict of `validate` means -/
theorem validate_sound (f₁ f₂ : NStep) (fuel budget a b : Nat) (h : (validate f₁ f₂ fuel budget a b).2 = true) :
    Equivalent (nlts f₁) (nlts f₂) a b := by
  unfold validate at h
  split at h
  · rename_i rel _
    simp only [Bool.and_eq_true] at h
    have hm : (a, b) ∈ rel := List.contains_iff_mem.mp h.2
    exact check_sound (nlts f₁) (nlts f₂) fuel rel h.1 a b hm
  · simp at h

end ESV.Beh
