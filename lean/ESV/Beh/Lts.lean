/-
Labelled transition systems with silent steps, oracle-driven fuel-indexed runs, and the verified
equivalence checker (DESIGN §3.1, §3.4).  `check_sound` is the theorem every translation-validation
verdict of C01/C02/C05/C13/C15 rests on.
-/
namespace ESV.Beh

inductive Step (σ ε : Type) where
  | silent (n : σ)
  | emit (e : ε) (n : σ)
  | test (e : ε) (yes no : σ)
  | halt (e : ε)

inductive Obs (ε : Type) where
  | op (e : ε)
  | tst (e : ε) (b : Bool)
  | stop (e : ε)
deriving DecidableEq, Repr

structure LTS (ε : Type) where
  σ : Type
  step : σ → Step σ ε

variable {ε : Type}

/-- Fuel-indexed run; the `k`-th test consults `ω k`.  Second component: `none` = halted,
`some (s, k)` = still running in state `s` having consumed `k` oracle answers. -/
def run (L : LTS ε) (ω : Nat → Bool) : Nat → Nat → L.σ → List (Obs ε) × Option (L.σ × Nat)
  | 0, k, s => ([], some (s, k))
  | n+1, k, s =>
    match L.step s with
    | .silent s' => run L ω n k s'
    | .emit e s' => let r := run L ω n k s'; (Obs.op e :: r.1, r.2)
    | .test e y no =>
        let b := ω k
        let r := run L ω n (k+1) (if b then y else no)
        (Obs.tst e b :: r.1, r.2)
    | .halt e => ([Obs.stop e], none)

inductive Head (σ ε : Type) where
  | emit (e : ε) (n : σ)
  | test (e : ε) (yes no : σ)
  | halt (e : ε)

/-- follow at most `fuel` silent steps to the next observable step -/
def settle (L : LTS ε) : Nat → L.σ → Option (Head L.σ ε)
  | 0, _ => none
  | f+1, s =>
    match L.step s with
    | .silent s' => settle L f s'
    | .emit e n => some (.emit e n)
    | .test e y no => some (.test e y no)
    | .halt e => some (.halt e)

def afterHead (L : LTS ε) (ω : Nat → Bool) (n k : Nat) : Head L.σ ε → List (Obs ε) × Option (L.σ × Nat)
  | .emit e s' => let r := run L ω n k s'; (Obs.op e :: r.1, r.2)
  | .test e y no =>
      let b := ω k
      let r := run L ω n (k+1) (if b then y else no)
      (Obs.tst e b :: r.1, r.2)
  | .halt e => ([Obs.stop e], none)

theorem settle_run (L : LTS ε) (ω : Nat → Bool) :
    ∀ (f : Nat) (s : L.σ) (h : Head L.σ ε), settle L f s = some h →
      ∃ j, (∀ n k, n ≤ j → (run L ω n k s).1 = [] ∧ (run L ω n k s).2 ≠ none) ∧
           (∀ n k, run L ω (j + 1 + n) k s = afterHead L ω n k h) := by
  intro f
  induction f with
  | zero => intro s h hs; simp [settle] at hs
  | succ f ih =>
    intro s h hs
    unfold settle at hs
    cases hst : L.step s with
    | silent s' =>
      rw [hst] at hs; simp at hs
      obtain ⟨j, h1, h2⟩ := ih s' h hs
      refine ⟨j+1, ?_, ?_⟩
      · intro n k hn
        cases n with
        | zero => simp [run]
        | succ n => simp only [run, hst]; exact h1 n k (by omega)
      · intro n k
        have : j + 1 + 1 + n = (j + 1 + n) + 1 := by omega
        rw [this]; simp only [run, hst]; exact h2 n k
    | emit e n' =>
      rw [hst] at hs; simp at hs; subst hs
      refine ⟨0, ?_, ?_⟩
      · intro n k hn; have : n = 0 := by omega
        subst this; simp [run]
      · intro n k; have : 0 + 1 + n = n + 1 := by omega
        rw [this]; simp only [run, hst, afterHead]
    | test e y no =>
      rw [hst] at hs; simp at hs; subst hs
      refine ⟨0, ?_, ?_⟩
      · intro n k hn; have : n = 0 := by omega
        subst this; simp [run]
      · intro n k; have : 0 + 1 + n = n + 1 := by omega
        rw [this]; simp only [run, hst, afterHead]
    | halt e =>
      rw [hst] at hs; simp at hs; subst hs
      refine ⟨0, ?_, ?_⟩
      · intro n k hn; have : n = 0 := by omega
        subst this; simp [run]
      · intro n k; have : 0 + 1 + n = n + 1 := by omega
        rw [this]; simp only [run, hst, afterHead]

variable [DecidableEq ε]

def okPair (L₁ L₂ : LTS ε) [DecidableEq L₁.σ] [DecidableEq L₂.σ] (f : Nat)
    (R : List (L₁.σ × L₂.σ)) (p : L₁.σ × L₂.σ) : Bool :=
  match settle L₁ f p.1, settle L₂ f p.2 with
  | some (.emit e n), some (.emit e' n') => decide (e = e') && R.contains (n, n')
  | some (.test e y no), some (.test e' y' no') =>
      decide (e = e') && R.contains (y, y') && R.contains (no, no')
  | some (.halt e), some (.halt e') => decide (e = e')
  | _, _ => false

/-- the checker: every pair of the candidate relation settles to equal observable heads whose
successors are again related -/
def check (L₁ L₂ : LTS ε) [DecidableEq L₁.σ] [DecidableEq L₂.σ] (f : Nat)
    (R : List (L₁.σ × L₂.σ)) : Bool := R.all (okPair L₁ L₂ f R)

/-- every finite observation of `L₁` from `a` is extended by one of `L₂` from `b` (same oracle), and a
halted run of `L₁` is matched by a halted run of `L₂` with the identical trace -/
def Sim (L₁ L₂ : LTS ε) (a : L₁.σ) (b : L₂.σ) : Prop :=
  ∀ ω n k, ∃ m, (run L₁ ω n k a).1 <+: (run L₂ ω m k b).1 ∧
    ((run L₁ ω n k a).2 = none → (run L₂ ω m k b).2 = none ∧ (run L₁ ω n k a).1 = (run L₂ ω m k b).1)

theorem check_sound_left (L₁ L₂ : LTS ε) [DecidableEq L₁.σ] [DecidableEq L₂.σ] (f : Nat)
    (R : List (L₁.σ × L₂.σ)) (hc : check L₁ L₂ f R = true) :
    ∀ a b, (a, b) ∈ R → Sim L₁ L₂ a b := by
  intro a b hab ω n
  induction n using Nat.strongRecOn generalizing a b with
  | ind n ih =>
    intro k
    have hp : okPair L₁ L₂ f R (a, b) = true := by
      unfold check at hc; rw [List.all_eq_true] at hc; exact hc _ hab
    unfold okPair at hp
    cases h1 : settle L₁ f a with
    | none => simp [h1] at hp
    | some hd1 =>
      cases h2 : settle L₂ f b with
      | none => cases hd1 <;> simp [h1, h2] at hp
      | some hd2 =>
        obtain ⟨j1, a1, a2⟩ := settle_run L₁ ω f a hd1 h1
        obtain ⟨j2, b1, b2⟩ := settle_run L₂ ω f b hd2 h2
        by_cases hn : n ≤ j1
        · refine ⟨0, ?_, ?_⟩
          · rw [(a1 n k hn).1]; exact List.nil_prefix
          · intro h; exact absurd h (a1 n k hn).2
        · obtain ⟨n', rfl⟩ : ∃ n', n = j1 + 1 + n' := ⟨n - (j1+1), by omega⟩
          rw [a2 n' k]
          cases hd1 with
          | emit e s1 =>
            cases hd2 with
            | emit e' s2 =>
              simp [h1, h2] at hp
              obtain ⟨rfl, hin⟩ := hp
              obtain ⟨m', p1, p2⟩ := ih n' (by omega) s1 s2 hin k
              refine ⟨j2 + 1 + m', ?_, ?_⟩
              · rw [b2 m' k]; simp only [afterHead]
                exact List.prefix_cons_inj _ |>.mpr p1
              · rw [b2 m' k]; simp only [afterHead]; intro h
                obtain ⟨q1, q2⟩ := p2 h
                exact ⟨q1, by rw [q2]⟩
            | test _ _ _ => simp [h1, h2] at hp
            | halt _ => simp [h1, h2] at hp
          | test e y no =>
            cases hd2 with
            | test e' y' no' =>
              simp [h1, h2] at hp
              obtain ⟨⟨rfl, hy⟩, hno⟩ := hp
              have hin : ((if ω k then y else no), (if ω k then y' else no')) ∈ R := by
                cases ω k <;> simp [hy, hno]
              obtain ⟨m', p1, p2⟩ := ih n' (by omega) _ _ hin (k+1)
              refine ⟨j2 + 1 + m', ?_, ?_⟩
              · rw [b2 m' k]; simp only [afterHead]
                exact List.prefix_cons_inj _ |>.mpr p1
              · rw [b2 m' k]; simp only [afterHead]; intro h
                obtain ⟨q1, q2⟩ := p2 h
                exact ⟨q1, by rw [q2]⟩
            | emit _ _ => simp [h1, h2] at hp
            | halt _ => simp [h1, h2] at hp
          | halt e =>
            cases hd2 with
            | halt e' =>
              simp [h1, h2] at hp
              subst hp
              refine ⟨j2 + 1, ?_, ?_⟩
              · have := b2 0 k; simp at this; rw [this]; simp [afterHead]
              · have := b2 0 k; simp at this; rw [this]; simp [afterHead]
            | emit _ _ => simp [h1, h2] at hp
            | test _ _ _ => simp [h1, h2] at hp

/-- the same check read right-to-left -/
def swapR {α β : Type} (R : List (α × β)) : List (β × α) := R.map fun p => (p.2, p.1)

theorem contains_swap {α β : Type} [DecidableEq α] [DecidableEq β] (R : List (α × β)) (a : α) (b : β) :
    (swapR R).contains (b, a) = R.contains (a, b) := by
  induction R with
  | nil => rfl
  | cons x xs ih =>
    obtain ⟨x1, x2⟩ := x
    have ih' : (swapR xs).contains (b, a) = xs.contains (a, b) := ih
    show ((x2, x1) :: swapR xs).contains (b, a) = ((x1, x2) :: xs).contains (a, b)
    rw [List.contains_cons, List.contains_cons, ih']
    congr 1
    by_cases h : a = x1 ∧ b = x2
    · obtain ⟨rfl, rfl⟩ := h; simp
    · have h1 : ((a, b) == (x1, x2)) = false := by
        simp only [beq_eq_false_iff_ne, ne_eq, Prod.mk.injEq]; exact h
      have h2 : ((b, a) == (x2, x1)) = false := by
        simp only [beq_eq_false_iff_ne, ne_eq, Prod.mk.injEq]; exact fun ⟨p, q⟩ => h ⟨q, p⟩
      rw [h1, h2]

theorem okPair_swap (L₁ L₂ : LTS ε) [DecidableEq L₁.σ] [DecidableEq L₂.σ] (f : Nat)
    (R : List (L₁.σ × L₂.σ)) (a : L₁.σ) (b : L₂.σ) (h : okPair L₁ L₂ f R (a, b) = true) :
    okPair L₂ L₁ f (swapR R) (b, a) = true := by
  unfold okPair at *
  simp only at *
  cases h1 : settle L₁ f a with
  | none => simp [h1] at h
  | some hd1 =>
    cases h2 : settle L₂ f b with
    | none => cases hd1 <;> simp [h1, h2] at h
    | some hd2 =>
      cases hd1 <;> cases hd2 <;> simp [h1, h2] at h ⊢
      · obtain ⟨rfl, hin⟩ := h
        refine ⟨rfl, ?_⟩
        have := contains_swap R _ _ ▸ (List.contains_iff_mem.mpr hin)
        exact List.contains_iff_mem.mp this
      · obtain ⟨⟨rfl, hy⟩, hno⟩ := h
        refine ⟨⟨rfl, ?_⟩, ?_⟩
        · have := contains_swap R _ _ ▸ (List.contains_iff_mem.mpr hy)
          exact List.contains_iff_mem.mp this
        · have := contains_swap R _ _ ▸ (List.contains_iff_mem.mpr hno)
          exact List.contains_iff_mem.mp this
      · exact h.symm

theorem check_swap (L₁ L₂ : LTS ε) [DecidableEq L₁.σ] [DecidableEq L₂.σ] (f : Nat)
    (R : List (L₁.σ × L₂.σ)) (hc : check L₁ L₂ f R = true) : check L₂ L₁ f (swapR R) = true := by
  unfold check at *
  rw [List.all_eq_true] at *
  intro p hp
  obtain ⟨q, hq, rfl⟩ := List.mem_map.mp hp
  exact okPair_swap L₁ L₂ f R q.1 q.2 (hc q hq)

/-- Behavioural equality: mutual trace extension with preservation of halting, for every oracle. -/
def Equivalent (L₁ L₂ : LTS ε) (a : L₁.σ) (b : L₂.σ) : Prop := Sim L₁ L₂ a b ∧ Sim L₂ L₁ b a

/-- **Soundness of the checker.** If `check` accepts the relation `R`, every related pair of states is
behaviourally equal: for every outcome of every test the two systems perform the same sequence of
operations and tests, and one halts iff the other does (with the same final event). -/
theorem check_sound (L₁ L₂ : LTS ε) [DecidableEq L₁.σ] [DecidableEq L₂.σ] (f : Nat)
    (R : List (L₁.σ × L₂.σ)) (hc : check L₁ L₂ f R = true) (a : L₁.σ) (b : L₂.σ) (hab : (a, b) ∈ R) :
    Equivalent L₁ L₂ a b := by
  refine ⟨check_sound_left L₁ L₂ f R hc a b hab, ?_⟩
  apply check_sound_left L₂ L₁ f (swapR R) (check_swap L₁ L₂ f R hc) b a
  exact List.mem_map.mpr ⟨(a, b), hab, rfl⟩

end ESV.Beh

namespace ESV.Beh
variable {ε : Type}

theorem Sim.trans {L₁ L₂ L₃ : LTS ε} {a : L₁.σ} {b : L₂.σ} {c : L₃.σ}
    (h₁ : Sim L₁ L₂ a b) (h₂ : Sim L₂ L₃ b c) : Sim L₁ L₃ a c := by
  intro ω n k
  obtain ⟨m₁, p₁, q₁⟩ := h₁ ω n k
  obtain ⟨m₂, p₂, q₂⟩ := h₂ ω m₁ k
  refine ⟨m₂, List.IsPrefix.trans p₁ p₂, ?_⟩
  intro hn
  obtain ⟨hb, eb⟩ := q₁ hn
  obtain ⟨hc, ec⟩ := q₂ hb
  exact ⟨hc, eb.trans ec⟩

/-- behavioural equality is symmetric … -/
theorem Equivalent.symm {L₁ L₂ : LTS ε} {a : L₁.σ} {b : L₂.σ} (h : Equivalent L₁ L₂ a b) :
    Equivalent L₂ L₁ b a := ⟨h.2, h.1⟩

/-- … and transitive: `sem(text) ≈ x` and `compile(text) ≈ sem(text)` give `compile(decompile x) ≈ x` (C02),
`decompile(compile p) ≈ p` likewise. -/
theorem Equivalent.trans {L₁ L₂ L₃ : LTS ε} {a : L₁.σ} {b : L₂.σ} {c : L₃.σ}
    (h₁ : Equivalent L₁ L₂ a b) (h₂ : Equivalent L₂ L₃ b c) : Equivalent L₁ L₃ a c :=
  ⟨Sim.trans h₁.1 h₂.1, Sim.trans h₂.2 h₁.2⟩

theorem Sim.refl (L : LTS ε) (a : L.σ) : Sim L L a a := by
  intro ω n k
  exact ⟨n, List.prefix_refl _, fun h => ⟨h, rfl⟩⟩

theorem Equivalent.refl (L : LTS ε) (a : L.σ) : Equivalent L L a a := ⟨Sim.refl L a, Sim.refl L a⟩

end ESV.Beh
