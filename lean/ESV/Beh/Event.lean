import ESV.Beh.Spec
/- Parameters, events and opcode classification (by the regenerated tables). -/
namespace ESV.Beh

inductive Param where
  | int (i : Int)
  | fixed (s : String)
  | const (s : String)
  | str (s : String)
  | lang (kv : List (String × String))
  | pos (name : String) (xo yo xr yr : Int)
deriving DecidableEq, Repr

structure Ev where
  name : String
  params : List Param
deriving DecidableEq, Repr

/-- the event of running off the end of a routine: indistinguishable from a `Return` op -/
def evReturn : Ev := ⟨ESV.Spec.op_return, []⟩
def evInvalid (why : String) : Ev := ⟨"!INVALID:" ++ why, []⟩
def evStuck : Ev := ⟨"!STUCK", []⟩

def isJump (n : String) : Bool := n == ESV.Spec.op_jump
/-- ops that carry a target and go there exactly when taken: Branch*, Case*, Call -/
def isTest (n : String) : Bool := (ESV.Spec.opsWithJump.any fun kv => kv.1 == n) && !isJump n
def endsFlow (n : String) : Bool := ESV.Spec.opsEndFlow.contains n && !isJump n
def isCtx (n : String) : Bool := ESV.Spec.opsCtx.contains n

end ESV.Beh
