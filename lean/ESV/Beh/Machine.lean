import ESV.Beh.Lts
import ESV.Beh.Event
/-
The SSB machine of property C01/C02: ops run in order; a branch, case or call op goes to its target
exactly when taken; Jump always goes; flow-ending ops stop; running past the last op of a routine stops
like `return`.  An op directly after a context op (lives/object/performer) never stops the routine
(compiler `does_op_end_control_flow` and decompiler agree on this).
-/
namespace ESV.Beh

structure MOp where
  off : Int
  name : String
  params : List Param
deriving DecidableEq, Repr

structure FOp where
  rtn : Nat
  op : MOp
deriving Repr

def flatten (rs : List (List MOp)) : Array FOp :=
  (rs.zipIdx.flatMap fun (ops, r) => ops.map fun o => ⟨r, o⟩).toArray

structure Machine where
  ops : Array FOp

namespace Machine

/-- states `< size` are op positions; `size` = fell off a routine; `size+1` = jump to a non-existent op -/
def fellOff (m : Machine) : Nat := m.ops.size
def stuck (m : Machine) : Nat := m.ops.size + 1

def resolve (m : Machine) (target : Int) : Nat :=
  match m.ops.findIdx? (fun f => f.op.off == target) with
  | some i => i
  | none => m.stuck

def next (m : Machine) (i : Nat) (r : Nat) : Nat :=
  match m.ops[i+1]? with
  | some f => if f.rtn == r then i + 1 else m.fellOff
  | none => m.fellOff

def afterCtx (m : Machine) (i : Nat) (r : Nat) : Bool :=
  match i with
  | 0 => false
  | j+1 => match m.ops[j]? with
    | some f => f.rtn == r && isCtx f.op.name
    | none => false

def targetOf (ps : List Param) : Option Int :=
  match ps.getLast? with
  | some (.int t) => some t
  | _ => none

def step (m : Machine) (i : Nat) : Step Nat Ev :=
  match m.ops[i]? with
  | none => if i == m.fellOff then .halt evReturn else .halt evStuck
  | some f =>
    let o := f.op
    if isJump o.name then
      match targetOf o.params with
      | some t => .silent (m.resolve t)
      | none => .halt evStuck
    else if isTest o.name then
      match targetOf o.params with
      | some t => .test ⟨o.name, o.params.dropLast⟩ (m.resolve t) (m.next i f.rtn)
      | none => .halt evStuck
    else if endsFlow o.name && !m.afterCtx i f.rtn then .halt ⟨o.name, o.params⟩
    else .emit ⟨o.name, o.params⟩ (m.next i f.rtn)

def lts (m : Machine) : LTS Ev := ⟨Nat, m.step⟩

/-- position of the first op of routine `r`, `fellOff` for an empty routine -/
def entry (m : Machine) (r : Nat) : Nat :=
  match m.ops.findIdx? (fun f => f.rtn == r) with
  | some i => i
  | none => m.fellOff

end Machine
end ESV.Beh
