import ESV.Beh.Search
import ESV.Beh.Machine
import ESV.Src.Sem
import ESV.Props.Tables
/-
C01 — compiled bytecode behaves exactly as the source program says.

What is proved here (for ALL programs, routine sets, relations): the validator's verdict is sound.  Whenever
the driver reports `equiv` for routine `r` of a source program `p` and a compiled routine set `m`, the source
semantics `p.graph` started at the routine's entry and the SSB machine started at the routine's first op are
behaviourally equal: for every outcome of every test they perform the same sequence of operations and tests and
stop with the same event (or both run forever).  The implementation's real output is what the validator is fed
with on every run (translation validation with a kernel-checked checker); the ∀-programs statement about the
compiler itself (`compile_correct`, DESIGN §4 C01 stage 5) is not closed yet and is NOT claimed.
-/
namespace ESV.C01
open ESV ESV.Beh ESV.Src

/-- the statement discharged per (program, compiled output, routine) on every run -/
theorem routine_validated (p : Program) (m : Machine) (fuel budget a b : Nat)
    (h : (validate p.graph.step m.step fuel budget a b).2 = true) :
    Equivalent (nlts p.graph.step) (nlts m.step) a b :=
  validate_sound p.graph.step m.step fuel budget a b h

/-- machine-vs-machine instance (compile(decompile x) against x, CLI round trips) -/
theorem machines_validated (m₁ m₂ : Machine) (fuel budget a b : Nat)
    (h : (validate m₁.step m₂.step fuel budget a b).2 = true) :
    Equivalent (nlts m₁.step) (nlts m₂.step) a b :=
  validate_sound m₁.step m₂.step fuel budget a b h

/-- behavioural equality is what the property asks: equal finite traces for every oracle, both directions,
halting preserved.  Spelled out for a halting run. -/
theorem equivalent_halting_trace (L₁ L₂ : LTS Ev) (a : L₁.σ) (b : L₂.σ) (h : Equivalent L₁ L₂ a b)
    (ω : Nat → Bool) (n : Nat) (hn : (run L₁ ω n 0 a).2 = none) :
    ∃ m, (run L₂ ω m 0 b).2 = none ∧ (run L₁ ω n 0 a).1 = (run L₂ ω m 0 b).1 := by
  obtain ⟨m, _, h2⟩ := h.1 ω n 0
  exact ⟨m, h2 hn⟩

/-! facts about opcode classes the property statement fixes, checked against the pinned tables
(and through ESV.TableTie against the tables regenerated from /repo) -/
theorem jump_always_goes : isJump "Jump" = true ∧ isTest "Jump" = false := by decide
theorem flow_ending_ops_stop : endsFlow "Return" = true ∧ endsFlow "End" = true ∧ endsFlow "Hold" = true := by decide
theorem branch_case_call_are_tests :
    (ESV.Spec.opsBranch.all fun kv => isTest kv.1) = true ∧ isTest "Call" = true ∧
    isTest "Case" = true ∧ isTest "CaseMenu" = true ∧ isTest "CaseMenu2" = true ∧ isTest "CaseValue" = true ∧
    isTest "CaseVariable" = true ∧ isTest "CaseScenario" = true := by decide
theorem tables_tied : ESV.Gen.opsWithJump = ESV.Spec.opsWithJump ∧ ESV.Gen.opsEndFlow = ESV.Spec.opsEndFlow ∧
    ESV.Gen.opsCtx = ESV.Spec.opsCtx ∧ ESV.Gen.op_dummy_end = ESV.Spec.op_return :=
  ⟨ESV.TableTie.opsWithJump_eq, ESV.TableTie.opsEndFlow_eq, ESV.TableTie.opsCtx_eq, by decide⟩

/-! non-vacuity: the checker accepts a real pair of different layouts of `a(); if ($X == 2) { b(); } return;`
and rejects a wrong one -/
def mA : Machine := ⟨flatten [[⟨1, "a", []⟩, ⟨2, "Branch", [.const "$X", .int 2, .int 4]⟩, ⟨3, "Jump", [.int 5]⟩,
  ⟨4, "b", []⟩, ⟨5, "Return", []⟩]]⟩
def mB : Machine := ⟨flatten [[⟨0, "a", []⟩, ⟨1, "Branch", [.const "$X", .int 2, .int 7]⟩, ⟨2, "Return", []⟩,
  ⟨7, "b", []⟩]]⟩
def mC : Machine := ⟨flatten [[⟨0, "a", []⟩, ⟨1, "Branch", [.const "$X", .int 2, .int 7]⟩, ⟨2, "b", []⟩,
  ⟨7, "Return", []⟩]]⟩
example : (validate mA.step mB.step 20 100 0 0).2 = true := by decide +kernel
example : (validate mA.step mC.step 20 100 0 0).2 = false := by decide +kernel

end ESV.C01
