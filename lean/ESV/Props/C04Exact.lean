import ESV.Props.C04
/-
C04, supplement: the guards exclude *exactly* the failing strings — checked by kernel evaluation on every string up
to length 3 over the alphabet  ' " \ \n blank a n \r , at indent 0 and 1, both quote preferences.  (The general
theorems in ESV/Props/C04.lean are unbounded and give the direction  Guard → round trip;  the converse is bounded
here and otherwise observed by the harness: no counter-instance in 620 000 round trips of the thorough tier.)
-/
namespace ESV.C04
open ESV ESV.Lit

def strsOfLen (alpha : List Char) : Nat → List Str
  | 0 => [[]]
  | n + 1 => alpha.flatMap (fun c => (strsOfLen alpha n).map (c :: ·))

def strsUpTo (alpha : List Char) (n : Nat) : List Str := (List.range (n + 1)).flatMap (strsOfLen alpha)

def exactAlphabet : List Char := [SQ, DQ, BS, NL, SP, 'a', 'n', CR]

def exactOn (s : Str) : Bool :=
  [0, 1].all fun i => [true, false].all fun q => Guard s i q == decide (Roundtrips s i q [')', ';'])

theorem guard_exact_small_aux : (strsUpTo exactAlphabet 3).all exactOn = true := by decide +kernel

/-- for the 585 strings of length ≤ 3 over the alphabet: the value round-trips iff it is inside the guard -/
theorem guard_exact_small (s : Str) (hs : s ∈ strsUpTo exactAlphabet 3) (indent : Nat) (hi : indent = 0 ∨ indent = 1)
    (single : Bool) : Guard s indent single = true ↔ Roundtrips s indent single [')', ';'] := by
  have h := List.all_eq_true.mp guard_exact_small_aux s hs
  simp only [exactOn, List.all_cons, List.all_nil, Bool.and_true, Bool.and_eq_true, beq_iff_eq] at h
  obtain ⟨⟨h0t, h0f⟩, h1t, h1f⟩ := h
  rcases hi with rfl | rfl <;> cases single <;> simp_all

example : (strsUpTo exactAlphabet 3).length = 585 := by decide +kernel

end ESV.C04
