import ESV.Comp.Front5
import ESV.SsbScript.Closed
/-
C03 — compiled output is a closed, uniquely addressed op list.

Model: ESV/Comp/{Ast,Model,Backend}.lean (the ExplorerScript compiler after parsing, statement by statement) and
ESV/SsbScript/Model.lean (the SsbScript compiler).  Lemmas: ESV/Comp/{Lemmas,Front,Front2,Front3,Front4,Front5}.lean.
The model is compared with the real compiler on every run of `./check C03` (harness/props/c03.py).
-/
namespace ESV.C03
open ESV ESV.Comp

/-- **The property.** Op offsets pairwise distinct across all routines; every op whose name is in the jump table
(`OPS_WITH_JUMP_TO_MEM_OFFSET`: Jump, Call, all Branch*, all Case*) has an int last parameter that is the offset of an op
of the result; routine info, coroutine name and op tables equally long.  That no label / label-jump pseudo operation
remains is carried by the type (`Result.ops : List (List Comp.Op)`, see `no_pseudo_items`). -/
def Closed (c : Result) : Prop :=
  ClosedOps c.ops ∧ c.infos.length = c.ops.length ∧ c.coros.length = c.ops.length

instance (c : Result) : Decidable (Closed c) := by unfold Closed; infer_instance

/-- the statement of the property without any guard (false on the real code and on the model: `compile_closed_counterexample`) -/
def CompileClosedUnguarded : Prop := ∀ (p : Program) (c : Result), compile p = .ok c → Closed c

/-! ### back end -/

/-- For ARBITRARY labelled code with pairwise distinct op offsets (and no plain op named like a jump-carrying op): if
`OpsLabelJumpToRemover(LabelFinalizer(strip_last_label(routines)))` succeeds, the result is closed and has one op list
per routine. -/
theorem backend_closed (rs : List (List LItem)) (out : List (List Comp.Op))
    (hd : DistinctOffsets rs) (hn : NoRawJumpOps rs) (h : backend rs = .ok out) :
    ClosedOps out ∧ out.length = rs.length :=
  Comp.backend_closed rs out hd hn h

/-- `strip_last_label` only drops op offsets (jumps to the removed label after a flow-ending op) or keeps them (a jump
turned into the dummy end keeps its offset); the only plain op it adds is the dummy end; it keeps the routine count -/
theorem strip_last_label_offsets (rs out : List (List LItem)) (h : stripLastLabel rs = .ok out) :
    (offs out.flatten).Sublist (offs rs.flatten) ∧
    (∀ n ∈ plainNames out.flatten, n = Gen.op_dummy_end ∨ n ∈ plainNames rs.flatten) ∧ out.length = rs.length :=
  stripLastLabel_spec rs out h

/-- `LabelFinalizer`: the code only loses items (redundant Jumps), and every offset recorded for a label — also for
labels waiting across a routine boundary — is the offset of an op that is still in the finalized code -/
theorem finalizer_offsets_survive (rs : List (List LItem)) (out : List (List LItem)) (st : FinSt)
    (h : finalize rs ⟨[], []⟩ = (out, st)) :
    out.flatten.Sublist rs.flatten ∧ out.length = rs.length ∧ ∀ t ∈ vals st.offsets, t ∈ offs out.flatten := by
  obtain ⟨a, b, c⟩ := finalize_spec rs _ _ _ h
  refine ⟨a, b, fun t ht => ?_⟩
  rcases c t ht with h | h
  · simp [vals] at h
  · exact h

/-- `OpsLabelJumpToRemover` succeeds ⇒ the result has exactly the op offsets of the finalized code, a plain op is
unchanged, and every label jump has got, as LAST parameter, the offset of an op that survives (possibly in a later
routine); a jump to a label without offset makes it fail (`removeItems` returns `SsbCompilerError`) -/
theorem remover_closed (rs : List (List LItem)) (f : List (List LItem)) (st : FinSt) (out : List (List Comp.Op))
    (hf : finalize rs ⟨[], []⟩ = (f, st)) (h : remover st.offsets f = .ok out) :
    flatOffsets out = offs f.flatten ∧
    ∀ o ∈ out.flatten, o.name ∈ plainNames f.flatten ∨ lastIntIn (flatOffsets out) o.params = true := by
  obtain ⟨r1, _, r3⟩ := remover_spec st.offsets f out h
  obtain ⟨_, _, f3⟩ := finalizer_offsets_survive rs f st hf
  refine ⟨r1, fun o ho => ?_⟩
  rcases r3 o ho with hp | ⟨t, ht, ps, hps⟩
  · exact .inl hp
  · refine .inr ?_
    rw [hps, r1]
    exact lastIntIn_append _ _ _ (f3 t ht)

/-- the target is appended: it is the last parameter, which is where the jump table puts it for the ops the compiler
builds itself (`Jump`, `Call` without parameters) -/
theorem jump_param_is_last :
    jumpIdx Gen.op_jump = some 0 ∧ jumpIdx Gen.op_call = some 0 ∧
    ∀ (d : List (Nat × Nat)) (root : Comp.Op) (l : Nat) (r : List LItem) (ops : List Comp.Op),
      removeItems d (.ljump root (some l) :: r) = .ok ops →
      ∃ t rest, ops = ⟨root.offset, root.name, root.params ++ [.int (t : Int)]⟩ :: rest := by
  refine ⟨by decide, by decide, fun d root l r ops h => ?_⟩
  simp only [removeItems] at h
  split at h
  · simp at h
  · rename_i t _
    split at h
    · simp at h
    · rename_i os _
      simp only [Except.ok.injEq] at h
      exact ⟨t, os, h.symm⟩

/-! ### front end -/

/-- every offset the code generator hands out — `Counter.__call__`, `allocate`d header numbers, ticks taken while
visiting, macro expansions — is used at most once in the labelled code (numbers of dropped ops are never reused) -/
theorem counter_fresh (p : Program) (t : Tables) (hg : NoUserJumpOps p) (h : frontend p = .ok t) : DistinctOffsets t.ops :=
  (frontend_spec p t hg h).1

/-- `_enlarge_routine_info` + assignment by routine id keep the three tables equally long -/
theorem tables_same_length (p : Program) (t : Tables) (hg : NoUserJumpOps p) (h : frontend p = .ok t) :
    t.infos.length = t.ops.length ∧ t.coros.length = t.ops.length :=
  (frontend_spec p t hg h).2.2

/-- the result type has no label / label-jump constructors: every entry of the op table is a plain `Op` -/
theorem no_pseudo_items (c : Result) : ∀ r ∈ c.ops, ∀ o ∈ r, ∃ off name params, o = (⟨off, name, params⟩ : Comp.Op) :=
  fun _ _ o _ => ⟨o.offset, o.name, o.params, rfl⟩

/-! ### the theorem -/

/-- **C03 for the ExplorerScript compiler model**, all programs (any nesting, labels, cross-routine jumps, alias routines,
macros with any resolution order handed in, routine ids in any order): whenever compilation succeeds the result is
closed — provided no operation written in the source is itself named like a jump-carrying op (`NoUserJumpOps`,
decidable; without it the statement is false, see `compile_closed_counterexample`). -/
theorem compile_closed (p : Program) (c : Result) (hg : NoUserJumpOps p) (h : compile p = .ok c) : Closed c := by
  unfold compile at h
  cases hf : frontend p with
  | error e => rw [hf] at h; simp at h
  | ok t =>
    rw [hf] at h
    simp only at h
    split at h
    · simp at h
    · cases hb : backend t.ops with
      | error e => rw [hb] at h; simp at h
      | ok ops =>
        rw [hb] at h
        simp only [Except.ok.injEq] at h
        subst h
        obtain ⟨d, n, li, lc⟩ := frontend_spec p t hg hf
        obtain ⟨cl, len⟩ := Comp.backend_closed t.ops ops d n hb
        exact ⟨cl, by simp only; omega, by simp only; omega⟩

/-- the same under the hypothesis the front-end theorem discharges, for callers that check it per program -/
theorem compile_closed_partial (p : Program) (t : Tables) (c : Result) (hf : frontend p = .ok t)
    (hd : DistinctOffsets t.ops) (hn : NoRawJumpOps t.ops)
    (hl : t.infos.length = t.ops.length ∧ t.coros.length = t.ops.length) (h : compile p = .ok c) : Closed c := by
  unfold compile at h
  rw [hf] at h
  simp only at h
  split at h
  · simp at h
  · cases hb : backend t.ops with
    | error e => rw [hb] at h; simp at h
    | ok ops =>
      rw [hb] at h
      simp only [Except.ok.injEq] at h
      subst h
      obtain ⟨cl, len⟩ := Comp.backend_closed t.ops ops hd hn hb
      exact ⟨cl, by simp only; omega, by simp only; omega⟩

/-! ### the guard is needed: a user-written `Jump(7);` -/

/-- `def 0 { Jump(7); }` -/
def exUserJump : Program :=
  ⟨[], [], [⟨some 0, "GENERIC:0:", none, .cons (.op "Jump" [.int 7]) .nil⟩]⟩

theorem exUserJump_compiles : compile exUserJump = .ok ⟨[some "GENERIC:0:"], [none], [[⟨1, "Jump", [.int 7]⟩]]⟩ := by decide

/-- the operation `Jump(7);` written in a routine is compiled to the op `Jump [7]` at offset 1: its last parameter is not
the offset of an op of the result.  The real compiler does the same (harness witness, known finding
`user_op_named_like_jump_op`). -/
theorem compile_closed_counterexample : ¬ CompileClosedUnguarded := by
  intro h
  have := h exUserJump _ exUserJump_compiles
  revert this
  decide

/-! ### SsbScript -/

open ESV.SsbScript in
theorem allSome_length {α : Type} : ∀ (l : List (Option α)) (l' : List α), allSome l = some l' → l'.length = l.length := by
  intro l
  induction l with
  | nil => intro l' h; simp only [allSome, Option.some.injEq] at h; subst h; rfl
  | cons a r ih =>
    intro l' h
    cases a with
    | none => simp [allSome] at h
    | some a =>
      simp only [allSome, Option.map_eq_some_iff] at h
      obtain ⟨r', hr, rfl⟩ := h
      simp [ih r' hr]

/-- **C03 for the SsbScript compiler model** (`ESV.SsbScript.compile`, the model of C07), all statement ASTs: whenever
compilation succeeds the result is closed — provided every op named like a jump-carrying op is written with a jump
marker as last argument (`MarkersLast`) and no routine id is negative or defined twice (`IdsFresh`); both guards are
decidable and needed (`ssbscript_marker_counterexample`, `ssbscript_repeated_id_counterexample`). -/
theorem ssbscript_compile_closed (ast : List SsbScript.SRoutine) (x : RoutineSet)
    (hm : SsbScript.Cl.MarkersLast ast) (hi : SsbScript.Cl.IdsFresh ast) (h : SsbScript.compile ast = .ok x) :
    SsbScript.Cl.ClosedTables x.infos.length x.coros.length x.ops := by
  unfold SsbScript.compile at h
  cases hc : SsbScript.compileRaw ast with
  | error e => rw [hc] at h; cases h
  | ok o =>
    rw [hc] at h
    simp only [SsbScript.CompileOut.toSet] at h
    cases ha : SsbScript.allSome o.infos with
    | none => rw [ha] at h; cases h
    | some infos =>
      rw [ha] at h
      simp only [Except.ok.injEq] at h
      subst h
      have := SsbScript.Cl.compileRaw_closed ast o hm hi hc
      simpa [allSome_length _ _ ha] using this

/-- the same for the model with the routine id check of repo commit 418dd8e in front (`_enlarge_routine_info` raises
unless `0 ≤ id ≤ len(routine_infos)`), which is what the harness compares with the real SsbScript compiler -/
theorem ssbscript_compile_checked_closed (ast : List SsbScript.SRoutine) (c : SsbScript.CompileOut)
    (hm : SsbScript.Cl.MarkersLast ast) (hi : SsbScript.Cl.IdsFresh ast) (h : SsbScript.Cl.compileRawChecked ast = .ok c) :
    SsbScript.Cl.ClosedTables c.infos.length c.coros.length c.ops :=
  SsbScript.Cl.compileRawChecked_closed ast c hm hi h

/-- SsbScript `def 0 { Jump(7); }`: the integer is copied, the result is not closed -/
theorem ssbscript_marker_counterexample :
    ∃ x, SsbScript.compile [⟨.simple 0, some [.op "Jump" [.param (.int 7)]]⟩] = .ok x ∧
      ¬ SsbScript.Cl.ClosedTables x.infos.length x.coros.length x.ops :=
  ⟨⟨[⟨.generic, 0, none⟩], [[⟨0, "Jump", [.int 7]⟩]], [none]⟩, by decide, by decide⟩

/-- SsbScript `def 0 { @a; foo(); } def 0 { Jump(@a); }`: the second definition replaces the ops of routine 0, label `a`
keeps the offset of the vanished `foo` -/
theorem ssbscript_repeated_id_counterexample :
    ∃ x, SsbScript.compile [⟨.simple 0, some [.label "a", .op "foo" []]⟩, ⟨.simple 0, some [.op "Jump" [.jump "a"]]⟩] = .ok x ∧
      ¬ SsbScript.Cl.ClosedTables x.infos.length x.coros.length x.ops :=
  ⟨⟨[⟨.generic, 0, none⟩], [[⟨1, "Jump", [.int 0]⟩]], [none]⟩, by decide, by decide⟩

example : SsbScript.Cl.MarkersLast [⟨.simple 1, some [.op "Jump" [.jump "a"]]⟩, ⟨.simple 0, some [.label "a", .op "foo" []]⟩] ∧
    SsbScript.Cl.IdsFresh [⟨.simple 1, some [.op "Jump" [.jump "a"]]⟩, ⟨.simple 0, some [.label "a", .op "foo" []]⟩] := by decide

/-! ### non-vacuity -/

/-- `def 0 { a(); if (debug) { jump @x; } @x; }  def 1 { jump @x; }`: a label at the end of a routine, jumped to by a
branch (lone-jump shortcut) and from another routine -/
def exProg : Program :=
  ⟨[], [],
   [⟨some 0, "GENERIC:0:", none,
      .cons (.op "a" []) (.cons (.ite false [⟨false, "BranchDebug", [.int 1]⟩] (.cons (.jump "x") .nil) .nil false .nil)
        (.cons (.label "x") .nil))⟩,
    ⟨some 1, "GENERIC:0:", none, .cons (.jump "x") .nil⟩]⟩

example : NoUserJumpOps exProg := by decide

example : compile exProg = .ok ⟨[some "GENERIC:0:", some "GENERIC:0:"], [none, none],
    [[⟨1, "a", []⟩, ⟨2, "BranchDebug", [.int 1, .int 5]⟩, ⟨5, "Return", []⟩], [⟨6, "Jump", [.int 5]⟩]]⟩ := by decide

example : (match compile exProg with
    | .ok c => decide (Closed c)
    | .error _ => false) = true := by decide

/-- a macro with a parameter, a label and `return`, expanded twice -/
def exMacro : Program :=
  ⟨[⟨"m", ["$a"], .cons (.op "x" [.const "$a"]) (.cons (.jump "q") (.cons (.label "q") (.cons .ret .nil)))⟩], ["m"],
   [⟨some 0, "GENERIC:0:", none, .cons (.macroCall "m" [.int 1]) (.cons (.macroCall "m" [.int 2]) .nil)⟩]⟩

example : NoUserJumpOps exMacro := by decide
example : (match compile exMacro with
    | .ok c => decide (Closed c) && c.ops.flatten.length == 3
    | .error _ => false) = true := by decide

/-- arbitrary labelled code for the back-end theorem: a jump over a removed jump into the next routine -/
example : DistinctOffsets [[.ljump ⟨1, "Branch", [.int 1]⟩ (some 0), .ljump ⟨2, "Jump", []⟩ (some 0), .label 0 false], [.op ⟨3, "Return", []⟩]] ∧
    backend [[.ljump ⟨1, "Branch", [.int 1]⟩ (some 0), .ljump ⟨2, "Jump", []⟩ (some 0), .label 0 false], [.op ⟨3, "Return", []⟩]]
      = .ok [[⟨1, "Return", []⟩, ⟨2, "Return", []⟩], [⟨3, "Return", []⟩]] := by decide

end ESV.C03
