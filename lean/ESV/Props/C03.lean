import ESV.Comp.Backend
namespace ESV.C03
end ESV.C03
