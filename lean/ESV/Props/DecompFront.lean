import ESV.Decomp.Sem
import ESV.Decomp.ResolveTotal
import ESV.Decomp.ResolveStep
import ESV.Decomp.ResolveNames
import ESV.Decomp.GraphFinal
import ESV.Decomp.GraphCounter
/-
Front phases of the ExplorerScript decompiler (label resolution and base control-flow graph): what they
guarantee for ALL routine sets.  Statements only; helper lemmas live in ESV/Decomp/*Lemmas.lean.
-/
namespace ESV.DecompFront
open ESV.Beh ESV.Decomp

/-- **Totality of label resolution** (the only part of `ExplorerScriptSsbDecompiler.convert` that runs outside
its `try`): on every well-formed routine set `OpsLabelJumpToResolver` raises nothing. -/
theorem resolve_total (rs : List (List MOp)) (h : wfSet rs = true) : ∃ r, resolve rs = .ok r :=
  resolve_total' rs h

/-- **Label resolution preserves behaviour**: for every well-formed routine set, every routine of the
resolver's output (labels are silent, a label jump goes to its label) performs exactly the operations and
tests of the input routine on the SSB machine, for every outcome of every test. -/
theorem resolve_preserves (rs : List (List MOp)) (h : wfSet rs = true) (r : Resolved) (hr : resolve rs = .ok r)
    (k : Nat) :
    Equivalent (Machine.lts ⟨flatten rs⟩) r.machine.lts ((⟨flatten rs⟩ : Machine).entry k) (r.machine.entry k) :=
  resolve_preserves' rs h r hr k

/-- **The base graph is the control flow of the routine**: whenever `SsbGraphMinimizer.__init__` builds a graph
for a routine (no exception), following the graph's edges performs exactly the operations and tests of the
routine's item list (in isolation: leaving for a label of another routine is a final event), for every
outcome of every test - for every routine in which neither a jump target nor a guaranteed-jump op
(JumpCommon) stands directly behind a context op (`ctxGuard`; shown necessary by the real input
`[…, object(X), JumpCommon(7), Return(-1)]`, on which the builder gives JumpCommon no fall-through edge) and whose
item names are what the resolver produces (`namesGuard`, which `resolve_names` below discharges for every
resolver output; shown necessary by ESV.Decomp.opJump_counterexample / ljumpGuaranteed_counterexample /
ljumpEndFlow_counterexample). -/
theorem baseGraph_preserves (labels : List Lbl) (opt : Bool) (rid : Nat) (items : List Item) (g : Graph)
    (hg : baseGraph labels opt rid items = .ok g) (hguard : ctxGuard items = true)
    (hnames : namesGuard items = true) :
    Equivalent (RMachine.lts ⟨labels, rid, items⟩) g.lts (0 : Nat) (0 : Nat) :=
  baseGraph_equivalent labels opt rid items g hg hguard hnames

/-- the resolver's output only contains the item names the graph theorem asks for -/
theorem resolve_names (rs : List (List MOp)) (r : Resolved) (h : resolve rs = .ok r) :
    ∀ rt ∈ r.rtns, namesGuard rt = true := resolve_namesGuard rs r h

/-- non-vacuity: a routine set with a test, a backward cross-routine jump and a call is well-formed, resolves, and
the second routine's jump is marked as leaving for a label of routine 0 -/
def exSet : List (List MOp) :=
  [[⟨0, "Branch", [.int 1, .int 2, .int 4]⟩, ⟨2, "Call", [.int 4]⟩, ⟨4, "Return", []⟩], [⟨7, "Jump", [.int 2]⟩]]
example : wfSet exSet = true := by decide
example : (match resolve exSet with | .ok r => r.labels | .error _ => []) = [⟨4, 0, 0, false⟩, ⟨2, 1, 0, true⟩] := by decide

/-- the successors `_get_edges__get_next_for` returns for item `i` at flow level `lv` (none on an exception) -/
def nextForSuccs (opt : Bool) (items : List Item) (lv i : Nat) : List (Nat × Nat) :=
  match nextFor [] opt 0 items ⟨items.map .item, []⟩ lv i with
  | .ok (S, _) => S
  | .error _ => []

/-- a context op, a `Hold` directly behind it, a flow-ending op directly behind the `Hold`
(`with (object 10) { hold; } end;`) -/
def exHold : List Item :=
  [.op ⟨0, "object", [.int 10]⟩, .op ⟨1, "Hold", []⟩, .op ⟨2, "End", []⟩]

/-- **A `Hold` behind a context op has ONE fall-through successor**: behind a context op the flow continues at the
next op anyway, so the `Hold` look-ahead (a flow-ending op directly behind the `Hold` is still visited) adds
nothing - the successor `(lv, i+1)` is there exactly once, at every flow level (before the repair of
`_get_edges__get_next_for` it was there twice, the `Hold` got two identical out-edges and the decompiler gave up on
this routine). -/
theorem nextFor_hold_once (lv : Nat) :
    nextForSuccs true exHold lv 1 = [(lv, 2)] ∧ (nextForSuccs true exHold lv 1).count (lv, 2) = 1 := by
  have h : nextForSuccs true exHold lv 1 = [(lv, 2)] := by
    simp [nextForSuccs, nextFor, exHold, prevItem, realName, itemName, ESV.Gen.opsCtx, ESV.Gen.opsJumpGuaranteed,
      ESV.Gen.opsEndFlow, ESV.Gen.op_hold]
  rw [h]; simp

example : nextForSuccs true exHold 0 1 = [(0, 2)] := by decide
example : (nextForSuccs true exHold 0 1).count (0, 2) = 1 := by decide
/-- the look-ahead itself is kept: without the context op in front, `End` behind the `Hold` is still reached, once -/
example : nextForSuccs true [.op ⟨0, "foo", []⟩, .op ⟨1, "Hold", []⟩, .op ⟨2, "End", []⟩] 0 1 = [(0, 2)] := by decide
/-- and a `Hold` whose successor does not end the flow has no successor when endings are optimized -/
example : nextForSuccs true [.op ⟨0, "foo", []⟩, .op ⟨1, "Hold", []⟩, .op ⟨2, "foo", []⟩] 0 1 = [] := by decide

end ESV.DecompFront
