import ESV.Decomp.Sem
import ESV.Decomp.ResolveTotal
import ESV.Decomp.ResolveStep
import ESV.Decomp.ResolveNames
import ESV.Decomp.GraphFinal
import ESV.Decomp.GraphCounter
/-
Front phases of the ExplorerScript decompiler (label resolution and base control-flow graph): what they
guarantee for ALL routine sets.  Statements only; helper lemmas live in ESV/Decomp/*Lemmas.lean.
-/
namespace ESV.DecompFront
open ESV.Beh ESV.Decomp

/-- **Totality of label resolution** (the only part of `ExplorerScriptSsbDecompiler.convert` that runs outside
its `try`): on every well-formed routine set `OpsLabelJumpToResolver` raises nothing. -/
theorem resolve_total (rs : List (List MOp)) (h : wfSet rs = true) : ∃ r, resolve rs = .ok r :=
  resolve_total' rs h

/-- **Label resolution preserves behaviour**: for every well-formed routine set, every routine of the
resolver's output (labels are silent, a label jump goes to its label) performs exactly the operations and
tests of the input routine on the SSB machine, for every outcome of every test. -/
theorem resolve_preserves (rs : List (List MOp)) (h : wfSet rs = true) (r : Resolved) (hr : resolve rs = .ok r)
    (k : Nat) :
    Equivalent (Machine.lts ⟨flatten rs⟩) r.machine.lts ((⟨flatten rs⟩ : Machine).entry k) (r.machine.entry k) :=
  resolve_preserves' rs h r hr k

/-- **The base graph is the control flow of the routine**: whenever `SsbGraphMinimizer.__init__` builds a graph
for a routine (no exception), following the graph's edges performs exactly the operations and tests of the
routine's item list (in isolation: leaving for a label of another routine is a final event), for every
outcome of every test - for every routine in which neither a jump target nor a guaranteed-jump op
(JumpCommon) stands directly behind a context op (`ctxGuard`; shown necessary by the real input
`[…, object(X), JumpCommon(7), Return(-1)]`, on which the builder gives JumpCommon no fall-through edge) and whose
item names are what the resolver produces (`namesGuard`, which `resolve_names` below discharges for every
resolver output; shown necessary by ESV.Decomp.opJump_counterexample / ljumpGuaranteed_counterexample /
ljumpEndFlow_counterexample). -/
theorem baseGraph_preserves (labels : List Lbl) (opt : Bool) (rid : Nat) (items : List Item) (g : Graph)
    (hg : baseGraph labels opt rid items = .ok g) (hguard : ctxGuard items = true)
    (hnames : namesGuard items = true) :
    Equivalent (RMachine.lts ⟨labels, rid, items⟩) g.lts (0 : Nat) (0 : Nat) :=
  baseGraph_equivalent labels opt rid items g hg hguard hnames

/-- the resolver's output only contains the item names the graph theorem asks for -/
theorem resolve_names (rs : List (List MOp)) (r : Resolved) (h : resolve rs = .ok r) :
    ∀ rt ∈ r.rtns, namesGuard rt = true := resolve_namesGuard rs r h

/-- non-vacuity: a routine set with a test, a backward cross-routine jump and a call is well-formed, resolves, and
the second routine's jump is marked as leaving for a label of routine 0 -/
def exSet : List (List MOp) :=
  [[⟨0, "Branch", [.int 1, .int 2, .int 4]⟩, ⟨2, "Call", [.int 4]⟩, ⟨4, "Return", []⟩], [⟨7, "Jump", [.int 2]⟩]]
example : wfSet exSet = true := by decide
example : (match resolve exSet with | .ok r => r.labels | .error _ => []) = [⟨4, 0, 0, false⟩, ⟨2, 1, 0, true⟩] := by decide

end ESV.DecompFront
