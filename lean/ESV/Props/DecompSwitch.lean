import ESV.Decomp.SwLoop
import ESV.Decomp.SwGroupFinal
import ESV.Decomp.SwCounterThm
import ESV.Decomp.SwFuel
import ESV.Props.DecompGroup
/-
`build_and_group_switch_cases` and `group_switch_cases`, the fifth and sixth rewriting phase of the decompiler (model
lean/ESV/Decomp/Switch.lean; the heuristic join search of the first one is an ORACLE INPUT, as in `build_branches`), and the
bridge from the flag-based reading `stepB` to the reading `stepS` that knows switches (lean/ESV/Decomp/SemS.lean: a vertex with a
`SwitchStart` marker emits its op and performs the case tests of its out-edges in ascending `index` order, then takes its else
edge).  Statements only; every hypothesis is a decidable predicate (lean/ESV/Decomp/SwGuard.lean) that the harness evaluates on
the real graphs and the recorded real answers on every run.
-/
namespace ESV.DecompFront
open ESV.Beh ESV.Decomp

/-- **bridge**: on a graph without switch markers the two readings are LITERALLY the same step function -/
theorem stepS_agrees (g : BGraph) (h : noSwitchMarks g = true) : g.stepS = g.stepB :=
  ESV.Decomp.Sw.stepS_eq_stepB g (ESV.Decomp.Sw.noSwitch_of_marks g h)

/-- **`build_and_group_switch_cases` preserves behaviour**: for EVERY list of answers of the unmodelled search and every graph
that has not been through the phase yet (`noSwitchMarks`; `buildSwitchCases_marks_counterexample`) and in which what a vertex
reads from its out-edges is determined - edges of one level-read vertex and flow level, of one if and flag, lead to one vertex
(`lvlDet`, `flagDet`; `buildSwitchCases_levels_counterexample`, `buildSwitchCases_flags_counterexample`) -, such that at
every switch op the phase processes (`switchAnswersOk`, evaluated on the graph at that moment):
* the op is not marked for deletion, falls through to the target of its FIRST out-edge in igraph's order, and its out-edges are
  plain (`chainOk`; `buildSwitchCases_first_edge_counterexample`, `buildSwitchCases_flagged_edge_counterexample`);
* every case vertex merged into it is a plain test, not vertex 0, without flagged out-edge (`caseVertexOk`;
  `buildSwitchCases_start_vertex_counterexample`, `buildSwitchCases_case_else_counterexample`), and every edge into it comes from
  a vertex that is deleted as well or is not read by its source (`inDead`; `buildSwitchCases_in_edge_counterexample`);
* every Jump the answer makes the phase by-pass is a plain Jump, not vertex 0, with exactly one in-edge, all of whose
  out-edges lead to the end label (`jumpOkS`; `buildSwitchCases_second_in_edge_counterexample`,
  `buildSwitchCases_jump_start_counterexample`, `buildSwitchCases_other_target_counterexample`):
whenever the phase answers, the graph after it, read with switches, behaves like the graph before it, from the routine's first
vertex (vertex 0 stays vertex 0). -/
theorem buildSwitchCases_preserves (answers : List (Option (List Nat))) (g g' : BGraph)
    (hs : switchStructOk g = true) (ha : switchAnswersOk answers g = true) (h : buildSwitchCases answers g = .ok g') :
    Equivalent g.ltsB g'.ltsS (0 : Nat) (0 : Nat) :=
  ESV.Decomp.Sw.buildSwitchCases_equiv answers g g' hs ha h

/-- **`group_switch_cases` preserves behaviour**: for every graph in which the readings are determined (`lvlDet`, `flagDet`,
`elseDet`: the else edges of one switch lead to one vertex, `idxDet`: two case tests of one switch with the same index are
the same test) and no else edge of a switch carries case tests (`elseNoOps`; `groupSwitchCases_else_ops_counterexample`):
whenever the phase answers, the step function on (vertex, next test) pairs is unchanged - in particular the ORDER of the case
tests, which `stepS` reads off their `index`, not off the edges.  (The four determinacy clauses make the readings functions of
the SET of out-edges, which is how the proof goes; they hold on every real graph, and no counterexample exists for them: the
phase keeps the relative order of the edges it keeps.) -/
theorem groupSwitchCases_preserves (g g' : BGraph) (hs : groupSwStructOk g = true) (h : groupSwitchCases g = .ok g') :
    Equivalent g.ltsS g'.ltsS (0 : Nat) (0 : Nat) :=
  ESV.Decomp.Sw.groupSwitchCases_equiv g g' hs h

/-- **The modelled front of the decompiler through `group_switch_cases`** (one routine in isolation): the graph that leaves
`group_switch_cases`, read with switches, behaves like the routine's item list the resolver produced - whenever all eight
phases answer, under the guards of `front_through_invert_preserve` and the decidable hypotheses of the two theorems above on the
graphs `ib` (after `invert_branches`) and `sc` (after `build_and_group_switch_cases`). -/
theorem front_through_switch_preserve (labels : List Lbl) (opt : Bool) (rid : Nat) (items : List Item)
    (g g' : Graph) (names : List (Option Nat)) (answers : List (Option (Nat × Nat))) (b gb ib : BGraph)
    (swAnswers : List (Option (List Nat))) (sc gs : BGraph)
    (hg : baseGraph labels opt rid items = .ok g) (hguard : ctxGuard items = true)
    (hnames : namesGuard items = true) (hns : noSilentCycle g = true)
    (ho : optimizePaths labels g = .ok g')
    (ha : answersOk answers (BGraph.ofGraph names g') = true)
    (hb : buildBranches answers (BGraph.ofGraph names g') = .ok b)
    (hbr : bridgeOk b = true) (hgd : groupDelOk b = true)
    (hgb : groupBranches b = .ok gb) (hib : invertBranches gb = .ok ib)
    (hss : switchStructOk ib = true) (hsa : switchAnswersOk swAnswers ib = true)
    (hsc : buildSwitchCases swAnswers ib = .ok sc)
    (hgss : groupSwStructOk sc = true) (hgs : groupSwitchCases sc = .ok gs) :
    Equivalent (RMachine.lts ⟨labels, rid, items⟩) gs.ltsS (0 : Nat) (0 : Nat) := by
  have h1 := front_through_invert_preserve labels opt rid items g g' names answers b gb ib hg hguard hnames hns ho ha hb hbr hgd
    hgb hib
  have h2 := buildSwitchCases_preserves swAnswers ib sc hss hsa hsc
  have h3 := groupSwitchCases_preserves sc gs hgss hgs
  exact Equivalent.trans (Equivalent.trans h1 h2) h3

/-- the fuel of the case loop (`|E| + 2` rounds) is never the reason for an answer: the Python `while next_vertex is … a case`
loop terminates - a round that goes on makes the graph one edge smaller -/
theorem casePart_never_fuel (g : BGraph) (v n : Nat) (cases : List String) (delH : List Nat) :
    g.casePart v n cases delH ≠ .error "Hang" :=
  ESV.Decomp.Sw.casePart_never_hang g v n cases delH

/-- vertex count, switch markers, edges (source, target, else flag, indices of the case tests), end markers -/
def swSummary (r : Except String BGraph) : Nat × List (Option Nat) × List (Nat × Nat × Bool × List Nat) × List (List Nat) :=
  match r with
  | .ok g => (g.vs.length, g.vs.map (·.switchStart), g.es.map (fun e => (e.src, e.dst, e.isElse, e.switchOps.map (·.2.1))),
      g.vs.map (·.switchEnds))
  | .error _ => (0, [], [], [])

/-- non-vacuity: `switch { case: Foo; break  case: Bar; break } Baz` - the hypotheses hold, the two case tests are merged into
the switch op (vertices 1 and 2 are deleted), the two Jumps in front of the end label are by-passed and deleted, the end label
carries `SwitchEnd(0)` -/
def exSwitch : BGraph :=
  { vs := [sOp 0 0 "Switch", sLj 1 1 "Case", sLj 2 2 "CaseValue", sLab 3 1, sOp 4 3 "Foo", sLj 5 4 "Jump", sLab 6 2, sOp 7 5 "Bar",
           sLj 8 6 "Jump", sLab 9 3, sOp 10 7 "Baz"],
    es := [sE 0 1 0, sE 1 3 1, sE 1 2 0, sE 2 6 1, sE 2 9 0, sE 3 4 0, sE 4 5 0, sE 5 9 1, sE 6 7 0, sE 7 8 0, sE 8 9 1, sE 9 10 0] }
example : switchStructOk exSwitch = true ∧ switchAnswersOk [some [2, 5, 9]] exSwitch = true := by decide
example : swSummary (buildSwitchCases [some [2, 5, 9]] exSwitch) =
    (7, [some 0, none, none, none, none, none, none],
      [(1, 2, false, []), (3, 4, false, []), (5, 6, false, []), (0, 1, false, [0]), (0, 3, false, [1]), (0, 5, true, []),
        (2, 5, false, []), (4, 5, false, [])],
      [[], [], [], [], [], [0], []]) := by rfl

/-- non-vacuity: two cases with the same body are merged into one edge with both tests -/
def exGroupSw : BGraph :=
  { vs := [sSw 0 0 "Switch" 0, sOp 1 1 "Foo", sOp 2 2 "Bar"],
    es := [sE 0 1 1 false [(0, 0, ⟨10, "Case", []⟩)], sE 0 2 1 false [(0, 1, ⟨11, "CaseValue", []⟩)],
           sE 0 1 1 false [(0, 2, ⟨12, "CaseVariable", []⟩)], sE 0 2 0 true] }
example : groupSwStructOk exGroupSw = true := by decide
example : swSummary (groupSwitchCases exGroupSw) =
    (3, [some 0, none, none], [(0, 2, true, [1]), (0, 1, false, [2, 0])], [[], [], []]) := by rfl

end ESV.DecompFront
