import ESV.SsbScript.Canon
/-
C07 — SsbScript is a lossless spelling of SSB ops.  Property statements only; model in ESV/SsbScript/Model.lean,
lemmas in ESV/SsbScript/{Lemmas,RoundTrip,Canon}.lean.

The model works on the statement AST of SsbScript; printing/lexing of literals and names is outside (C04 /
differential text↔AST check in harness/props/c07.py).
-/
namespace ESV.C07
open ESV ESV.SsbScript

/-- `y ≅ x`: the reading of the property on two routine sets (y = what came back, x = what went in). -/
structure Iso (y x : RoutineSet) : Prop where
  /-- same number of routines -/
  infos_len : y.infos.length = x.infos.length
  ops_len : y.ops.length = x.ops.length
  /-- same kinds -/
  kinds : ∀ i : Nat, (y.infos[i]?).map RoutineInfo.kind = (x.infos[i]?).map RoutineInfo.kind
  /-- same targets (routines that have one) -/
  targets : ∀ (i : Nat) (a b : RoutineInfo), x.infos[i]? = some a → y.infos[i]? = some b →
    a.kind = .actor ∨ a.kind = .object ∨ a.kind = .performer →
    b.linkedTo = a.linkedTo ∧ b.linkedToName = a.linkedToName
  /-- same coroutine names -/
  coros : ∀ (i : Nat) (a : RoutineInfo), x.infos[i]? = some a → a.kind = .coroutine → y.coros[i]? = x.coros[i]?
  /-- same number of ops in every routine -/
  shape : y.ops.map List.length = x.ops.map List.length
  /-- the compiled offsets identify ops -/
  offsets_unique : y.offsets.Nodup
  /-- the k-th op of the file: same opcode, equal parameters at every position but the jump parameter, and the jump
  parameter of `y`'s op is the offset of the op of `y` that stands where the target of `x`'s op stands in `x` -/
  ops : ∀ (k : Nat) (a b : Op), x.flat[k]? = some a → y.flat[k]? = some b →
    b.name = a.name ∧
    match jumpIdx a.name with
    | none => b.params = a.params
    | some idx =>
      b.params.length = a.params.length ∧ (∀ i : Nat, i ≠ idx → b.params[i]? = a.params[i]?) ∧
      ∃ (t v : Int), a.params[idx]? = some (Param.int t) ∧ b.params[idx]? = some (Param.int v) ∧
        ∃ (j : Nat) (c d : Op), y.flat[j]? = some c ∧ c.offset = v ∧ x.flat[j]? = some d ∧ d.offset = t

/-- the expected result is ≅ the input -/
theorem canon_iso (x : RoutineSet) (h : WF' x) : Iso (canon x) x := by
  obtain ⟨hl1, hl2, hsorted, hjump, hinfo⟩ := h
  have hflat : (canon x).flat = renumFrom x.offsets 0 x.flat := by
    simp only [canon, RoutineSet.flat, flatten_renumRoutines]
  constructor
  · rfl
  · exact renumRoutines_length _ _ _
  · intro i; rfl
  · intro i a b ha hb _
    have : (canon x).infos = x.infos := rfl
    rw [this, ha] at hb
    cases hb; exact ⟨rfl, rfl⟩
  · intro i a ha hk
    simp only [canon, List.getElem?_zipWith, ha]
    cases x.coros[i]? with
    | none => rfl
    | some c => simp [canonCoro, hk]
  · exact renumRoutines_shape _ _ _
  · have : (canon x).offsets = (renumFrom x.offsets 0 x.flat).map (·.offset) := by
      simp only [RoutineSet.offsets, hflat]
    rw [this]
    exact sorted_nodup _ (renumFrom_sorted _ _ _)
  · intro k a b ha hb
    rw [hflat, renumFrom_getElem?, ha] at hb
    simp only [Option.map_some, Nat.zero_add, Option.some.injEq] at hb
    subst hb
    refine ⟨rfl, ?_⟩
    have hj := hjump a (List.mem_of_getElem? ha)
    unfold jumpOK at hj
    cases hji : jumpIdx a.name with
    | none => simp [renumOp, hji]
    | some idx =>
      rw [hji] at hj
      simp only [Bool.and_eq_true, beq_iff_eq] at hj
      obtain ⟨hlen, hp⟩ := hj
      cases hpi : a.params[idx]? with
      | none => rw [hpi] at hp; cases hp
      | some p =>
        rw [hpi] at hp
        cases p with
        | int t =>
          simp only at hp
          have htm : t ∈ x.offsets := by simpa using hp
          have hsplit := eq_eraseIdx_append a.params idx (.int t) hlen hpi
          have hlen' : (a.params.eraseIdx idx).length = idx := by
            have := congrArg List.length hsplit
            simp only [List.length_append, List.length_cons, List.length_nil] at this
            omega
          simp only [renumOp, hji, hpi]
          refine ⟨?_, ?_, t, (x.offsets.idxOf t : Nat), rfl, ?_, ?_⟩
          · simp only [List.length_append, List.length_cons, List.length_nil]; omega
          · intro i hi
            rw [hsplit]
            have hsplit' : (a.params.eraseIdx idx ++ [Param.int t]).eraseIdx idx = a.params.eraseIdx idx := by
              rw [← hsplit]
            rw [hsplit']
            by_cases hlt : i < idx
            · rw [List.getElem?_append_left (by omega), List.getElem?_append_left (by omega)]
            · rw [List.getElem?_eq_none (by simp; omega), List.getElem?_eq_none (by simp; omega)]
          · rw [List.getElem?_append_right (by omega)]
            simp [hlen']
          · have hlt : x.offsets.idxOf t < x.offsets.length := List.idxOf_lt_length_of_mem htm
            have hlt' : x.offsets.idxOf t < x.flat.length := by simpa [RoutineSet.offsets] using hlt
            refine ⟨x.offsets.idxOf t, renumOp x.offsets (x.offsets.idxOf t) x.flat[x.offsets.idxOf t], x.flat[x.offsets.idxOf t], ?_, rfl, ?_, ?_⟩
            · rw [hflat, renumFrom_getElem?, List.getElem?_eq_getElem hlt']
              simp
            · exact List.getElem?_eq_getElem hlt'
            · have := List.getElem_idxOf hlt
              simp only [RoutineSet.offsets, List.getElem_map] at this
              exact this
        | fixed _ => cases hp
        | const _ => cases hp
        | constString _ => cases hp
        | langString _ => cases hp
        | posMark _ _ _ _ _ => cases hp

/-- compile ∘ decompile on a well-formed routine set is exactly the renumbered routine set -/
theorem roundtrip_eq_canon (x : RoutineSet) (h : WF' x) :
    ∃ ast, decompile x = .ok ast ∧ compile ast = .ok (canon x) :=
  roundtrip_canon x h

/-- **C07.** For every well-formed routine set, decompiling to SsbScript and compiling the result succeeds and
yields the same routine set: same routine count, kinds, targets, coroutine names, the same ops in the same order
with equal parameters, every jump parameter denoting the corresponding op. -/
theorem ssbscript_roundtrip (x : RoutineSet) (h : WF' x) :
    ∃ ast y, decompile x = .ok ast ∧ compile ast = .ok y ∧ Iso y x := by
  obtain ⟨ast, h1, h2⟩ := roundtrip_canon x h
  exact ⟨ast, canon x, h1, h2, canon_iso x h⟩

/-- the decompiler raises nothing on a well-formed routine set -/
theorem decompile_ok (x : RoutineSet) (h : WF' x) : ∃ ast, decompile x = .ok ast := by
  obtain ⟨ast, h1, _⟩ := roundtrip_canon x h
  exact ⟨ast, h1⟩

/-- Label ids are an implementation detail: on every AST (not only decompiler output) the compiler returns what a
compiler keyed by label names returns — `label_offsets[_collected_labels[name].id]` is a function of the name. -/
theorem compile_by_name (ast : List SRoutine) : compileRaw ast = compileRawN ast := compileRaw_eq_N ast

/-- Labels resolve to the op they precede; several labels before one op all resolve to it (by-name compiler, hence
by `compile_by_name` the real one). -/
theorem label_resolves_to_next_op (a : NState) (nms : List String) (name : String) (args : List SArg) (nm : String)
    (h : nm ∈ a.pending ++ nms) :
    Dict.get? (runStmtsN a (nms.map SStmt.label ++ [.op name args])).1.offs nm = some (a.total : Int) := by
  rw [runStmtsN_append, runStmtsN_labels]
  simp only [runStmtsN, stmtStepN, setAllN, get?_setMany, List.mem_reverse, h, if_true]

/-- … also across routine boundaries: the label state after a file is the state after the concatenation of all
routine bodies (a label at the end of a routine binds to the first op of the next non-empty routine). -/
theorem label_across_routines (ast : List SRoutine) (a a' : NState) (r r' : RState NItem)
    (h : goG runStmtsN a r ast = .ok (a', r')) :
    a' = (runStmtsN a (ast.flatMap fun rt => rt.body.getD [])).1 := goG_state ast a r a' r' h

/-- an empty routine is written as `alias previous` (and only an empty one) -/
theorem alias_routine (x : RoutineSet) (h : WF' x) (ast : List SRoutine) (hd : decompile x = .ok ast) (i : Nat)
    (r : List Op) (hi : x.ops[i]? = some r) :
    (ast[i]?).map (fun rt => rt.body.isNone) = some r.isEmpty := by
  obtain ⟨hl1, hl2, hsorted, hjump, hinfo⟩ := h
  obtain ⟨ls, hp, _, _, _⟩ := processAll_spec (endOffsets x.ops) x.offsets x.ops 0 [] (by
      have := endOffsetsAux_length x.ops 0
      unfold endOffsets; omega)
    (fun r hr t ht => reach_of_sorted x.ops hsorted r hr t ht) hjump
    (by intro k1 k2 v h1; simp [Dict.get?] at h1)
  simp only [decompile, hp] at hd
  have hb := routinesOf_bodies ls x.coros _ 0 x.infos ast (by simpa using hl1) hd
  have := congrArg (fun l => (l[i]?).map Option.isNone) hb
  simp only [List.getElem?_map, hi, Option.map_some, Option.map_map] at this
  rw [show (ast[i]?).map (fun rt => rt.body.isNone) = Option.map (Option.isNone ∘ fun x => x.body) ast[i]? from rfl, this]
  cases r <;> simp

/-- a jump marker that is not the last argument is dropped (both compilers) -/
theorem jump_marker_not_last_dropped (s : LState) (args : List SArg) (p : Param) :
    (runArgs s (args ++ [.param p])).2.2 = none ∧ (runArgsN (args ++ [.param p])).2 = none :=
  ⟨runArgs_param_last s args p, runArgsN_param_last args p⟩

/-- the renumbering `offset ↦ position` is order preserving … -/
theorem renumber_order_preserving (x : RoutineSet) (h : WF' x) (t1 t2 : Int) (h1 : t1 ∈ x.offsets) (h2 : t2 ∈ x.offsets) :
    t1 < t2 ↔ x.offsets.idxOf t1 < x.offsets.idxOf t2 :=
  sorted_idxOf_lt x.offsets h.2.2.1 t1 t2 h1 h2

/-- … and a bijection between the offsets of `x` and `0 … n-1` -/
theorem renumber_bijective (x : RoutineSet) (h : WF' x) :
    (∀ t ∈ x.offsets, x.offsets.idxOf t < x.offsets.length) ∧
    (∀ t1 ∈ x.offsets, ∀ t2 ∈ x.offsets, x.offsets.idxOf t1 = x.offsets.idxOf t2 → t1 = t2) ∧
    (∀ j, j < x.offsets.length → ∃ t ∈ x.offsets, x.offsets.idxOf t = j) := by
  have hn := sorted_nodup _ h.2.2.1
  refine ⟨fun t ht => List.idxOf_lt_length_of_mem ht, ?_, ?_⟩
  · intro t1 h1 t2 h2 e
    have i1 := List.idxOf_lt_length_of_mem h1
    have i2 := List.idxOf_lt_length_of_mem h2
    have e1 : x.offsets[x.offsets.idxOf t1] = t1 := List.getElem_idxOf i1
    have e2 : x.offsets[x.offsets.idxOf t2] = t2 := List.getElem_idxOf i2
    rw [← e1, ← e2]
    simp only [e]
  · intro j hj
    exact ⟨x.offsets[j], List.getElem_mem hj, hn.idxOf_getElem j hj⟩

/-- table lemma (regenerated table): opcode names in OPS_WITH_JUMP_TO_MEM_OFFSET are unique, so the association
list lookup `jumpIdx` is the dict lookup -/
theorem jump_table_wellformed : (Dict.keys Gen.opsWithJump).Nodup := by decide

/-! ### routine ids (repair "the SsbScript compiler crashed on negative and far too large routine ids") -/

/-- `def N` / `def N for …` with `N < 0` or `N > len(routine_infos)` raises SsbCompilerError (for `coro` the checked id
is the previous id + 1) -/
theorem routine_id_checked {ι : Type} (r : RState ι) (id : Int) (items : List ι)
    (h : id < 0 ∨ id > (r.infos.length : Int)) :
    exitDef r (.simple id) items = .error .ssbCompilerError ∧
    ∀ w t, exitDef r (.forTarget id w t) items = .error .ssbCompilerError := by
  have he : enlarge { r with active := id } = .error .ssbCompilerError := enlarge_rejects _ h
  refine ⟨?_, fun w t => ?_⟩ <;> simp only [exitDef, he]

/-- consequently no routine slot stays unassigned: every successful compile is a routine set (the `gap` outcome of
`CompileOut.toSet` is unreachable from `compileRaw`) -/
theorem compile_result_is_routine_set (ast : List SRoutine) (o : CompileOut) (h : compileRaw ast = .ok o) :
    ∃ y, o.toSet = .ok y := compileRaw_toSet ast o h

/-- `def -1 { a(); }`, `def 1 { a(); }` (gap at 0), `def 0 {…} def 2 {…}` (gap at 1) -/
theorem routine_id_rejected_examples :
    compileRaw [⟨.simple (-1), some [.op "a" []]⟩] = .error .ssbCompilerError ∧
    compileRaw [⟨.simple 1, some [.op "a" []]⟩] = .error .ssbCompilerError ∧
    compileRaw [⟨.simple 0, some [.op "a" []]⟩, ⟨.forTarget 2 "actor" (.int 3), some [.op "b" []]⟩] = .error .ssbCompilerError := by
  decide +kernel

/-- Outside the quantifier of C07 (decompiler output never repeats an id), recorded because the model reproduces the
implementation exactly: a routine id defined twice keeps only the second body, but the op counter and the label
table keep running — `def 0 { @a; foo(); } def 0 { Jump(@a); }` compiles to the single op `Jump[0]` at offset 1, whose
target (offset 0) is not an op of the result. -/
theorem repeated_routine_id_example :
    compileRaw [⟨.simple 0, some [.label "a", .op "foo" []]⟩, ⟨.simple 0, some [.op "Jump" [.jump "a"]]⟩] =
      .ok ⟨[some ⟨.generic, 0, none⟩], [[⟨1, "Jump", [.int 0]⟩]], [none]⟩ := by
  decide +kernel

/-! ### why the clauses of `WF'` are there: concrete witnesses -/

/-- jump parameter not last: `Branch(1, 2, →0, 9)` comes back as `Branch(1, 2, 9, →0)` -/
def exNotLast : RoutineSet :=
  ⟨[⟨.generic, 0, none⟩], [[⟨0, "Branch", [.int 1, .int 2, .int 0, .int 9]⟩]], [none]⟩

theorem jump_not_last_counterexample :
    ¬ WF' exNotLast ∧
    (decompile exNotLast).bind compile =
      .ok ⟨[⟨.generic, 0, none⟩], [[⟨0, "Branch", [.int 1, .int 2, .int 9, .int 0]⟩]], [none]⟩ := by
  decide +kernel

/-- `def N` has no target: a GENERIC routine with `linked_to = 7` comes back with 0 -/
def exGenericLinked : RoutineSet := ⟨[⟨.generic, 7, none⟩], [[⟨0, "Return", []⟩]], [none]⟩

theorem generic_target_lost_counterexample :
    ¬ WF' exGenericLinked ∧
    (decompile exGenericLinked).bind compile = .ok ⟨[⟨.generic, 0, none⟩], [[⟨0, "Return", []⟩]], [none]⟩ := by
  decide +kernel

/-- a named target replaces the number: `(4, "ACT")` comes back as `(-1, "ACT")` -/
def exNamedNumber : RoutineSet := ⟨[⟨.actor, 4, some "ACT"⟩], [[]], [none]⟩

theorem named_target_number_lost_counterexample :
    ¬ WF' exNamedNumber ∧
    (decompile exNamedNumber).bind compile = .ok ⟨[⟨.actor, -1, some "ACT"⟩], [[]], [none]⟩ := by
  decide +kernel

/-- a jump to an offset that is not an op of the set: the label is never written, compilation fails -/
def exDangling : RoutineSet := ⟨[⟨.generic, 0, none⟩], [[⟨0, "Jump", [.int 1]⟩, ⟨2, "Return", []⟩]], [none]⟩

theorem dangling_target_counterexample :
    ¬ WF' exDangling ∧ (decompile exDangling).bind compile = .error .ssbCompilerError := by
  decide +kernel

/-! ### non-vacuity: three routines + a coroutine, jumps across routines in both directions, an alias routine,
a label on the first op of a later routine, a jump to itself -/
def exSet : RoutineSet :=
  { infos := [⟨.generic, 0, none⟩, ⟨.actor, 5, none⟩, ⟨.object, -1, some "OBJ_X"⟩, ⟨.coroutine, 0, none⟩],
    coros := [none, none, none, some "CORO_A"],
    ops := [[⟨10, "Jump", [.int 30]⟩, ⟨12, "foo", [.int 1, .const "C", .constString "hi"]⟩],
            [],
            [⟨30, "Branch", [.int 1, .int 2, .int 10]⟩, ⟨33, "Return", []⟩],
            [⟨40, "Call", [.int 40]⟩, ⟨41, "lives", [.int 3]⟩]] }

example : WF' exSet := by decide
example : (decompile exSet).bind compile = .ok (canon exSet) := by decide +kernel
example : (canon exSet).ops =
    [[⟨0, "Jump", [.int 2]⟩, ⟨1, "foo", [.int 1, .const "C", .constString "hi"]⟩],
     [],
     [⟨2, "Branch", [.int 1, .int 2, .int 0]⟩, ⟨3, "Return", []⟩],
     [⟨4, "Call", [.int 4]⟩, ⟨5, "lives", [.int 3]⟩]] := by decide +kernel
example : (decompile exSet).map (fun ast => ast.map (·.body)) = .ok
    [some [.label "label_1", .op "Jump" [.jump "label_0"], .op "foo" [.param (.int 1), .param (.const "C"), .param (.constString "hi")]],
     none,
     some [.label "label_0", .op "Branch" [.param (.int 1), .param (.int 2), .jump "label_1"], .op "Return" []],
     some [.label "label_2", .op "Call" [.jump "label_2"], .op "lives" [.param (.int 3)]]] := by decide +kernel

end ESV.C07
