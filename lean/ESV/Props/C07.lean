import ESV.SsbScript.Model
namespace ESV.C07
open ESV ESV.SsbScript

def exSet : RoutineSet :=
  { infos := [⟨.generic, 0, none⟩, ⟨.actor, 5, none⟩, ⟨.object, -1, some "OBJ_X"⟩, ⟨.coroutine, 0, none⟩],
    coros := [none, none, none, some "CORO_A"],
    ops := [[⟨10, "Jump", [.int 30]⟩, ⟨12, "foo", [.int 1, .const "C", .constString "hi"]⟩],
            [],
            [⟨30, "Branch", [.int 1, .int 2, .int 10]⟩, ⟨33, "Return", []⟩],
            [⟨40, "Call", [.int 40]⟩, ⟨41, "lives", [.int 3]⟩]] }

example : WF' exSet := by decide
example : (decompile exSet).bind compile = .ok (canon exSet) := by decide +kernel

end ESV.C07
