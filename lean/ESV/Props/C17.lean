import ESV.Pyg.Lemmas
/-
C17 — The highlighting lexer is total and loses no text.
"For every text the Pygments ExplorerScript lexer terminates, the concatenation of the token texts equals the input
(up to the single trailing newline Pygments appends), and for sources accepted by the compiler it emits no error token."

Property statements and final theorems only; the model is ESV/Pyg/Model.lean (Pygments' `Lexer.get_tokens`
preprocessing and the `RegexLexer` loop, one matcher per regex of the regenerated rule table `ESV.Gen.pygRulesC`),
lemmas are in ESV/Pyg/Lemmas.lean.

The literal property is FALSE for the code as it is: `get_tokens` strips a leading U+FEFF, turns "\r\n" and "\r"
into "\n" and strips leading and trailing newlines before lexing (Pygments defaults `stripnl=True`, which the lexer
class does not override).  `highlighting_lexer_partial` proves the full statement under the decidable guard
`Clean`, `no_text_lost_iff` shows the guard is exact, `…_counterexample_*` give concrete witnesses.
-/
namespace ESV.C17
open ESV ESV.Pyg

/-! ## Table lemmas: they tie the theorems to the lexer definition of the repository (regenerated `ESV.Gen`) -/

/-- every regex source string of the rule table has a hand-written matcher, the `re` flags are among the modelled
ones, every state action is absent / '#pop' / an existing state, and there is a 'root' state -/
theorem rules_known : (compile Gen.pygFlags Gen.pygRulesC).isSome = true := by decide +kernel

/-- 'root' and every pushed state cover every character (catch-all `.` under DOTALL, or `[^q]+` with `q`), and no
rule emits the Error token type itself -/
theorem cover_ok : coverOk Gen.pygFlags Gen.pygRulesC Gen.pygTyError = true := by decide +kernel

/-- the lexer instance has the Pygments default options stripnl=True, stripall=False, ensurenl=True, tabsize=0 and
no filters -/
theorem opts_known : opts = defaultOpts := by decide

theorem preprocess_eq (t : Str) : preprocess t = prep0 t := by
  simp only [preprocess, prep0, opts_known]

/-! ## Totality -/

/-- `get_tokens_unprocessed` is total: the model is a structurally recursive function (one loop iteration per unit of
fuel, fuel = length + 1) that has an explicit "no answer" value for the situations in which the real engine would not
advance (a rule matching the empty string) or would raise (missing state), and for running out of fuel.  The theorem
says none of these ever happens: every rule application consumes at least one character. -/
theorem lex_total (t : Str) : ∃ toks, lexRaw t = some toks := by
  have hk := rules_known
  simp only [lexRaw, lexWith]
  cases hc : compile Gen.pygFlags Gen.pygRulesC with
  | none => rw [hc] at hk; simp at hk
  | some ct =>
    have hct := compile_ok _ _ _ hc
    exact lexFuel_total ct hct _ _ _ [root] t (by simp)
      (by intro s hs; simp at hs; rw [hs]; exact hct.root_mem) (by omega)

theorem get_tokens_total (t : Str) : ∃ toks, getTokens t = some toks := lex_total _

/-! ## No text is lost by the lexer proper -/

/-- the token texts of `get_tokens_unprocessed(t)` concatenate to exactly `t` -/
theorem lex_concat (t : Str) (toks : List Tok) (h : lexRaw t = some toks) : concat toks = t := by
  simp only [lexRaw, lexWith] at h
  split at h
  · simp at h
  · exact lexFuel_concat _ _ _ _ _ _ _ h

/-- the token texts of `get_tokens(t)` concatenate to the PREPROCESSED text -/
theorem get_tokens_concat (t : Str) (toks : List Tok) (h : getTokens t = some toks) :
    concat toks = preprocess t := lex_concat _ _ h

/-! ## No Error token, for any text (stronger than asked: not only for sources the compiler accepts) -/

theorem lex_no_error (t : Str) (toks : List Tok) (h : lexRaw t = some toks) :
    ∀ tok ∈ toks, tok.ty ≠ Gen.pygTyError := by
  simp only [lexRaw, lexWith] at h
  split at h
  · simp at h
  · rename_i ct hc
    have hcov := coverOk_covered _ _ _ ct hc cover_ok
    exact lexFuel_no_error ct _ _ _ hcov _ [root] t toks
      (by intro s hs; simp at hs; rw [hs]; exact hcov.root_mem) h

theorem get_tokens_no_error (t : Str) (toks : List Tok) (h : getTokens t = some toks) :
    ∀ tok ∈ toks, tok.ty ≠ Gen.pygTyError := lex_no_error _ _ h

/-! ## Preprocessing: exactly which texts survive -/

/-- `preprocess t` is `t` or `t` plus one newline exactly for the `Clean` texts: "\n" itself, or no leading U+FEFF,
no '\r', no leading '\n' and not ending with two newlines -/
theorem preprocess_spec (t : Str) : (preprocess t = t ∨ preprocess t = t ++ ['\n']) ↔ Clean t = true := by
  rw [preprocess_eq]; exact prep0_spec t

/-- on clean texts the only change is the newline Pygments appends when there is none -/
theorem preprocess_clean (t : Str) (h : Clean t = true) :
    preprocess t = if endsWithNl t then t else t ++ ['\n'] := by
  have hp := (preprocess_spec t).mpr h
  have he : preprocess t = rstripNl (lstripNl (replCR (replCRLF (stripBom t)))) ++ ['\n'] := by
    rw [preprocess_eq]; exact prep0_eq t
  split
  · rename_i hn
    rcases hp with hp | hp
    · exact hp
    · -- t ends with '\n', so t ++ "\n" ends with two newlines, which preprocess never produces
      exfalso
      have h2 : endsWith2Nl (preprocess t) = false := by rw [preprocess_eq]; exact prep0_not2nl t
      rw [hp] at h2
      simp only [endsWithNl, beq_iff_eq] at hn
      rw [← List.head?_reverse] at hn
      cases hr : t.reverse with
      | nil => rw [hr] at hn; simp at hn
      | cons a r =>
        rw [hr] at hn; simp at hn; subst hn
        simp [endsWith2Nl, hr] at h2
  · rename_i hn
    rcases hp with hp | hp
    · exfalso
      rw [he] at hp
      apply hn
      rw [← hp]
      simp [endsWithNl]
    · exact hp

/-! ## The property -/

/-- "the lexer terminates and the concatenation of the token texts equals the input, up to the single trailing
newline Pygments appends" for the text `t` -/
def NoTextLost (t : Str) : Prop :=
  ∃ toks, getTokens t = some toks ∧ (concat toks = t ∨ concat toks = t ++ ['\n'])

/-- the full statement of C17 for the text `t` (no Error token: for every text, in particular for accepted sources) -/
def HighlightingLexerOk (t : Str) : Prop :=
  ∃ toks, getTokens t = some toks ∧ (concat toks = t ∨ concat toks = t ++ ['\n']) ∧
    ∀ tok ∈ toks, tok.ty ≠ Gen.pygTyError

/-- the literal property (all Unicode strings) — FALSE for the pinned code, see the counterexamples -/
def HighlightingLexerProperty : Prop := ∀ t : Str, HighlightingLexerOk t

theorem no_text_lost_iff (t : Str) : NoTextLost t ↔ Clean t = true := by
  rw [← preprocess_spec]
  constructor
  · rintro ⟨toks, h, hc⟩
    rw [get_tokens_concat t toks h] at hc
    exact hc
  · intro hp
    obtain ⟨toks, h⟩ := get_tokens_total t
    refine ⟨toks, h, ?_⟩
    rw [get_tokens_concat t toks h]
    exact hp

theorem no_text_lost_partial (t : Str) (h : Clean t = true) : NoTextLost t := (no_text_lost_iff t).mpr h

/-- C17 under the explicit guard: for every clean text the lexer terminates, loses no text and emits no Error token -/
theorem highlighting_lexer_partial (t : Str) (h : Clean t = true) : HighlightingLexerOk t := by
  obtain ⟨toks, ht, hc⟩ := no_text_lost_partial t h
  exact ⟨toks, ht, hc, get_tokens_no_error t toks ht⟩

theorem no_text_lost_counterexample_leading_newline : ¬ NoTextLost ['\n', '\n', 'a', 'b', 'c'] := by
  rw [no_text_lost_iff]; decide

theorem no_text_lost_counterexample_trailing_newlines : ¬ NoTextLost ['a', 'b', 'c', '\n', '\n'] := by
  rw [no_text_lost_iff]; decide

theorem no_text_lost_counterexample_crlf : ¬ NoTextLost ['a', '\r', '\n', 'b'] := by
  rw [no_text_lost_iff]; decide

theorem no_text_lost_counterexample_bom : ¬ NoTextLost [bom, 'a', 'b', 'c'] := by
  rw [no_text_lost_iff]; decide

theorem highlighting_lexer_counterexample : ¬ HighlightingLexerProperty := by
  intro h
  obtain ⟨toks, ht, hc, _⟩ := h ['\n', '\n', 'a', 'b', 'c']
  exact no_text_lost_counterexample_leading_newline ⟨toks, ht, hc⟩

/-! ## Non-vacuity -/

-- the guard is satisfiable by non-trivial texts, with and without a final newline
example : Clean "def 0 {\n  foo(\"a\", 'b'); /* c */ // d\n}\n".toList = true := by decide
example : Clean "if".toList = true := by decide
example : Clean [] = true := by decide
example : Clean ['\n'] = true := by decide
-- … and the model really lexes: keywords, word boundary, strings, comments, numbers, labels
example : lexRaw ['i', 'f', ' ', '"', 'a', '"'] = some
    [⟨"Token.Name.Builtin".toList, ['i', 'f']⟩, ⟨"Token.Text".toList, [' ']⟩, ⟨"Token.Literal.String".toList, ['"']⟩,
     ⟨"Token.Literal.String".toList, ['a']⟩, ⟨"Token.Literal.String".toList, ['"']⟩] := by decide +kernel
example : (lexRaw "ifx /*a*/ 0x1F §l".toList).map (·.map (·.text)) =
    some ["ifx".toList, [' '], "/*a*/".toList, [' '], "0x1F".toList, [' '], "§l".toList] := by decide +kernel
example : getTokens ['\n', '\n', 'a'] = some [⟨"Token.Name".toList, ['a']⟩, ⟨"Token.Text".toList, ['\n']⟩] := by
  decide +kernel
-- the engine's no-match branch exists in the model (a table without catch-all): Error token and newline reset
example : lexWith 24 [(root, [(['"'], ['S'], [])])] ['E'] ['W'] ['"', 'x', '\n'] =
    some [⟨['S'], ['"']⟩, ⟨['E'], ['x']⟩, ⟨['W'], ['\n']⟩] := by decide +kernel
-- an unknown regex has no matcher: the table lemma `rules_known` would fail
example : (compile 24 [(root, [(['x', '+'], ['S'], [])])]).isSome = false := by decide +kernel
example : (compile 26 Gen.pygRulesC).isSome = false := by decide +kernel   -- IGNORECASE is not modelled

end ESV.C17
