import ESV.Comp.FrontW13
import ESV.Comp.CodegenF0e
import ESV.Comp.CgFinal
import ESV.Comp.CgFinal5
import ESV.Comp.CgFallsSound
import ESV.Comp.ProjectThms
import ESV.Props.C01Backend
/-
C01, front end — what is proved about the compiler's front end (the code generator: `ESV.Comp.frontend`, model of
explorerscript/ssb_converting/compiler/compile_handlers/** statement by statement, tied to /repo by the C03 channel), for
ALL programs of the model's input language (`ESV.Comp.Program`):

* `frontend_wfl`: the labelled code handed to the back end satisfies the hypothesis `WFL` of `backend_preserves`, for
  every program that satisfies the decidable guard `FrontGuard`;
* `compile_backend_equiv`: hence for every such program that compiles, every routine of the labelled code and of the
  compiled op lists behave the same.

Final statements only; the proofs are in ESV/Comp/FrontW*.lean.
-/
namespace ESV.C01Frontend
open ESV ESV.Beh ESV.Comp

/-- **The front end produces well-formed labelled code.**  Guard (`FrontGuard p`, decidable):
* `NoUserJumpOps p` (C03): no operation written in the source is named like a jump-carrying op;
* every macro and routine body satisfies `wStmts`: no written operation is named like a context op, an operation under a
  context is not `Return`, a with-block holds a plain operation / `call` / `end` / `hold` (not `jump`, `return`, `break`,
  `continue`, `break_loop`: `ctx_jump_counterexample`), headers of ifs, loops and cases are test ops, the init and
  increment statements of a `for` are simple statements;
* the names of the user labels defined in a macro body are pairwise distinct, and so are those defined in all routines
  together (`duplicate_user_label_counterexample`: the real compiler accepts a label defined twice). -/
theorem frontend_wfl (p : Program) (t : Tables) (hg : FrontGuard p) (h : frontend p = .ok t) : WFL t.ops :=
  frontend_wfl' p t hg h

/-- **Everything after the code generator preserves behaviour**, for all guarded programs: if `compile p` succeeds with
`res`, then there is the labelled code `t` of the front end, and every routine of `t.ops` (labelled-code semantics) and of
`res.ops` (SSB machine) are behaviourally equal. -/
theorem compile_backend_equiv (p : Program) (res : Result) (hg : FrontGuard p) (h : compile p = .ok res) :
    ∃ t, frontend p = .ok t ∧ res.infos = t.infos ∧ res.coros = t.coros ∧ ∀ r, r < t.ops.length →
      Equivalent (labLTS t.ops) (Machine.lts ⟨flatten (conv res.ops)⟩) (labEntry t.ops r)
        (Machine.entry ⟨flatten (conv res.ops)⟩ r) := by
  unfold compile at h
  cases hf : frontend p with
  | error e => rw [hf] at h; simp at h
  | ok t =>
    rw [hf] at h
    simp only at h
    split at h
    · simp at h
    · cases hb : backend t.ops with
      | error e => rw [hb] at h; simp at h
      | ok ops =>
        rw [hb] at h
        simp only [Except.ok.injEq] at h
        subst h
        exact ⟨t, rfl, rfl, rfl, fun r hr => ESV.C01Backend.backend_preserves t.ops ops (frontend_wfl p t hg hf) hb r hr⟩

/-! ### the guard is needed: a user label defined twice -/

/-- `§l; a(); jump @l; §l; b();` — the front end places the label id twice; `WFL` fails (and the back end drops the
`Jump` because of the second definition, `duplicate_label_counterexample`).  The real compiler accepts this source and
produces `a; b`. -/
def dupLabelProg : Program :=
  ⟨[], [], [⟨some 0, "r", none, .cons (.label "l") (.cons (.op "a" []) (.cons (.jump "l") (.cons (.label "l") (.cons (.op "b" []) .nil))))⟩]⟩

def frontOps (p : Program) : Option (List (List LItem)) :=
  match frontend p with
  | .ok t => some t.ops
  | .error _ => none

def compiles (p : Program) : Bool :=
  match compile p with
  | .ok _ => true
  | .error _ => false

theorem duplicate_user_label_counterexample :
    ¬ FrontGuard dupLabelProg ∧
    frontOps dupLabelProg =
      some [[.label 1 true, .op ⟨1, "a", []⟩, .ljump ⟨2, "Jump", []⟩ (some 1), .label 1 true, .op ⟨3, "b", []⟩]] ∧
    ¬ WFL [[.label 1 true, .op ⟨1, "a", []⟩, .ljump ⟨2, "Jump", []⟩ (some 1), .label 1 true, .op ⟨3, "b", []⟩]] := by
  decide

/-! ### non-vacuity -/

/-- `def 0 { a(); if (Branch…) { b(); } §l; with (lives 1) { c(); } forever { d(); break_loop; } jump @l; }` -/
def exProg : Program :=
  ⟨[], [], [⟨some 0, "r", none,
    .cons (.op "a" []) (.cons (.ite false [⟨false, "Branch", [.int 1]⟩] (.cons (.op "b" []) .nil) .nil false .nil)
      (.cons (.label "l") (.cons (.with_ "lives" (.int 1) (.op "c" [])) (.cons (.forever (.cons (.op "d" []) (.cons .brkLoop .nil)))
        (.cons (.jump "l") .nil)))))⟩]⟩

example : FrontGuard exProg := by decide
example : compiles exProg = true := by decide

/-! ### `codegen_correct` and `compile_correct`, fragment F0 (straight-line routines) -/

/-- **The code generator is correct on F0.**  `F0Prog p` (decidable): no macros, routines numbered 0, 1, 2, … in source
order, bodies consisting of plain operations (assignments arrive as operations), operations with an inline context,
with-blocks around a plain operation / `end` / `hold`, and `return` / `end` / `hold`.  For every routine the source
semantics (`Src.Program.graph` of `toSrc p`, the program as the language semantics reads it) and the labelled code of the
front end are behaviourally equal. -/
theorem codegen_correct_F0 (p : Program) (t : Tables) (hp : F0Prog p) (hf : frontend p = .ok t) (j : Nat) (r : Routine)
    (hj : p.routines[j]? = some r) :
    ∃ e, (toSrc p).graph.entries[j]? = some (some e) ∧
      Equivalent (toSrc p).graph.lts (labLTS t.ops) e (labEntry t.ops j) := by
  obtain ⟨h0, paths⟩ := graph_f0 p hp
  obtain ⟨e, he, hpath⟩ := paths j r hj
  obtain ⟨its, hits, hshape⟩ := frontend_f0 p t hp hf j r hj
  exact ⟨e, he, f0_equiv h0 hits hshape (codeOK_f0 r.body (hp.2.2 r (List.mem_of_getElem? hj))) e hpath⟩

/-- **The compiler is correct on F0**, end to end: for every F0 program that compiles, every routine of the source
program (language semantics) and of the compiled op lists (SSB machine) behave the same — for every outcome of every test
the same sequence of operations, the same final event. -/
theorem compile_correct_F0 (p : Program) (res : Result) (hp : F0Prog p) (h : compile p = .ok res) (j : Nat) (r : Routine)
    (hj : p.routines[j]? = some r) :
    ∃ e, (toSrc p).graph.entries[j]? = some (some e) ∧
      Equivalent (toSrc p).graph.lts (Machine.lts ⟨flatten (conv res.ops)⟩) e (Machine.entry ⟨flatten (conv res.ops)⟩ j) := by
  obtain ⟨t, hf, _, _, hb⟩ := compile_backend_equiv p res (frontGuard_of_f0 p hp) h
  obtain ⟨e, he, h1⟩ := codegen_correct_F0 p t hp hf j r hj
  obtain ⟨its, hits, _⟩ := frontend_f0 p t hp hf j r hj
  have hlt : j < t.ops.length := by
    rcases Nat.lt_or_ge j t.ops.length with h' | h'
    · exact h'
    · rw [List.getElem?_eq_none h'] at hits; cases hits
  exact ⟨e, he, h1.trans (hb j hlt)⟩

/-- non-vacuity: `def 0 { a(1); with (lives 2) { b(); } return; c(); }  def 1 { lives<3>.d(); hold; }` -/
def exF0 : Program :=
  ⟨[], [], [⟨some 0, "r0", none, .cons (.op "a" [.int 1]) (.cons (.with_ "lives" (.int 2) (.op "b" [])) (.cons .ret (.cons (.op "c" []) .nil)))⟩,
    ⟨none, "r1", some "co", .cons (.inl "lives" (.int 3) "d" []) (.cons .hold .nil)⟩]⟩

example : F0Prog exF0 := by decide
example : compiles exF0 = true := by decide

/-! ### fragments F1, F2: the compositional proof (`ESV/Comp/Cg*.lean`), by level -/

/-- the code generator is correct on the programs of level `lv` (`cgStmt lv`) -/
theorem codegen_correct_level (lv : Nat) (p : Program) (t : Tables) (hp : CgProg lv p) (hf : frontend p = .ok t) (j : Nat) (r : Routine)
    (hj : p.routines[j]? = some r) :
    ∃ e, (toSrc p).graph.entries[j]? = some (some e) ∧
      Equivalent (toSrc p).graph.lts (labLTS t.ops) e (labEntry t.ops j) :=
  codegen_correct_cg lv p t hp hf j r hj

/-- the compiler is correct on the programs of level `lv`, end to end -/
theorem compile_correct_level (lv : Nat) (p : Program) (res : Result) (hp : CgProg lv p) (h : compile p = .ok res) (j : Nat) (r : Routine)
    (hj : p.routines[j]? = some r) :
    ∃ e, (toSrc p).graph.entries[j]? = some (some e) ∧
      Equivalent (toSrc p).graph.lts (Machine.lts ⟨flatten (conv res.ops)⟩) e (Machine.entry ⟨flatten (conv res.ops)⟩ j) := by
  obtain ⟨t, hf, _, _, hb⟩ := compile_backend_equiv p res (frontGuard_of_cg lv p hp) h
  obtain ⟨e, he, h1⟩ := codegen_correct_level lv p t hp hf j r hj
  have hlt : j < t.ops.length := by
    -- the routine has an op list in the front end's tables
    rcases Nat.lt_or_ge j t.ops.length with h' | h'
    · exact h'
    · exfalso
      obtain ⟨hm, hseq, hall, _, hml⟩ := hp
      unfold frontend at hf
      rw [hm] at hf
      simp only [sortMacros, compileMacros] at hf
      have hpure : (pure ([] : Macros) : M Macros) St.init = .ok ([], St.init) := rfl
      rw [hpure] at hf
      simp only at hf
      cases hr : wrapAssert (compileRoutines [] p.routines 0 ⟨[], [], []⟩ St.init) with
      | error e' => rw [hr] at hf; simp at hf
      | ok r2 =>
        obtain ⟨t2, s2⟩ := r2
        rw [hr] at hf
        simp only [Except.ok.injEq] at hf
        subst hf
        let cxD : Cx := { rs := [], N := [], hlab := List.nodup_nil, defs := allDefs p }
        obtain ⟨its, _, _, _, _, hits, _⟩ := (compileRoutines_cg [] p.routines 0 _ _ _ _ hseq rfl rfl (fun r' hr' lb s ops s2 h' =>
          (cStmts_c cxD 1 lv (macOK_nil cxD 1 rfl) r'.body lb (hall r' hr') (hml r' hr') {} (envOK_empty cxD rfl) s ops s2 h').stk)
          rfl rfl (wrapAssert_ok hr)).2.2 j r hj
        simp only [Nat.zero_add] at hits
        rw [List.getElem?_eq_none h'] at hits
        cases hits
  exact ⟨e, he, h1.trans (hb j hlt)⟩

/-! ### fragment F1: F0 + if / elseif / else -/

/-- F1 programs: no macros, routines numbered 0, 1, 2, … in source order, bodies built from the statements of F0 and
if-blocks with any number of headers (`||`), `not`, elseifs, an optional else, empty blocks (`cgStmts 1`) -/
def F1Prog (p : Program) : Prop := CgProg 1 p

instance (p : Program) : Decidable (F1Prog p) := by unfold F1Prog; infer_instance

/-- **The code generator is correct on F1**: source semantics of every routine ≈ labelled code of the front end. -/
theorem codegen_correct_F1 (p : Program) (t : Tables) (hp : F1Prog p) (hf : frontend p = .ok t) (j : Nat) (r : Routine)
    (hj : p.routines[j]? = some r) :
    ∃ e, (toSrc p).graph.entries[j]? = some (some e) ∧
      Equivalent (toSrc p).graph.lts (labLTS t.ops) e (labEntry t.ops j) :=
  codegen_correct_level 1 p t hp hf j r hj

/-- **The compiler is correct on F1**, end to end: source semantics of every routine ≈ SSB machine on the compiled ops. -/
theorem compile_correct_F1 (p : Program) (res : Result) (hp : F1Prog p) (h : compile p = .ok res) (j : Nat) (r : Routine)
    (hj : p.routines[j]? = some r) :
    ∃ e, (toSrc p).graph.entries[j]? = some (some e) ∧
      Equivalent (toSrc p).graph.lts (Machine.lts ⟨flatten (conv res.ops)⟩) e (Machine.entry ⟨flatten (conv res.ops)⟩ j) :=
  compile_correct_level 1 p res hp h j r hj

/-- non-vacuity: `def 0 { a(); if (Branch 1 || Branch 2) { b(); } elseif not (Branch 3) { return; } else { } c(); }` -/
def exF1 : Program :=
  ⟨[], [], [⟨some 0, "r0", none,
    .cons (.op "a" []) (.cons (.ite false [⟨false, "Branch", [.int 1]⟩, ⟨false, "Branch", [.int 2]⟩] (.cons (.op "b" []) .nil)
      (.cons true [⟨false, "Branch", [.int 3]⟩] (.cons .ret .nil) .nil) true .nil) (.cons (.op "c" []) .nil))⟩]⟩

example : F1Prog exF1 := by decide
example : compiles exF1 = true := by decide

/-! ### fragment F2: F1 + forever / while / for, continue, break_loop -/

/-- F2 programs: as F1, and `forever { }`, `while (t) { }`, `while not (t) { }`, `for (init; t; inc) { }` (init and inc
statements of F0) with `continue` and `break_loop` anywhere in their bodies, nested in any way (`cgStmts 2`) -/
def F2Prog (p : Program) : Prop := CgProg 2 p

instance (p : Program) : Decidable (F2Prog p) := by unfold F2Prog; infer_instance

/-- **The code generator is correct on F2**: source semantics of every routine ≈ labelled code of the front end. -/
theorem codegen_correct_F2 (p : Program) (t : Tables) (hp : F2Prog p) (hf : frontend p = .ok t) (j : Nat) (r : Routine)
    (hj : p.routines[j]? = some r) :
    ∃ e, (toSrc p).graph.entries[j]? = some (some e) ∧
      Equivalent (toSrc p).graph.lts (labLTS t.ops) e (labEntry t.ops j) :=
  codegen_correct_level 2 p t hp hf j r hj

/-- **The compiler is correct on F2**, end to end: source semantics of every routine ≈ SSB machine on the compiled ops. -/
theorem compile_correct_F2 (p : Program) (res : Result) (hp : F2Prog p) (h : compile p = .ok res) (j : Nat) (r : Routine)
    (hj : p.routines[j]? = some r) :
    ∃ e, (toSrc p).graph.entries[j]? = some (some e) ∧
      Equivalent (toSrc p).graph.lts (Machine.lts ⟨flatten (conv res.ops)⟩) e (Machine.entry ⟨flatten (conv res.ops)⟩ j) :=
  compile_correct_level 2 p res hp h j r hj

/-- non-vacuity: `def 0 { forever { a(); while not (Branch 1) { if (Branch 2) { continue; } b(); }
for (i(); Branch 3; n()) { if (Branch 4) { break_loop; } c(); } while (Branch 5) { } if (Branch 6) { break_loop; } } d(); }` -/
def exF2 : Program :=
  ⟨[], [], [⟨some 0, "r0", none,
    .cons (.forever
      (.cons (.op "a" [])
      (.cons (.while_ true ⟨false, "Branch", [.int 1]⟩
        (.cons (.ite false [⟨false, "Branch", [.int 2]⟩] (.cons .cont .nil) .nil false .nil) (.cons (.op "b" []) .nil)))
      (.cons (.for_ (.op "i" []) ⟨false, "Branch", [.int 3]⟩ (.op "n" [])
        (.cons (.ite false [⟨false, "Branch", [.int 4]⟩] (.cons .brkLoop .nil) .nil false .nil) (.cons (.op "c" []) .nil)))
      (.cons (.while_ false ⟨false, "Branch", [.int 5]⟩ .nil)
      (.cons (.ite false [⟨false, "Branch", [.int 6]⟩] (.cons .brkLoop .nil) .nil false .nil) .nil))))))
    (.cons (.op "d" []) .nil)⟩]⟩

example : F2Prog exF2 := by decide
example : ¬ F1Prog exF2 := by decide
example : compiles exF2 = true := by decide

/-! ### fragment F3: F2 + switch / case / default / break -/

/-- F3 programs: as F2, and `switch (op) { case …: … default: … }` with `break`, fall-through from one case block into the next,
several cases (and the default) sharing a block, `CaseValue` under `SwitchScenario`; nested in any way with ifs and loops
(`cgStmts 3`); a switch without cases is its header operation.  Not in F3: a header op that ends the routine; more than one
default; a case block that consists of a single `break` / `continue` / `break_loop` / `jump` (`_process_block` may fold such a
block into the case's header jumps, unless `_falls_through` of the blocks before it) if the block before it ends in an `if` with
`else`, a `forever`, a `switch` (or, from F5 on, a macro call) — it is in F3 if it is the first block of the switch, a default
block, or the block before it ends in `return` / `end` / `hold` / `break` / `continue` / `break_loop` / `jump` / a flow-ending
operation (nothing falls in), or in an operation, `call`, a user label, `while`, `for`, an `if` without `else` (`surelyFalls`:
`_falls_through` answers "yes", the block is not folded). -/
def F3Prog (p : Program) : Prop := CgProg 3 p

instance (p : Program) : Decidable (F3Prog p) := by unfold F3Prog; infer_instance

/-- **The code generator is correct on F3**: source semantics of every routine ≈ labelled code of the front end. -/
theorem codegen_correct_F3 (p : Program) (t : Tables) (hp : F3Prog p) (hf : frontend p = .ok t) (j : Nat) (r : Routine)
    (hj : p.routines[j]? = some r) :
    ∃ e, (toSrc p).graph.entries[j]? = some (some e) ∧
      Equivalent (toSrc p).graph.lts (labLTS t.ops) e (labEntry t.ops j) :=
  codegen_correct_level 3 p t hp hf j r hj

/-- **The compiler is correct on F3**, end to end: source semantics of every routine ≈ SSB machine on the compiled ops. -/
theorem compile_correct_F3 (p : Program) (res : Result) (hp : F3Prog p) (h : compile p = .ok res) (j : Nat) (r : Routine)
    (hj : p.routines[j]? = some r) :
    ∃ e, (toSrc p).graph.entries[j]? = some (some e) ∧
      Equivalent (toSrc p).graph.lts (Machine.lts ⟨flatten (conv res.ops)⟩) e (Machine.entry ⟨flatten (conv res.ops)⟩ j) :=
  compile_correct_level 3 p res hp h j r hj

/-- non-vacuity: `def 0 { while (Branch 9) { switch (sw(7)) { case CaseValue 1: case CaseValue 2: a(); default: b(); break;
case CaseValue 3: if (Branch 4) { continue; } c(); case CaseValue 5: d(); break_loop; } e(); } f(); }` -/
def exF3 : Program :=
  ⟨[], [], [⟨some 0, "r0", none,
    .cons (.while_ false ⟨false, "Branch", [.int 9]⟩
      (.cons (.switch ⟨true, "sw", [.int 7]⟩
        (.cons false "CaseValue" [.int 1] .nil
        (.cons false "CaseValue" [.int 2] (.cons (.op "a" []) .nil)
        (.cons true "" [] (.cons (.op "b" []) (.cons .brk .nil))
        (.cons false "CaseValue" [.int 3]
          (.cons (.ite false [⟨false, "Branch", [.int 4]⟩] (.cons .cont .nil) .nil false .nil) (.cons (.op "c" []) .nil))
        (.cons false "CaseValue" [.int 5] (.cons (.op "d" []) (.cons .brkLoop .nil)) .nil))))))
      (.cons (.op "e" []) .nil)))
    (.cons (.op "f" []) .nil)⟩]⟩

example : F3Prog exF3 := by decide
example : ¬ F2Prog exF3 := by decide
example : compiles exF3 = true := by decide

/-! ### fragment F4: F3 + user labels, `jump`, `call` -/

/-- F4 programs: as F3, and `§label;`, `jump @label;`, `call @label;` anywhere (in if / loop / case blocks too), jumps and calls
into other routines included.  `CgProg` asks of every level: each user label is defined once (`allDefs p` without duplicates,
the conjunct of `FrontGuard`), and every label a `jump` / `call` names is defined somewhere in the program (a jump to an
undefined label is a `!STUCK` halt of the labelled code and an "undefined label" halt of the language semantics). -/
def F4Prog (p : Program) : Prop := CgProg 4 p

instance (p : Program) : Decidable (F4Prog p) := by unfold F4Prog; infer_instance

/-- **The code generator is correct on F4**: source semantics of every routine ≈ labelled code of the front end. -/
theorem codegen_correct_F4 (p : Program) (t : Tables) (hp : F4Prog p) (hf : frontend p = .ok t) (j : Nat) (r : Routine)
    (hj : p.routines[j]? = some r) :
    ∃ e, (toSrc p).graph.entries[j]? = some (some e) ∧
      Equivalent (toSrc p).graph.lts (labLTS t.ops) e (labEntry t.ops j) :=
  codegen_correct_level 4 p t hp hf j r hj

/-- **The compiler is correct on F4**, end to end: source semantics of every routine ≈ SSB machine on the compiled ops. -/
theorem compile_correct_F4 (p : Program) (res : Result) (hp : F4Prog p) (h : compile p = .ok res) (j : Nat) (r : Routine)
    (hj : p.routines[j]? = some r) :
    ∃ e, (toSrc p).graph.entries[j]? = some (some e) ∧
      Equivalent (toSrc p).graph.lts (Machine.lts ⟨flatten (conv res.ops)⟩) e (Machine.entry ⟨flatten (conv res.ops)⟩ j) :=
  compile_correct_level 4 p res hp h j r hj

/-- non-vacuity: `def 0 { §top; a(); if (Branch 1) { jump @out; } while (Branch 2) { §mid; call @sub; if (Branch 3) { jump @mid; } }
jump @top; §out; b(); } def 1 { §sub; c(); return; }` -/
def exF4 : Program :=
  ⟨[], [], [⟨some 0, "r0", none,
    .cons (.label "top") (.cons (.op "a" [])
    (.cons (.ite false [⟨false, "Branch", [.int 1]⟩] (.cons (.jump "out") .nil) .nil false .nil)
    (.cons (.while_ false ⟨false, "Branch", [.int 2]⟩
      (.cons (.label "mid") (.cons (.call "sub")
      (.cons (.ite false [⟨false, "Branch", [.int 3]⟩] (.cons (.jump "mid") .nil) .nil false .nil) .nil))))
    (.cons (.jump "top") (.cons (.label "out") (.cons (.op "b" []) .nil))))))⟩,
   ⟨some 1, "r1", none, .cons (.label "sub") (.cons (.op "c" []) (.cons .ret .nil))⟩]⟩

example : F4Prog exF4 := by decide
example : ¬ F3Prog exF4 := by decide
example : compiles exF4 = true := by decide

/-- a jump to a label that is defined nowhere -/
def undefJumpProg : Program := ⟨[], [], [⟨some 0, "r", none, .cons (.op "a" []) (.cons (.jump "nowhere") .nil)⟩]⟩

theorem undef_graph : (toSrc undefJumpProg).graph =
    ⟨#[.halt evReturn, .halt (evInvalid "undefined label nowhere"), .emit ⟨"a", []⟩ 1], [some 2]⟩ := by
  have h1 : (toSrc undefJumpProg).routines = [⟨some (.cons (.op "a" []) (.cons (.jump "nowhere") .nil))⟩] := rfl
  have h2 : (toSrc undefJumpProg).macros = [] := rfl
  simp only [Src.Program.graph, h1, h2, Src.allRoutineLabels, Src.labelsOfStmts, Src.labelsOf, List.flatMap_cons, List.flatMap_nil,
    List.append_nil, Src.allocLabels, List.foldl_nil, List.foldl_cons]
  simp only [Src.trStmts, Src.tr, Src.lookupLabel, Src.invalid, Src.B.push, Src.substEv]
  rfl

/-- **The conjunct "every label mentioned is defined" of `CgProg` is needed for `codegen_correct`.**  The front end accepts
`def 0 { a(); jump @nowhere; }` (the back end's label finalizer does not: `compile` fails, and so does the real compiler,
"Label nowhere does not exist, but a jump to it does"); the labelled code ends in `!STUCK`, the language semantics in
"undefined label nowhere". -/
theorem undefined_label_counterexample :
    ¬ F4Prog undefJumpProg ∧ compiles undefJumpProg = false ∧
    frontOps undefJumpProg = some [[.op ⟨1, "a", []⟩, .ljump ⟨2, "Jump", []⟩ (some 1)]] ∧
    (run (labLTS [[.op ⟨1, "a", []⟩, .ljump ⟨2, "Jump", []⟩ (some 1)]]) (fun _ => true) 6 0 (⟨0, 0⟩ : LPos)).1 =
      [.op ⟨"a", []⟩, .stop evStuck] ∧
    (toSrc undefJumpProg).graph.entries = [some 2] ∧
    (run (toSrc undefJumpProg).graph.lts (fun _ => true) 6 0 (2 : Nat)).1 =
      [.op ⟨"a", []⟩, .stop (evInvalid "undefined label nowhere")] := by
  rw [undef_graph]
  decide +kernel

/-! ### fragment F5: F4 + macros -/

/-- F5 programs: routines as in F4 with macro calls anywhere, and macros whose bodies are built from the same statements (macro
calls included: macros may call each other, to any depth the front end accepts in the resolution order `p.macroOrder` it is
given).  Asked of the macros (`CgProg5`, decidable):
* the names of the macros are pairwise distinct (the language semantics takes the first macro of a name in source order, the
  compiler the last one compiled);
* the variables of a macro are pairwise distinct (`dict(zip(variables, args))` keeps the last value of a repeated variable,
  the language semantics the first);
* every user label of a macro body is defined once in it, and a macro body only mentions (`jump`, `call`) labels it defines:
  the labels of a macro are private to each expansion, in the language semantics (`labelsOfStmts m.body` allocated at the call)
  as in the compiler (`new_labels`), a label of a routine or of another macro is not visible in it;
* as everywhere in F0…F5 no plain operation is named `Return` (`cgSimple`): inside a macro `build` turns every op of that name
  into a jump to the end label, the language semantics only the statement `return;`.
Not in the model, hence not covered (they stay per program: C05 / C08 / C10): imports, source maps, position marks. -/
def F5Prog (p : Program) : Prop := CgProg5 p

instance (p : Program) : Decidable (F5Prog p) := by unfold F5Prog; infer_instance

/-- **The code generator is correct on F5**: a macro call means its body inlined (parameters substituted, labels private to each
expansion, `return` leaves only the macro), for macros defined in any order and calling each other: source semantics of every
routine ≈ labelled code of the front end. -/
theorem codegen_correct_F5 (p : Program) (t : Tables) (hp : F5Prog p) (hf : frontend p = .ok t) (j : Nat) (r : Routine)
    (hj : p.routines[j]? = some r) :
    ∃ e, (toSrc p).graph.entries[j]? = some (some e) ∧
      Equivalent (toSrc p).graph.lts (labLTS t.ops) e (labEntry t.ops j) :=
  (codegen_correct_cg5 p t hp hf j r hj).2

/-- **The compiler is correct on F5**, end to end: source semantics of every routine ≈ SSB machine on the compiled ops. -/
theorem compile_correct_F5 (p : Program) (res : Result) (hp : F5Prog p) (h : compile p = .ok res) (j : Nat) (r : Routine)
    (hj : p.routines[j]? = some r) :
    ∃ e, (toSrc p).graph.entries[j]? = some (some e) ∧
      Equivalent (toSrc p).graph.lts (Machine.lts ⟨flatten (conv res.ops)⟩) e (Machine.entry ⟨flatten (conv res.ops)⟩ j) := by
  obtain ⟨t, hf, _, _, hb⟩ := compile_backend_equiv p res (frontGuard_of_cg5 p hp) h
  obtain ⟨hlt, e, he, h1⟩ := codegen_correct_cg5 p t hp hf j r hj
  exact ⟨e, he, h1.trans (hb j hlt)⟩

/-- F4 programs are F5 programs -/
theorem F5Prog_of_F4 (p : Program) (h : F4Prog p) : F5Prog p := by
  obtain ⟨hm, hseq, hall, hnd, hml⟩ := h
  refine ⟨hseq, fun r hr => cgStmts_mono (by decide) r.body (hall r hr), hnd, hml, by rw [hm]; exact List.nodup_nil, fun m hm' => ?_⟩
  rw [hm] at hm'; cases hm'

/-- non-vacuity: `macro m2(%y, %z) { m1(%y); b(%z); m1(%z); }  macro m1(%x) { §l; a(%x); if (Branch 1) { return; } jump @l; }
def 0 { m2(1, 2); §l; c(); m1(3); jump @l; }` (a macro defined after its use, a nested call, a label `l` private to each
expansion and a label `l` of the routine, `return` inside a macro) -/
def exF5 : Program :=
  ⟨[⟨"m2", ["y", "z"], .cons (.macroCall "m1" [.const "y"]) (.cons (.op "b" [.const "z"]) (.cons (.macroCall "m1" [.const "z"]) .nil))⟩,
    ⟨"m1", ["x"], .cons (.label "l") (.cons (.op "a" [.const "x"])
      (.cons (.ite false [⟨false, "Branch", [.int 1]⟩] (.cons .ret .nil) .nil false .nil) (.cons (.jump "l") .nil)))⟩],
   ["m1", "m2"],
   [⟨some 0, "r0", none, .cons (.macroCall "m2" [.int 1, .int 2]) (.cons (.label "l") (.cons (.op "c" [])
      (.cons (.macroCall "m1" [.int 3]) (.cons (.jump "l") .nil))))⟩]⟩

example : F5Prog exF5 := by decide
example : ¬ F4Prog exF5 := by decide
example : compiles exF5 = true := by decide

/-- the op lists `compile` returns -/
def compiledOps (p : Program) : Option (List (List Comp.Op)) :=
  match compile p with
  | .ok r => some r.ops
  | .error _ => none

/-- `macro d($x, $x) { a($x); }  def 0 { ~d(1, 2); }` -/
def dupVarProg : Program :=
  ⟨[⟨"d", ["x", "x"], .cons (.op "a" [.const "x"]) .nil⟩], ["d"], [⟨some 0, "r", none, .cons (.macroCall "d" [.int 1, .int 2]) .nil⟩]⟩

theorem dupVar_graph : (toSrc dupVarProg).graph = ⟨#[.halt evReturn, .emit ⟨"a", [.int 1]⟩ 0], [some 1]⟩ := by
  have h1 : (toSrc dupVarProg).routines = [⟨some (.cons (.macroCall "d" [.int 1, .int 2]) .nil)⟩] := rfl
  have h2 : (toSrc dupVarProg).macros = [⟨"d", ["x", "x"], .cons (.op "a" [.const "x"]) .nil⟩] := rfl
  simp only [Src.Program.graph, h1, h2, Src.allRoutineLabels, Src.labelsOfStmts, Src.labelsOf, List.flatMap_cons, List.flatMap_nil,
    List.append_nil, Src.allocLabels, List.foldl_nil, List.foldl_cons, List.length_cons, List.length_nil]
  simp only [Src.trStmts, Src.tr, Src.B.push, Src.substEv, List.find?, Src.allocLabels, Src.labelsOfStmts,
    Src.labelsOf, List.foldl_nil, List.append_nil, beq_self_eq_true, List.length_cons, List.length_nil, Nat.reduceAdd, Nat.lt_irrefl,
    ↓reduceIte, Src.substParam, List.map_cons, List.map_nil, List.zip_cons_cons, List.lookup_cons, List.nil_append]
  rfl

/-- **The conjunct "the variables of a macro are distinct" of `F5Prog` is needed.**  `macro d($x, $x) { a($x); }` called as
`~d(1, 2)`: `build` looks the variable up in `dict(zip(variables, args))`, where the last value of a repeated key stays: the compiled
code performs `a(2)` (the real compiler gives the same op list); the language semantics (`Src.tr`: the first binding of a name
counts) says `a(1)`. -/
theorem duplicate_macro_variable_counterexample :
    ¬ F5Prog dupVarProg ∧ compiledOps dupVarProg = some [[⟨1, "a", [.int 2]⟩]] ∧
    (run (Machine.lts ⟨flatten (conv [[⟨1, "a", [.int 2]⟩]])⟩) (fun _ => true) 6 0
      (Machine.entry ⟨flatten (conv [[⟨1, "a", [.int 2]⟩]])⟩ 0)).1 = [.op ⟨"a", [.int 2]⟩, .stop evReturn] ∧
    (toSrc dupVarProg).graph.entries = [some 1] ∧
    (run (toSrc dupVarProg).graph.lts (fun _ => true) 6 0 (1 : Nat)).1 = [.op ⟨"a", [.int 1]⟩, .stop evReturn] := by
  rw [dupVar_graph]
  decide +kernel

/-- `macro d() { Return(); c(); }  def 0 { ~d(); e(); }` : an operation written with the name `Return` -/
def retOpProg : Program :=
  ⟨[⟨"d", [], .cons (.op "Return" []) (.cons (.op "c" []) .nil)⟩], ["d"],
   [⟨some 0, "r", none, .cons (.macroCall "d" []) (.cons (.op "e" []) .nil)⟩]⟩

theorem retOp_graph : (toSrc retOpProg).graph =
    ⟨#[.halt evReturn, .emit ⟨"e", []⟩ 0, .emit ⟨"c", []⟩ 1, .halt ⟨"Return", []⟩], [some 3]⟩ := by
  have h1 : (toSrc retOpProg).routines = [⟨some (.cons (.macroCall "d" []) (.cons (.op "e" []) .nil))⟩] := rfl
  have h2 : (toSrc retOpProg).macros = [⟨"d", [], .cons (.op "Return" []) (.cons (.op "c" []) .nil)⟩] := rfl
  have e1 : Beh.endsFlow "Return" = true := by decide
  have e2 : Beh.endsFlow "c" = false := by decide
  have e3 : Beh.endsFlow "e" = false := by decide
  simp only [Src.Program.graph, h1, h2, Src.allRoutineLabels, Src.labelsOfStmts, Src.labelsOf, List.flatMap_cons, List.flatMap_nil,
    List.append_nil, Src.allocLabels, List.foldl_nil, List.foldl_cons, List.length_cons, List.length_nil]
  simp only [Src.trStmts, Src.tr, Src.B.push, Src.substEv, List.find?, Src.allocLabels, Src.labelsOfStmts,
    Src.labelsOf, List.foldl_nil, List.append_nil, beq_self_eq_true, List.length_cons, List.length_nil, Nat.reduceAdd, Nat.lt_irrefl,
    ↓reduceIte, Src.substParam, List.map_cons, List.map_nil, List.zip_nil_left, List.nil_append, e1, e2, e3, Bool.false_eq_true]
  rfl

/-- **No operation named `Return` (`cgSimple`) is needed in F5.**  Inside a macro `build` turns every op named `Return` into a jump
to the end label of the expansion, whether it was written as `return;` or as an operation `Return();`: the compiled code goes
on with `e()` behind the call (the real compiler gives the same op list); in the language semantics only the statement
`return;` leaves the macro, the operation `Return()` ends the routine. -/
theorem return_op_in_macro_counterexample :
    ¬ F5Prog retOpProg ∧ compiledOps retOpProg = some [[⟨1, "Jump", [.int 3]⟩, ⟨2, "c", []⟩, ⟨3, "e", []⟩]] ∧
    (run (Machine.lts ⟨flatten (conv [[⟨1, "Jump", [.int 3]⟩, ⟨2, "c", []⟩, ⟨3, "e", []⟩]])⟩) (fun _ => true) 6 0
      (Machine.entry ⟨flatten (conv [[⟨1, "Jump", [.int 3]⟩, ⟨2, "c", []⟩, ⟨3, "e", []⟩]])⟩ 0)).1 = [.op ⟨"e", []⟩, .stop evReturn] ∧
    (toSrc retOpProg).graph.entries = [some 3] ∧
    (run (toSrc retOpProg).graph.lts (fun _ => true) 6 0 (3 : Nat)).1 = [.stop ⟨"Return", []⟩] := by
  rw [retOp_graph]
  decide +kernel

/-! ### `_falls_through` -/

/-- **`SwitchBlockCompileHandler._falls_through` is sound** (the analysis that decides whether a case block that is a single
`break` / `continue` / `break_loop` / `jump` may be folded into the header jumps; /repo commits 7a8e55a, 9a94c6e).  For ANY labelled
program `rs` and any block `items` of it (at `pre.length` in routine `r`, not directly behind a context op): if `_falls_through`
answers "no", then `items = b0 ++ [a] ++ labs` where `labs` are unnamed labels, no step of `b0 ++ [a]` leads to a position of `labs`, and the
step of `a` never goes on with the next item — it halts (a flow-ending op: `Return`, `End`, `Hold`, …), or `a` is an unconditional
`Jump`.  So control never runs out of the block; what stands behind it is only reached from inside by a jump to a label
standing there.  (The code generator theorems use the other direction, `FTgood` in ESV/Comp/CgFalls.lean: for the statements of
`surelyFalls` the answer is "yes".) -/
theorem falls_through_sound (rs : List (List LItem)) (r : Nat) (pre items post : List LItem) (hr : rs[r]? = some (pre ++ items ++ post))
    (hpre : afterCtxL rs ⟨r, pre.length⟩ = false) (hne : items ≠ []) (hft : fallsThrough items = false) :
    ∃ b0 a labs, items = b0 ++ [a] ++ labs ∧ isLab a = false ∧ (∀ x ∈ labs, ∃ id, x = LItem.label id false) ∧
      (∀ i, i ≤ b0.length → ∀ q' ∈ succs (lstep rs ⟨r, pre.length + i⟩),
        ¬ (q'.rtn = r ∧ pre.length + b0.length < q'.idx ∧ q'.idx < pre.length + items.length)) ∧
      ((∃ e, lstep rs ⟨r, pre.length + b0.length⟩ = .halt e) ∨
        ∃ root l, a = .ljump root (some l) ∧ isJump root.name = true ∧ lstep rs ⟨r, pre.length + b0.length⟩ = .silent (target rs l)) :=
  fallsThrough_sound rs r pre items post hr hpre hne hft

/-- non-vacuity: a `forever` block without `break_loop` (`§1; a(); Jump→1; §2`) cannot be left; with a `break_loop` (`Jump→2`) it can -/
example : fallsThrough [.label 1 false, .op ⟨1, "a", []⟩, .ljump ⟨2, "Jump", []⟩ (some 1), .label 2 false] = false := by decide
example : fallsThrough [.label 1 false, .ljump ⟨1, "Jump", []⟩ (some 2), .ljump ⟨2, "Jump", []⟩ (some 1), .label 2 false] = true := by decide

/-! ### fragment F6: F5 + imports -/

/-- **The compiler is correct on projects with imports whose flattening is in F5.**  `flatten` (ESV/Comp/Project.lean) is the model of
how `ExplorerScriptSsbCompiler._compile` collects the macros of imported files (imports resolved by the model of
`_resolve_imported_file`, recursion check, routines in imported files rejected, `dict.update` order; replacing a macro by a macro of
the same name from another file is outside the model: `nameClash`); `compileProject` = flatten, then `compile`.  For every project whose
flattening `p` succeeds and is an F5 program and whose compilation succeeds: every routine of the main file behaves on the SSB
machine as the language semantics of `p` says — a macro call means the body of the macro, wherever it was imported from.
The tie "real multi-file compilation = the model's compilation of the flattened project" is checked by exact comparison of the op
lists and tables on every generated layout of C05 (`comp.flatten`; evidence `F6:flattened_model_result_equals_real`, `in_F6`), as the
single-file model is tied by C03. -/
theorem compile_correct_F6 (P : Project) (fs : ESV.Macro.Imp.Comps → Bool) (cwd : ESV.Macro.Imp.Comps) (lookups : List ESV.Macro.Imp.Str)
    (main : ESV.Macro.Imp.Comps) (p : Program) (res : Result) (hf : flatten P fs cwd lookups main = .ok p) (hp : F5Prog p)
    (hc : compileProject P fs cwd lookups main = .ok (.ok res)) (j : Nat) (r : Routine) (hj : p.routines[j]? = some r) :
    ∃ e, (toSrc p).graph.entries[j]? = some (some e) ∧
      Equivalent (toSrc p).graph.lts (Machine.lts ⟨flatten (conv res.ops)⟩) e (Machine.entry ⟨flatten (conv res.ops)⟩ j) := by
  simp only [compileProject, hf, Except.ok.injEq] at hc
  exact compile_correct_F5 p res hp hc j r hj

/-- the routines of the flattened project are the routines of the main file -/
theorem flatten_keeps_routines (P : Project) (fs : ESV.Macro.Imp.Comps → Bool) (cwd : ESV.Macro.Imp.Comps) (lookups : List ESV.Macro.Imp.Str)
    (main : ESV.Macro.Imp.Comps) (p : Program) (h : flatten P fs cwd lookups main = .ok p) :
    ∃ f, P.lookup main = some f ∧ p.routines = f.routines := flatten_routines h

/-- a file without imports (macro names distinct) is its own flattening: F6 says what F5 says about it -/
theorem flatten_without_imports (P : Project) (fs : ESV.Macro.Imp.Comps → Bool) (cwd : ESV.Macro.Imp.Comps) (lookups : List ESV.Macro.Imp.Str)
    (main : ESV.Macro.Imp.Comps) (f : PFile) (hf : P.lookup main = some f) (hi : f.imports = []) (hn : (f.macros.map (·.name)).Nodup) :
    flatten P fs cwd lookups main = .ok ⟨f.macros, f.macroOrder, f.routines⟩ := flatten_single P fs cwd lookups main f hf hi hn

/-- non-vacuity: `/p/main.exps`: `import "./lib/a.exps"; def 0 { ~m2(1, 2); }`; `/p/lib/a.exps`: `import "../b.exps"; macro m2(%y, %z) { ~m1(%y); b(%z); }`;
`/p/b.exps`: `macro m1(%x) { §l; a(%x); return; }`; and the same with `/p/b.exps` importing `/p/main.exps` (a cycle), and with a routine in
`/p/b.exps` -/
def exF6Files (bImports : List String) (bRoutines : List Routine) : Project :=
  [ ([['p'], "main.exps".toList], ⟨["./lib/a.exps"], [], [], [⟨some 0, "r0", none, .cons (.macroCall "m2" [.int 1, .int 2]) .nil⟩]⟩),
    ([['p'], ['l', 'i', 'b'], "a.exps".toList], ⟨["../b.exps"],
      [⟨"m2", ["y", "z"], .cons (.macroCall "m1" [.const "y"]) (.cons (.op "b" [.const "z"]) .nil)⟩], ["m2"], []⟩),
    ([['p'], "b.exps".toList], ⟨bImports,
      [⟨"m1", ["x"], .cons (.label "l") (.cons (.op "a" [.const "x"]) (.cons .ret .nil))⟩], ["m1"], bRoutines⟩) ]

def exF6Check (P : Project) : String :=
  match flatten P (fun c => (P.lookup c).isSome) [] [] [['p'], "main.exps".toList] with
  | .error e => e.name
  | .ok p => if decide (F5Prog p) && compiles p && decide (p.macros.map (·.name) = ["m1", "m2"]) then "ok" else "not F5"

example : exF6Check (exF6Files [] []) = "ok" := by decide +kernel
example : exF6Check (exF6Files ["/p/main.exps"] []) = "recursion" := by decide +kernel
example : exF6Check (exF6Files [] [⟨some 0, "r", none, .nil⟩]) = "routinesInImport" := by decide +kernel
example : exF6Check (exF6Files ["./nowhere.exps"] []) = "notFound" := by decide +kernel

end ESV.C01Frontend
