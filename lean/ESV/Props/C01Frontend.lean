import ESV.Comp.FrontW13
import ESV.Props.C01Backend
/-
C01, front end — what is proved about the compiler's front end (the code generator: `ESV.Comp.frontend`, model of
explorerscript/ssb_converting/compiler/compile_handlers/** statement by statement, tied to /repo by the C03 channel), for
ALL programs of the model's input language (`ESV.Comp.Program`):

* `frontend_wfl`: the labelled code handed to the back end satisfies the hypothesis `WFL` of `backend_preserves`, for
  every program that satisfies the decidable guard `FrontGuard`;
* `compile_backend_equiv`: hence for every such program that compiles, every routine of the labelled code and of the
  compiled op lists behave the same.

Final statements only; the proofs are in ESV/Comp/FrontW*.lean.
-/
namespace ESV.C01Frontend
open ESV ESV.Beh ESV.Comp

/-- **The front end produces well-formed labelled code.**  Guard (`FrontGuard p`, decidable):
* `NoUserJumpOps p` (C03): no operation written in the source is named like a jump-carrying op;
* every macro and routine body satisfies `wStmts`: no written operation is named like a context op, an operation under a
  context is not `Return`, a with-block holds a plain operation / `call` / `end` / `hold` (not `jump`, `return`, `break`,
  `continue`, `break_loop`: `ctx_jump_counterexample`), headers of ifs, loops and cases are test ops, the init and
  increment statements of a `for` are simple statements;
* the names of the user labels defined in a macro body are pairwise distinct, and so are those defined in all routines
  together (`duplicate_user_label_counterexample`: the real compiler accepts a label defined twice). -/
theorem frontend_wfl (p : Program) (t : Tables) (hg : FrontGuard p) (h : frontend p = .ok t) : WFL t.ops :=
  frontend_wfl' p t hg h

/-- **Everything after the code generator preserves behaviour**, for all guarded programs: if `compile p` succeeds with
`res`, then there is the labelled code `t` of the front end, and every routine of `t.ops` (labelled-code semantics) and of
`res.ops` (SSB machine) are behaviourally equal. -/
theorem compile_backend_equiv (p : Program) (res : Result) (hg : FrontGuard p) (h : compile p = .ok res) :
    ∃ t, frontend p = .ok t ∧ res.infos = t.infos ∧ res.coros = t.coros ∧ ∀ r, r < t.ops.length →
      Equivalent (labLTS t.ops) (Machine.lts ⟨flatten (conv res.ops)⟩) (labEntry t.ops r)
        (Machine.entry ⟨flatten (conv res.ops)⟩ r) := by
  unfold compile at h
  cases hf : frontend p with
  | error e => rw [hf] at h; simp at h
  | ok t =>
    rw [hf] at h
    simp only at h
    split at h
    · simp at h
    · cases hb : backend t.ops with
      | error e => rw [hb] at h; simp at h
      | ok ops =>
        rw [hb] at h
        simp only [Except.ok.injEq] at h
        subst h
        exact ⟨t, rfl, rfl, rfl, fun r hr => ESV.C01Backend.backend_preserves t.ops ops (frontend_wfl p t hg hf) hb r hr⟩

/-! ### the guard is needed: a user label defined twice -/

/-- `§l; a(); jump @l; §l; b();` — the front end places the label id twice; `WFL` fails (and the back end drops the
`Jump` because of the second definition, `duplicate_label_counterexample`).  The real compiler accepts this source and
produces `a; b`. -/
def dupLabelProg : Program :=
  ⟨[], [], [⟨some 0, "r", none, .cons (.label "l") (.cons (.op "a" []) (.cons (.jump "l") (.cons (.label "l") (.cons (.op "b" []) .nil))))⟩]⟩

def frontOps (p : Program) : Option (List (List LItem)) :=
  match frontend p with
  | .ok t => some t.ops
  | .error _ => none

def compiles (p : Program) : Bool :=
  match compile p with
  | .ok _ => true
  | .error _ => false

theorem duplicate_user_label_counterexample :
    ¬ FrontGuard dupLabelProg ∧
    frontOps dupLabelProg =
      some [[.label 1 true, .op ⟨1, "a", []⟩, .ljump ⟨2, "Jump", []⟩ (some 1), .label 1 true, .op ⟨3, "b", []⟩]] ∧
    ¬ WFL [[.label 1 true, .op ⟨1, "a", []⟩, .ljump ⟨2, "Jump", []⟩ (some 1), .label 1 true, .op ⟨3, "b", []⟩]] := by
  decide

/-! ### non-vacuity -/

/-- `def 0 { a(); if (Branch…) { b(); } §l; with (lives 1) { c(); } forever { d(); break_loop; } jump @l; }` -/
def exProg : Program :=
  ⟨[], [], [⟨some 0, "r", none,
    .cons (.op "a" []) (.cons (.ite false [⟨false, "Branch", [.int 1]⟩] (.cons (.op "b" []) .nil) .nil false .nil)
      (.cons (.label "l") (.cons (.with_ "lives" (.int 1) (.op "c" [])) (.cons (.forever (.cons (.op "d" []) (.cons .brkLoop .nil)))
        (.cons (.jump "l") .nil)))))⟩]⟩

example : FrontGuard exProg := by decide
example : compiles exProg = true := by decide

end ESV.C01Frontend
