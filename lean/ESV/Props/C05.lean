import ESV.Macro.OrderThms
import ESV.Macro.Pinned
import ESV.Macro.Import
import ESV.Beh.Search
/-
C05 — a macro call means its body inlined, in any definition order and file layout.

Behavioural part ("compiling a program that uses macros gives routines that behave exactly like the program with every
call replaced by the body"): decided per program by translation validation with `ESV.Beh.check_sound` /
`ESV.Beh.validate_sound` against `ESV.Src` (where `Stmt.macroCall` is the inlined body); no theorem here.

Ordering part ("every acyclic set of macro definitions compiles regardless of the order in which the macros are written")
and import part ("imports resolve relative to the importing file, absolutely, or through the lookup paths in their given
order"): theorems about the models `ESV.Macro` (MacroResolutionOrderVisitor + MacroVisitor's sort) and `ESV.Macro.Imp`
(`_resolve_imported_file`), which harness/props/c05.py compares with the real code on every run.

Since /repo commit 0989cb8 the ordering statements hold of the model of the code in full (`order_topological`,
`all_acyclic_compile`).  ESV/Macro/Pinned.lean holds the OLD ordering (`…Pinned`), only as the subject of the
`_counterexample` theorems below.
-/
namespace ESV.C05
open ESV.Macro
open scoped List

/-! ## ordering: the code as it is -/

/-- for every acyclic input the resolution order lists every callee before its callers -/
def OrderTopological : Prop :=
  ∀ (inp : Input Nat) (l : List Nat), Acyclic inp → visitStart inp = .ok l → Topological inp l

/-- the property's sentence about ordering: every acyclic closed set of macro definitions compiles (the definition order
is part of `inp`, so this is "regardless of the order in which the macros are written") -/
def AllAcyclicCompile : Prop :=
  ∀ (inp : Input Nat), Acyclic inp → (∀ d ∈ inp.defs, ∀ c ∈ d.2, c ∈ inp.imported ∨ ∃ d' ∈ inp.defs, d'.1 = c) →
    ∃ known, compileMacros inp = .ok known

/-- FULL: callees precede callers in the resolution order of every input that has one -/
theorem order_topological : OrderTopological :=
  fun _ _ _ h => (order_spec h).2.2

/-- FULL: every acyclic, closed set of macro definitions compiles, in every definition order -/
theorem all_acyclic_compile : AllAcyclicCompile :=
  fun inp ac hclosed => Macro.all_acyclic_compile inp ac hclosed

/-- the cycle check rejects exactly the inputs whose macros call each other in a circle -/
theorem cycle_detected_iff (inp : Input Nat) : (∃ v, visitStart inp = .error (.cycle v)) ↔ ¬ Acyclic inp :=
  Macro.cycle_detected_iff inp

/-- the ordering loop never fails to find a next macro (`next(…)` does not raise `StopIteration`) … -/
theorem visit_never_stops (inp : Input Nat) : visitStart inp ≠ .error .stopIteration :=
  Macro.visit_never_stops inp

/-- … so exactly the acyclic inputs get a resolution order -/
theorem visitStart_ok_iff (inp : Input Nat) : (∃ l, visitStart inp = .ok l) ↔ Acyclic inp :=
  Macro.visitStart_ok_iff inp

/-- the resolution order has no duplicates, consists exactly of the mentioned names, and every defined macro occurs in it
exactly once (MacroVisitor's `list.index` never raises) -/
theorem order_total (inp : Input Nat) (l : List Nat) (h : visitStart inp = .ok l) :
    l.Nodup ∧ (∀ x, x ∈ l ↔ Mentioned inp x) ∧ ∀ d ∈ inp.defs, l.count d.1 = 1 :=
  ⟨(order_spec h).1, (order_spec h).2.1, Macro.order_total h⟩

/-- any duplicate-free order that contains the defined macros and lists callees first makes all macros compile -/
theorem compiles_of_topological (inp : Input Nat) (l : List Nat) (hnd : l.Nodup)
    (hall : ∀ d ∈ inp.defs, d.1 ∈ l)
    (hclosed : ∀ d ∈ inp.defs, ∀ c ∈ d.2, c ∈ inp.imported ∨ ∃ d' ∈ inp.defs, d'.1 = c)
    (htopo : Topological inp l) : ∃ known, compileWith inp l = .ok known :=
  Macro.compiles_of_topological inp hnd hall hclosed htopo

/-! ## the repaired defect: the witness against the OLD ordering (`…Pinned`, ESV/Macro/Pinned.lean) -/

/-- `macro top() { ~mid(); ~leaf(); }  macro mid() { ~leaf(); }  macro leaf() { x(); }` written in this order
(top = 0, mid = 1, leaf = 2) -/
def witness : Input Nat := ⟨[], [(0, [1, 2]), (1, [2]), (2, [])]⟩

theorem witness_acyclic : Acyclic witness := by
  rw [← build_acyclic_iff, ← Graph.checkCycles_none_iff (build_spec witness).1]
  decide

/-- `OrderTopological` / `AllAcyclicCompile` with the old functions -/
def OrderTopologicalPinned : Prop :=
  ∀ (inp : Input Nat) (l : List Nat), Acyclic inp → visitStartPinned inp = .ok l → Topological inp l

def AllAcyclicCompilePinned : Prop :=
  ∀ (inp : Input Nat), Acyclic inp → (∀ d ∈ inp.defs, ∀ c ∈ d.2, c ∈ inp.imported ∨ ∃ d' ∈ inp.defs, d'.1 = c) →
    ∃ known, compileMacrosPinned inp = .ok known

/-- REPAIRED (0989cb8).  The pinned resolver ordered the witness [leaf, top, mid]: `mid` after its caller `top`.
The repaired code gives [leaf, mid, top]. -/
theorem order_topological_counterexample :
    visitStartPinned witness = .ok [2, 0, 1] ∧ ¬ OrderTopologicalPinned ∧ visitStart witness = .ok [2, 1, 0] := by
  refine ⟨by decide, fun h => ?_, by decide⟩
  have h1 := h witness [2, 0, 1] witness_acyclic (by decide) 1 0 ⟨(0, [1, 2]), by decide, rfl, by decide⟩
  revert h1
  decide

/-- REPAIRED (0989cb8).  The pinned compiler rejected the witness with "Macro mid not found." although it is acyclic and
closed; the repaired code compiles leaf, mid, top in this order. -/
theorem witness_does_not_compile :
    compileMacrosPinned witness = .error (.notFound 1) ∧ ¬ AllAcyclicCompilePinned ∧ compileMacros witness = .ok [2, 1, 0] := by
  refine ⟨by decide, fun h => ?_, by decide⟩
  obtain ⟨k, hk⟩ := h witness witness_acyclic (by decide)
  have : compileMacrosPinned witness = .error (.notFound 1) := by decide
  rw [this] at hk
  cases hk

/-! non-vacuity: a diamond with a shared callee, an imported macro and depth 3, written callers first, is acyclic and
compiles; a cycle is rejected; the loop's choice is the FIRST ready macro in order of first mention -/
def diamond : Input Nat := ⟨[9], [(0, [1, 2]), (1, [3, 9]), (2, [3]), (3, [])]⟩

example : Acyclic diamond := by
  rw [← build_acyclic_iff, ← Graph.checkCycles_none_iff (build_spec diamond).1]
  decide
example : visitStart diamond = .ok [9, 3, 1, 2, 0] := by decide
example : compileMacros diamond = .ok [9, 3, 1, 2, 0] := by decide
example : visitStart (⟨[], [(0, [1]), (1, [0])]⟩ : Input Nat) = .error (.cycle 0) := by decide
example : visitStart (⟨[], [(5, []), (4, [6]), (6, [])]⟩ : Input Nat) = .ok [5, 6, 4] := by decide

/-! ## import resolution -/

open Imp in
/-- `import "./x"` / `import "../x"`: the normalised concatenation with the importing file's directory, or "not found";
the lookup paths play no role -/
theorem resolve_relative (fs : Comps → Bool) (cwd : Comps) (dir : Str) (lookups : List Str) (imp : Str)
    (h : imp.head? = some '.') (hdir : dir.head? = some '/') :
    resolveOne fs cwd dir lookups imp =
      if fs (normalize ((parse dir).parts ++ (parse imp).parts))
      then .ok (normalize ((parse dir).parts ++ (parse imp).parts)) else .error .notFound :=
  Imp.resolve_relative fs cwd dir lookups imp h hdir

open Imp in
/-- `import "/x"`: the normalised path itself, whatever the importing file, working directory and lookup paths are -/
theorem resolve_absolute (fs : Comps → Bool) (cwd : Comps) (dir : Str) (lookups : List Str) (imp : Str)
    (h : imp.head? = some '/') :
    resolveOne fs cwd dir lookups imp =
      if fs (normalize (parse imp).parts) then .ok (normalize (parse imp).parts) else .error .notFound :=
  Imp.resolve_absolute fs cwd dir lookups imp h

open Imp in
/-- any other import: the candidate of the first lookup path (in list order) whose candidate exists -/
theorem resolve_lookup_first_match (fs : Comps → Bool) (cwd : Comps) (dir : Str) (lookups : List Str) (imp : Str)
    (h : isRelOrAbs imp = false) (hdot : hasDotComponent imp = false) (p : Comps) :
    resolveOne fs cwd dir lookups imp = .ok p ↔
      ∃ i, ∃ hi : i < lookups.length, candidate cwd dir imp lookups[i] = p ∧ fs p = true ∧
        ∀ j, ∀ hj : j < lookups.length, j < i → fs (candidate cwd dir imp lookups[j]) = false :=
  Imp.resolve_lookup_first_match fs cwd dir lookups imp h hdot p

open Imp in
/-- … "not found" exactly when no lookup path has an existing candidate -/
theorem resolve_lookup_none (fs : Comps → Bool) (cwd : Comps) (dir : Str) (lookups : List Str) (imp : Str)
    (h : isRelOrAbs imp = false) (hdot : hasDotComponent imp = false) :
    resolveOne fs cwd dir lookups imp = .error .notFound ↔ ∀ lp ∈ lookups, fs (candidate cwd dir imp lp) = false :=
  Imp.resolve_lookup_none fs cwd dir lookups imp h hdot

open Imp in
/-- `.` / `..` components in an import that is neither relative nor absolute are rejected, whatever exists -/
theorem resolve_rejects_dot_components (fs : Comps → Bool) (cwd : Comps) (dir : Str) (lookups : List Str) (imp : Str)
    (h : isRelOrAbs imp = false) (hdot : dot ∈ splitSlash imp ∨ dotdot ∈ splitSlash imp) :
    resolveOne fs cwd dir lookups imp = .error .invalid :=
  Imp.resolve_rejects_dot_components fs cwd dir lookups imp h hdot

/-! non-vacuity: the same name in two lookup directories — the first in list order wins; relative and absolute forms -/
section
open Imp
private def fsEx : Comps → Bool := fun p =>
  p = ["r".toList, "L1".toList, "m.exps".toList] || p = ["r".toList, "L2".toList, "m.exps".toList] ||
  p = ["r".toList, "lib".toList, "y.exps".toList]

example : resolveOne fsEx [] "/r/proj".toList ["/r/L2".toList, "/r/L1".toList] "m.exps".toList
    = .ok ["r".toList, "L2".toList, "m.exps".toList] := by decide
example : resolveOne fsEx [] "/r/proj".toList ["/r/L0".toList, "/r/L1".toList, "/r/L2".toList] "m.exps".toList
    = .ok ["r".toList, "L1".toList, "m.exps".toList] := by decide
example : resolveOne fsEx [] "/r/proj".toList [] "../lib/y.exps".toList = .ok ["r".toList, "lib".toList, "y.exps".toList] := by decide
example : resolveOne fsEx [] "/elsewhere".toList [] "/r/lib//y.exps".toList = .ok ["r".toList, "lib".toList, "y.exps".toList] := by decide
example : resolveOne fsEx [] "/r/proj".toList ["/r/L1".toList] "sub/../m.exps".toList = .error .invalid := by decide
example : resolveOne fsEx [] "/r/proj".toList ["/r/L3".toList] "m.exps".toList = .error .notFound := by decide
end

end ESV.C05
