import ESV.Macro.Order
import ESV.Macro.Import
import ESV.Beh.Search

namespace ESV.C05
open ESV.Macro

theorem resolve_relative := @Imp.resolve_relative
theorem resolve_absolute := @Imp.resolve_absolute
theorem resolve_lookup_first_match := @Imp.resolve_lookup_first_match
theorem resolve_lookup_none := @Imp.resolve_lookup_none
theorem resolve_rejects_dot_components := @Imp.resolve_rejects_dot_components

end ESV.C05
