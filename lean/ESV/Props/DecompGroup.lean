import ESV.Decomp.GrFinal
import ESV.Decomp.GrCounter
import ESV.Decomp.GrFuel
import ESV.Props.DecompBranches
/-
`group_branches` and `invert_branches`, the third and fourth rewriting phase of the decompiler, and the bridge from the
level-based reading of an if (`Graph.stepE`, up to `build_branches`) to the flag-based one (`BGraph.stepB`: the two
out-edges of an if are told apart by `is_else`; multi-ifs; `is_not`).  Both phases are deterministic and modelled
without an oracle (`lean/ESV/Decomp/Group.lean`).  Statements only; every hypothesis is a decidable predicate that the
harness evaluates on the real graphs on every run.
-/
namespace ESV.DecompFront
open ESV.Beh ESV.Decomp ESV.Decomp.Gr

/-- **bridge**: on a graph whose marked vertices are plain, not inverted ifs with exactly two out-edges of different
flow levels, the lower one flagged else (`bridgeOk`), the flag-based reading behaves like the level-based one, from
every vertex -/
theorem stepB_agrees (g : BGraph) (h : bridgeOk g = true) (v : Nat) (hv : v ≤ g.vs.length + 1) :
    Equivalent g.toGraph.ltsE g.ltsB v v := by
  have h1 := bridge_equiv g h v
  have h2 := ltsP_equiv_ltsB g (v, 0)
  rw [enc_vertex g v hv] at h2
  exact Equivalent.trans h1 h2

/-- … in particular on the graph that leaves `build_branches`: read by its flags it behaves like the graph that
entered the phase (hypotheses of `buildBranches_preserves`, and `bridgeOk` of the result) -/
theorem stepB_agrees_after_buildBranches (answers : List (Option (Nat × Nat))) (g g' : BGraph)
    (hs : branchesStructOk g = true) (ha : answersOk answers g = true) (h : buildBranches answers g = .ok g')
    (hb : bridgeOk g' = true) :
    Equivalent g'.toGraph.ltsE g'.ltsB (0 : Nat) (0 : Nat) ∧ Equivalent g.toGraph.ltsE g'.ltsB (0 : Nat) (0 : Nat) := by
  have h1 := stepB_agrees g' hb 0 (Nat.zero_le _)
  exact ⟨h1, Equivalent.trans (buildBranches_preserves answers g g' hs ha h) h1⟩

/-- **`group_branches` preserves behaviour**: for every graph in which an if has at most one out-edge per flag
(`flagsUnique`; shown necessary by `groupBranches_two_else_counterexample`), no if is inverted yet (`noNot`;
`groupBranches_inverted_counterexample`), and the vertices the phase merges away are not vertex 0 and have, when the
loop ends, no in-edge from a vertex that stays (`groupDelOk`; `groupBranches_in_edge_counterexample`, `groupBranches_start_vertex_counterexample`):
whenever the phase answers, the graph after it behaves like the graph before it, from the routine's first vertex. -/
theorem groupBranches_preserves (g g' : BGraph) (hs : groupStructOk g = true) (hd : groupDelOk g = true)
    (h : groupBranches g = .ok g') : Equivalent g.ltsB g'.ltsB (0 : Nat) (0 : Nat) :=
  (group_equiv g g' (ginv_of_bool g hs) hd h).1

/-- … and leaves the structure `invert_branches` needs -/
theorem groupBranches_invertStructOk (g g' : BGraph) (hs : groupStructOk g = true) (hd : groupDelOk g = true)
    (h : groupBranches g = .ok g') : invertStructOk g' = true := by
  obtain ⟨_, hfu, hnn⟩ := group_equiv g g' (ginv_of_bool g hs) hd h
  unfold invertStructOk
  rw [flagsUnique_of_fu g' hfu, noNot_of_nn g' hnn]; rfl

/-- the structure `group_branches` needs is what `build_branches` leaves behind: a graph that passes `bridgeOk` has one
out-edge per flag at its ifs, none of them inverted -/
theorem bridgeOk_groupStructOk (g : BGraph) (hb : bridgeOk g = true) : groupStructOk g = true := by
  obtain ⟨hfu, hnn⟩ := struct_of_bridgeOk g hb
  unfold groupStructOk
  rw [flagsUnique_of_fu g hfu, noNot_of_nn g hnn]; rfl

/-- `invert_branches` does not change the step function at all -/
theorem invertBranches_stepB (g g' : BGraph) (hs : invertStructOk g = true) (h : invertBranches g = .ok g') :
    g'.stepB = g.stepB := by
  unfold invertStructOk at hs
  simp only [Bool.and_eq_true] at hs
  exact invert_stepB g g' (fu_of_flagsUnique g hs.1) (nn_of_bool g hs.2) h

/-- **`invert_branches` preserves behaviour**: for every graph in which an if has at most one out-edge per flag
(`flagsUnique`; `invertBranches_two_else_counterexample`) and no if is inverted yet (`noNot`: the phase sets
`is_not = True` whatever it was; `invertBranches_twice_counterexample`), the graph after the phase behaves like the
graph before it. -/
theorem invertBranches_preserves (g g' : BGraph) (hs : invertStructOk g = true) (h : invertBranches g = .ok g') :
    Equivalent g.ltsB g'.ltsB (0 : Nat) (0 : Nat) :=
  equiv_of_step_eq g.stepB g'.stepB (invertBranches_stepB g g' hs h).symm 0

/-- **The modelled front of the decompiler through `invert_branches`** (one routine in isolation): the graph that leaves
`invert_branches`, read by its flags, behaves like the routine's item list the resolver produced - whenever all phases
answer, under the guards of `front_through_branches_preserve` and two more decidable facts about the graph `b` that
leaves `build_branches`: `bridgeOk b` and `groupDelOk b` (the structure hypotheses of the group / invert theorems
follow: `bridgeOk_groupStructOk`, `groupBranches_invertStructOk`). -/
theorem front_through_invert_preserve (labels : List Lbl) (opt : Bool) (rid : Nat) (items : List Item)
    (g g' : Graph) (names : List (Option Nat)) (answers : List (Option (Nat × Nat))) (b gb ib : BGraph)
    (hg : baseGraph labels opt rid items = .ok g) (hguard : ctxGuard items = true)
    (hnames : namesGuard items = true) (hns : noSilentCycle g = true)
    (ho : optimizePaths labels g = .ok g')
    (ha : answersOk answers (BGraph.ofGraph names g') = true)
    (hb : buildBranches answers (BGraph.ofGraph names g') = .ok b)
    (hbr : bridgeOk b = true) (hgd : groupDelOk b = true)
    (hgb : groupBranches b = .ok gb) (hib : invertBranches gb = .ok ib) :
    Equivalent (RMachine.lts ⟨labels, rid, items⟩) ib.ltsB (0 : Nat) (0 : Nat) := by
  have h1 := front_through_branches_preserve labels opt rid items g g' names answers b hg hguard hnames hns ho ha hb
  have hgs := bridgeOk_groupStructOk b hbr
  have h2 := stepB_agrees b hbr 0 (Nat.zero_le _)
  have h3 := groupBranches_preserves b gb hgs hgd hgb
  have h4 := invertBranches_preserves gb ib (groupBranches_invertStructOk b gb hgs hgd hgb) hib
  exact Equivalent.trans (Equivalent.trans (Equivalent.trans h1 h2) h3) h4

/-- non-vacuity: `if (Branch || BranchBit) { Foo } else { Bar }` - the hypotheses hold, the two ifs become one
multi-if with the second root op as extra test, the second if (vertex 1) is deleted, its `IfEnd(1)` is removed -/
example : bridgeOk exOr = true ∧ groupStructOk exOr = true ∧ groupDelOk exOr = true := by decide
example : (match groupBranches exOr with
    | .ok g' => (g'.vs.length, g'.vs.map (·.ifOps.map (·.name)), g'.es.map fun e => (e.src, e.dst, e.isElse), g'.vs.map (·.ifEnds))
    | .error _ => (0, [], [], [])) =
    (5, [["BranchBit"], [], [], [], []], [(0, 3, false), (1, 2, false), (3, 2, false), (2, 4, false), (0, 1, true)],
      [[], [], [0], [], []]) := by decide

/-- non-vacuity: `if (Branch) { } else { Foo }` becomes `if not (Branch) { Foo }` -/
example : invertStructOk exInvert = true := by decide
example : (match invertBranches exInvert with
    | .ok g' => (g'.vs.map (·.isNot), g'.es.map fun e => (e.src, e.dst, e.isElse))
    | .error _ => ([], [])) =
    ([true, false, false, false], [(0, 1, false), (0, 2, true), (1, 2, false), (2, 3, false)]) := by decide

end ESV.DecompFront
