import ESV.Decomp.LpLoops
import ESV.Decomp.LpRemFinal
import ESV.Decomp.LpMark
import ESV.Decomp.LpCounter
import ESV.Decomp.GraphCounter
import ESV.Props.DecompSwitch
/-
`build_switch_fallthroughs`, `build_loops` and `remove_label_markers`, the last three rewriting phases of the decompiler (model
lean/ESV/Decomp/Loops.lean; the DECISION parts of the first two are ORACLE INPUTS), and the reading `stepL` of the graphs that are
handed to the writers (lean/ESV/Decomp/SemL.lean: `stepS` plus the vertices `build_loops` inserts, which are silent).  Statements
only; every hypothesis is a decidable predicate (lean/ESV/Decomp/LpGuard.lean) that the harness evaluates on the real graphs and the
recorded real oracle answers on every run.
-/
namespace ESV.DecompFront
open ESV.Beh ESV.Decomp

/-- **bridge**: on a graph without inserted vertices the two readings are LITERALLY the same step function -/
theorem stepL_agrees (g : BGraph) (h : noSynthetic g = true) : g.stepL = g.stepS :=
  ESV.Decomp.Lp.stepL_eq_stepS g (ESV.Decomp.Lp.noSyn_of g h)

/-- **`build_switch_fallthroughs` preserves behaviour**: whichever labels it marks (`marked`: the oracle), the step function is
LITERALLY unchanged, under both readings - the `SwitchFalltrough` marker is read by no step. -/
theorem buildSwitchFallthroughs_preserves (marked : List Nat) (g g' : BGraph) (h : buildSwitchFallthroughs marked g = .ok g') :
    g'.stepS = g.stepS ∧ g'.stepL = g.stepL :=
  have hc := ESV.Decomp.Lp.markFallthroughs_sameCore marked g g' h
  ⟨hc.stepS, hc.stepL⟩

/-- **`build_loops` preserves behaviour**: for EVERY sequence of loop constructions the unmodelled decision part may come up
with (`records`; `raised`: the exception that left it, if any), if no inserted vertex of the graph that enters the phase is an if
or a switch (`synPlainOk`: that graph has no inserted vertices) and every construction, on the graph as it is when it is carried
out (`recOk`),
* names edges of the graph (`idsOk`) that join vertices of the graph (`edgesInRangeB`: igraph guarantees it);
* has continue edges that lead to the loop's start vertex (`contOk`; `buildLoops_continue_target_counterexample`);
* leaves a graph in which whatever a vertex reads from its out-edges has one value (`detOk`: the split edge gets the highest target
  id, so "the first out-edge in igraph's order" may become another one; `buildLoops_levels_counterexample`) and the inserted
  vertices are context ops exactly if the vertices in front of them are (`synCtxOk`; `buildLoops_context_counterexample`):
whenever the phase answers, the graph after it - the inserted `break_loop` / `continue` vertices performing nothing - behaves like the
graph before it, from the routine's first vertex (no vertex is deleted: vertex 0 stays vertex 0). -/
theorem buildLoops_preserves (records : List LoopRec) (raised : Option String) (g g' : BGraph)
    (hr : loopRecordsOk records g = true) (h : buildLoops records g raised = .ok g') :
    Equivalent g.ltsL g'.ltsL (0 : Nat) (0 : Nat) :=
  ESV.Decomp.Lp.buildLoops_equiv records raised g g' hr h

/-- … from the reading `stepS` of the graph that enters the phase (no inserted vertices yet) -/
theorem buildLoops_preserves_from_stepS (records : List LoopRec) (raised : Option String) (g g' : BGraph)
    (hn : noSynthetic g = true) (hr : loopRecordsOk records g = true) (h : buildLoops records g raised = .ok g') :
    Equivalent g.ltsS g'.ltsL (0 : Nat) (0 : Nat) :=
  Equivalent.trans (ESV.Decomp.Gr.equiv_of_step_eq g.stepS g.stepL (stepL_agrees g hn).symm (0 : Nat))
    (buildLoops_preserves records raised g g' hr h)

/-- **`remove_label_markers` preserves behaviour**: for every graph in which whatever a vertex reads from its out-edges has one value
(`detOk`, also on the graph between the two loops; `removeLabelMarkers_levels_counterexample`), the inserted vertices are neither ifs
nor switches (`synPlainOk`), RAISING THE FLOW LEVEL of the by-passed edges in the first loop keeps the order of the flow levels among
the out-edges of every vertex that is read by its flow levels (`raiseOk`; `removeLabelMarkers_raise_counterexample`:
`call @a; jump @b;` - the fall-through edge of the Call is raised to the level of its jump edge), and in both loops (`bypOk`, on the
state in front of the `delete_vertices`)
* vertex 0 stays (`removeLabelMarkers_start_vertex_counterexample`: the code protects vertex 0 only when nothing leads to it);
* the copy of an edge that comes from a context op does not lead to a plain op (`removeLabelMarkers_context_counterexample`);
* what goes is a label or an unmarked Jump, a by-passed vertex leads on all its out-edges to the vertex its in-edge was copied to, that
  vertex stays, and an edge from a vertex that stays to one that goes is the by-passed edge (these hold whenever the pass answers - its
  own tests and assertions see to it -; they are checked, not proved):
whenever the phase answers, the graph after it behaves like the graph before it, from the routine's first vertex (which is still
vertex 0: nothing in front of it is deleted). -/
theorem removeLabelMarkers_preserves (labels : List Lbl) (g g' : BGraph) (hok : removeOk labels g = true)
    (h : removeLabelMarkers labels g = .ok g') : Equivalent g.ltsL g'.ltsL (0 : Nat) (0 : Nat) :=
  ESV.Decomp.Lp.removeLabelMarkers_equiv labels g g' hok h

/-- **The whole graph phase of the decompiler** (one routine in isolation): the graph that is handed to the writers - eleven passes
in -, read with `stepL`, behaves like the routine's item list the resolver produced, whenever all passes answer, under the guards of
`front_through_switch_preserve` and the decidable hypotheses of the theorems above on the graphs `fl` (after
`build_switch_fallthroughs`) and `bl` (after `build_loops`). -/
theorem front_through_graph_phase_preserve (labels : List Lbl) (opt : Bool) (rid : Nat) (items : List Item)
    (g g' : Graph) (names : List (Option Nat)) (answers : List (Option (Nat × Nat))) (b gb ib : BGraph)
    (swAnswers : List (Option (List Nat))) (sc gs : BGraph)
    (marked : List Nat) (fl : BGraph) (records : List LoopRec) (raised : Option String) (bl rl : BGraph)
    (hg : baseGraph labels opt rid items = .ok g) (hguard : ctxGuard items = true)
    (hnames : namesGuard items = true) (hns : noSilentCycle g = true)
    (ho : optimizePaths labels g = .ok g')
    (ha : answersOk answers (BGraph.ofGraph names g') = true)
    (hb : buildBranches answers (BGraph.ofGraph names g') = .ok b)
    (hbr : bridgeOk b = true) (hgd : groupDelOk b = true)
    (hgb : groupBranches b = .ok gb) (hib : invertBranches gb = .ok ib)
    (hss : switchStructOk ib = true) (hsa : switchAnswersOk swAnswers ib = true)
    (hsc : buildSwitchCases swAnswers ib = .ok sc)
    (hgss : groupSwStructOk sc = true) (hgs : groupSwitchCases sc = .ok gs)
    (hfl : buildSwitchFallthroughs marked gs = .ok fl)
    (hnsyn : noSynthetic fl = true) (hro : loopRecordsOk records fl = true)
    (hbl : buildLoops records fl raised = .ok bl)
    (hrm : removeOk labels bl = true) (hrl : removeLabelMarkers labels bl = .ok rl) :
    Equivalent (RMachine.lts ⟨labels, rid, items⟩) rl.ltsL (0 : Nat) (0 : Nat) := by
  have h1 := front_through_switch_preserve labels opt rid items g g' names answers b gb ib swAnswers sc gs hg hguard hnames hns ho ha hb
    hbr hgd hgb hib hss hsa hsc hgss hgs
  have h2 : Equivalent gs.ltsS fl.ltsS (0 : Nat) (0 : Nat) :=
    ESV.Decomp.Gr.equiv_of_step_eq gs.stepS fl.stepS (buildSwitchFallthroughs_preserves marked gs fl hfl).1.symm (0 : Nat)
  have h3 := buildLoops_preserves_from_stepS records raised fl bl hnsyn hro hbl
  have h4 := removeLabelMarkers_preserves labels bl rl hrm hrl
  exact Equivalent.trans (Equivalent.trans (Equivalent.trans h1 h2) h3) h4

end ESV.DecompFront

/-! ## counterexamples: each clause that can fail while the pass answers is needed -/
namespace ESV.Decomp
open ESV.Beh

theorem lp_cex (g g' : BGraph) (ω : Nat → Bool) (t₁ t₂ : List (Obs Ev))
    (h₁ : run g.ltsL ω 14 0 (0 : Nat) = (t₁, none)) (h₂ : run g'.ltsL ω 14 0 (0 : Nat) = (t₂, none)) (hne : t₁ ≠ t₂) :
    ¬ Equivalent g.ltsL g'.ltsL (0 : Nat) (0 : Nat) :=
  fun h => not_sim_of_traces g.ltsL g'.ltsL (0 : Nat) (0 : Nat) ω 14 14 t₁ t₂ h₁ h₂ hne h.1

/-- `contOk` is needed: `build_loops` leads the inserted `continue` vertex to the loop's start vertex, wherever the edge went -/
theorem buildLoops_continue_target_counterexample :
    BGraph.contOk cexLpCont ⟨2, [], [0]⟩ = false ∧ edgesInRangeB cexLpCont = true ∧ BGraph.idsOk cexLpCont ⟨2, [], [0]⟩ = true ∧
    ∃ g', buildLoops cexLpContRecs cexLpCont = .ok g' ∧ detOk g' = true ∧ synCtxOk g' = true ∧
      ¬ Equivalent cexLpCont.ltsL g'.ltsL (0 : Nat) (0 : Nat) := by
  refine ⟨by decide, by decide, by decide, afterLoops cexLpContRecs cexLpCont, by rfl, by decide, by decide, ?_⟩
  exact lp_cex _ _ (fun _ => true) [.op ⟨"Foo", []⟩, .op ⟨"Bar", []⟩, .stop evReturn] [.op ⟨"Bar", []⟩, .stop evReturn]
    (by rfl) (by rfl) (by decide)

/-- `synCtxOk` is needed: the inserted vertex copies the root of the if in front of it; were that root a context op, the op behind
the inserted vertex would stand "directly behind a context op" -/
theorem buildLoops_context_counterexample :
    BGraph.contOk cexLpCtx ⟨0, [1], [3]⟩ = true ∧ edgesInRangeB cexLpCtx = true ∧ BGraph.idsOk cexLpCtx ⟨0, [1], [3]⟩ = true ∧
    ∃ g', buildLoops cexLpCtxRecs cexLpCtx = .ok g' ∧ detOk g' = true ∧ synCtxOk g' = false ∧
      ¬ Equivalent cexLpCtx.ltsL g'.ltsL (0 : Nat) (0 : Nat) := by
  refine ⟨by decide, by decide, by decide, afterLoops cexLpCtxRecs cexLpCtx, by rfl, by decide, by decide, ?_⟩
  exact lp_cex _ _ (fun _ => true) [.tst ⟨"lives", []⟩ true, .stop evReturn] [.tst ⟨"lives", []⟩ true, .op ⟨"Return", []⟩, .stop evReturn]
    (by rfl) (by rfl) (by decide)

/-- `detOk` is needed: the copy of a split edge leads to the inserted vertex, which has the highest id - among out-edges of one
flow level ANOTHER one is then the first in igraph's order -/
theorem buildLoops_levels_counterexample :
    BGraph.contOk cexLpLvl ⟨0, [1], [3]⟩ = true ∧ edgesInRangeB cexLpLvl = true ∧ BGraph.idsOk cexLpLvl ⟨0, [1], [3]⟩ = true ∧
    ∃ g', buildLoops cexLpLvlRecs cexLpLvl = .ok g' ∧ detOk g' = false ∧ synCtxOk g' = true ∧
      ¬ Equivalent cexLpLvl.ltsL g'.ltsL (0 : Nat) (0 : Nat) := by
  refine ⟨by decide, by decide, by decide, afterLoops cexLpLvlRecs cexLpLvl, by rfl, by decide, by decide, ?_⟩
  exact lp_cex _ _ (fun _ => true) [.op ⟨"Foo", []⟩, .op ⟨"Bar", []⟩, .stop evReturn] [.op ⟨"Foo", []⟩, .op ⟨"Qux", []⟩, .stop evReturn]
    (by rfl) (by rfl) (by decide)

/-- the clauses of `removeOk` about the first loop, on the state in front of its `delete_vertices` -/
def jumpsFacts (g : BGraph) : Bool × Bool :=
  match removeJumpsRaw g with
  | .ok (g1, del, bs) => (raiseOk g bs, bypOk g1 del bs)
  | .error _ => (true, true)

/-- `raiseOk` is needed - THE RAISED FLOW LEVEL: `call @a; jump @b; §a: Foo; §b: Bar` - the Jump is by-passed, the fall-through edge
of the Call now leads to `§b` with the flow level of the Call's jump edge; read by its flow levels the Call has lost its
fall-through successor -/
theorem removeLabelMarkers_raise_counterexample :
    detOk cexRmRaise = true ∧ synPlainOk cexRmRaise = true ∧ jumpsFacts cexRmRaise = (false, true) ∧
    ∃ g', removeLabelMarkers [] cexRmRaise = .ok g' ∧ ¬ Equivalent cexRmRaise.ltsL g'.ltsL (0 : Nat) (0 : Nat) := by
  refine ⟨by decide, by decide, by decide, afterRemove [] cexRmRaise, by rfl, ?_⟩
  exact lp_cex _ _ (fun _ => false) [.tst ⟨"Call", []⟩ false, .op ⟨"Bar", []⟩, .stop evReturn] [.tst ⟨"Call", []⟩ false, .stop evReturn]
    (by rfl) (by rfl) (by decide)

/-- `bypOk` is needed (1): a Jump at vertex 0 that is also reached by a jump back is by-passed and deleted - the routine then starts
with whatever comes next in the vertex list -/
theorem removeLabelMarkers_start_vertex_counterexample :
    detOk cexRmStart = true ∧ synPlainOk cexRmStart = true ∧ jumpsFacts cexRmStart = (true, false) ∧
    ∃ g', removeLabelMarkers [] cexRmStart = .ok g' ∧ ¬ Equivalent cexRmStart.ltsL g'.ltsL (0 : Nat) (0 : Nat) := by
  refine ⟨by decide, by decide, by decide, afterRemove [] cexRmStart, by rfl, ?_⟩
  exact lp_cex _ _ (fun k => k == 0)
    [.op ⟨"Foo", []⟩, .tst ⟨"Branch", []⟩ true, .op ⟨"Foo", []⟩, .tst ⟨"Branch", []⟩ false, .stop evReturn]
    [.op ⟨"Qux", []⟩, .stop evReturn] (by rfl) (by rfl) (by decide)

/-- `bypOk` is needed (2): `lives; §l: Return` - without the label the Return stands directly behind the context op -/
theorem removeLabelMarkers_context_counterexample :
    detOk cexRmCtx = true ∧ synPlainOk cexRmCtx = true ∧ jumpsFacts cexRmCtx = (true, true) ∧ removeOk [] cexRmCtx = false ∧
    ∃ g', removeLabelMarkers [] cexRmCtx = .ok g' ∧ ¬ Equivalent cexRmCtx.ltsL g'.ltsL (0 : Nat) (0 : Nat) := by
  refine ⟨by decide, by decide, by decide, by decide, afterRemove [] cexRmCtx, by rfl, ?_⟩
  exact lp_cex _ _ (fun _ => true) [.op ⟨"lives", []⟩, .stop evReturn] [.op ⟨"lives", []⟩, .op ⟨"Return", []⟩, .stop evReturn]
    (by rfl) (by rfl) (by decide)

/-- `detOk` is needed: the copy of a by-passed edge is appended - among out-edges of one flow level ANOTHER one is then the
first in igraph's order -/
theorem removeLabelMarkers_levels_counterexample :
    detOk cexRmLvl = false ∧ synPlainOk cexRmLvl = true ∧ jumpsFacts cexRmLvl = (true, true) ∧
    ∃ g', removeLabelMarkers [] cexRmLvl = .ok g' ∧ ¬ Equivalent cexRmLvl.ltsL g'.ltsL (0 : Nat) (0 : Nat) := by
  refine ⟨by decide, by decide, by decide, afterRemove [] cexRmLvl, by rfl, ?_⟩
  exact lp_cex _ _ (fun _ => true) [.op ⟨"Foo", []⟩, .op ⟨"Bar", []⟩, .stop evReturn] [.op ⟨"Foo", []⟩, .op ⟨"Qux", []⟩, .stop evReturn]
    (by rfl) (by rfl) (by decide)

end ESV.Decomp

namespace ESV.DecompFront
open ESV.Beh ESV.Decomp

/-- vertex count, inserted flags, loop markers (start, ends, break, continue), edges (source, target, level, loop flag) -/
def lpSummary (r : Except String BGraph) :
    Nat × List Bool × List (Option Nat × List Nat × Option Nat × Option Nat) × List (Nat × Nat × Nat × Bool) :=
  match r with
  | .ok g => (g.vs.length, g.vs.map (·.synthetic), g.vs.map (fun x => (x.foreverStart, x.foreverEnds, x.foreverBreak, x.foreverContinue)),
      g.es.map fun e => (e.src, e.dst, e.level, e.loop))
  | .error _ => (0, [], [], [])

/-- non-vacuity: `§l: Foo; if (Branch) { break } Bar; jump @l (loop edge); §e: Baz` - the hypotheses hold; the if (marked) gets an
inserted `break_loop` vertex 7, the unmarked Jump back is marked `continue`, the start label carries `ForeverStart(0)` -/
def exLoop : BGraph :=
  { vs := [sLab 0 1, sOp 1 0 "Foo", sIf 2 1 "Branch" 0, sOp 3 2 "Bar", sLj 4 3 "Jump", sLab 5 2, sOp 6 4 "Baz"],
    es := [sE 0 1 0, sE 1 2 0, sE 2 5 1, sE 2 3 0 true, sE 3 4 0, ⟨4, 0, 1, true, false, []⟩, sE 5 6 0] }
example : noSynthetic exLoop = true ∧ loopRecordsOk [⟨0, [2], [5]⟩] exLoop = true := by decide
example : lpSummary (buildLoops [⟨0, [2], [5]⟩] exLoop) =
    (8, [false, false, false, false, false, false, false, true],
      [(some 0, [], none, none), (none, [], none, none), (none, [], none, none), (none, [], none, none), (none, [], none, some 0),
        (none, [], none, none), (none, [], none, none), (none, [], some 0, none)],
      [(0, 1, 0, false), (1, 2, 0, false), (2, 3, 0, false), (3, 4, 0, false), (4, 0, 1, true), (5, 6, 0, false), (2, 7, 1, false),
        (7, 5, 1, false)]) := by rfl

/-- non-vacuity: `Foo; jump @a; §a: Bar; §b: Baz` - the hypotheses hold; the Jump is by-passed (copy of its in-edge, one flow level up),
then the label `§b` (one in-edge); `§a` stays: `force_write` -/
def exRemove : BGraph :=
  { vs := [sOp 0 0 "Foo", sLj 1 1 "Jump", sLab 2 1, sOp 3 2 "Bar", sLab 4 2, sOp 5 3 "Baz"],
    es := [sE 0 1 0, sE 1 2 1, sE 2 3 0, sE 3 4 0, sE 4 5 0] }
example : removeOk [] exRemove = true := by decide
example : lpSummary (removeLabelMarkers [] exRemove) =
    (4, [false, false, false, false], [(none, [], none, none), (none, [], none, none), (none, [], none, none), (none, [], none, none)],
      [(1, 2, 0, false), (0, 1, 1, false), (2, 3, 0, false)]) := by rfl

end ESV.DecompFront
