import ESV.Gen.Tables
import ESV.Beh.Spec
/- Tie between the tables regenerated from /repo and the pinned specification tables. -/
namespace ESV.TableTie

theorem opsBranch_eq : ESV.Gen.opsBranch = ESV.Spec.opsBranch := by decide
theorem opsWithJump_eq : ESV.Gen.opsWithJump = ESV.Spec.opsWithJump := by decide
theorem opsEndFlow_eq : ESV.Gen.opsEndFlow = ESV.Spec.opsEndFlow := by decide
theorem opsJumpGuaranteed_eq : ESV.Gen.opsJumpGuaranteed = ESV.Spec.opsJumpGuaranteed := by decide
theorem opsCtx_eq : ESV.Gen.opsCtx = ESV.Spec.opsCtx := by decide
theorem opsSwitchCaseMap_eq : ESV.Gen.opsSwitchCaseMap = ESV.Spec.opsSwitchCaseMap := by decide
theorem opsSwitchTextCaseMap_eq : ESV.Gen.opsSwitchTextCaseMap = ESV.Spec.opsSwitchTextCaseMap := by decide
theorem opsRegularCases_eq : ESV.Gen.opsRegularCases = ESV.Spec.opsRegularCases := by decide
theorem op_jump_eq : ESV.Gen.op_jump = ESV.Spec.op_jump := by decide
theorem op_call_eq : ESV.Gen.op_call = ESV.Spec.op_call := by decide
theorem op_return_eq : ESV.Gen.op_return = ESV.Spec.op_return := by decide
theorem op_end_eq : ESV.Gen.op_end = ESV.Spec.op_end := by decide
theorem op_hold_eq : ESV.Gen.op_hold = ESV.Spec.op_hold := by decide
theorem op_dummy_end_eq : ESV.Gen.op_dummy_end = ESV.Spec.op_dummy_end := by decide
theorem spacesPerIndent_eq : ESV.Gen.spacesPerIndent = ESV.Spec.spacesPerIndent := by decide
theorem ssbOperators_eq : ESV.Gen.ssbOperators = ESV.Spec.ssbOperators := by decide
theorem ssbCalcOperators_eq : ESV.Gen.ssbCalcOperators = ESV.Spec.ssbCalcOperators := by decide
theorem routineTypes_eq : ESV.Gen.routineTypes = ESV.Spec.routineTypes := by decide

/-- every op that carries a jump has its target last: the declared index is the arity without the target -/
theorem dummy_end_is_return : ESV.Gen.op_dummy_end = ESV.Gen.op_return := by decide

end ESV.TableTie
