import ESV.Static.Lemmas
/-
C10 — Compilation fails only in documented ways and rejects meaningless programs.
Property statements and final theorems only; the model is ESV/Static/Wf.lean (static AST: ESV/Static/Ast.lean),
lemmas are in ESV/Static/Lemmas.lean.

Part proved here: every listed statically meaningless shape is rejected by the model of the compiler's rejection
sites, for ALL files / import worlds, with a documented class.  `checkLocal cfg imported f false` is the compilation
of the file `f` given the macros `imported` delivered by its imports; `Static.check p` is the same for a core
program (no imports); `checkWorld cfg w root` includes the import recursion.
Part NOT proved (explored by harness/props/c10.py): exception classes for arbitrary strings (ANTLR runtime).

History: on the pinned tree two clauses were false (a routine made of calls of label-only macros crashed in
strip_last_label with IndexError before the label check; routines in an imported file were accepted because the
macros-only check parsed the exhausted token stream a second time).  Both are repaired in /repo (`fix:` commits, see
known_findings.jsonl, status fixed); the model follows the repaired code and every theorem below is unguarded.
-/
namespace ESV.C10
open ESV ESV.Static

/-- the statement `s` is collected in a routine or macro body of `f`, inside a loop iff `l`, inside a switch case
iff `c` (loops do not reset the case flag, cases do not reset the loop flag, macro bodies start with both off) -/
def OccursIn (f : File) (l c : Bool) (s : Stmt) : Prop := ∃ b ∈ f.bodies, (l, c, s) ∈ occs b

/-- first routine of a file, `def 0 { body }` -/
def rt (b : Stmts) : Routine := { id := some 0, body := some b }

theorem rejects_of_collect (cfg : Cfg) (imported : List Macro) (f : File) (l c : Bool) (s : Stmt)
    (ho : OccursIn f l c s) (hf : (collectS ⟨cfg.perfVar, imported ++ f.macros⟩ l c s).ok? = false) :
    ∃ e, checkLocal cfg imported f false = .error e ∧ e ∈ documented := by
  obtain ⟨b, hb, hm⟩ := ho
  exact checkLocal_fail_of_body cfg imported f b hb (bodyCheck_fail_collect _ b (l, c, s) hm hf)

theorem rejects_of_add (cfg : Cfg) (imported : List Macro) (f : File) (l c : Bool) (s : Stmt)
    (ho : OccursIn f l c s) (hf : addOkS cfg.perfVar s = false) :
    ∃ e, checkLocal cfg imported f false = .error e ∧ e ∈ documented := by
  obtain ⟨b, hb, hm⟩ := ho
  exact checkLocal_fail_of_body cfg imported f b hb (bodyCheck_fail_add ⟨cfg.perfVar, imported ++ f.macros⟩ b (l, c, s) hm hf)

/-! ## stray control statements -/
/-- `break` at a position not enclosed by a switch case -/
def HasBreakOutside (f : File) : Prop := ∃ l, OccursIn f l false .brk
/-- `continue` at a position not enclosed by a loop -/
def HasContinueOutside (f : File) : Prop := ∃ c, OccursIn f false c .cont
/-- `break_loop` at a position not enclosed by a loop -/
def HasBreakLoopOutside (f : File) : Prop := ∃ c, OccursIn f false c .brkLoop

theorem rejects_break_outside (cfg : Cfg) (imported : List Macro) (f : File) (h : HasBreakOutside f) :
    ∃ e, checkLocal cfg imported f false = .error e ∧ e ∈ documented := by
  obtain ⟨l, ho⟩ := h
  exact rejects_of_collect cfg imported f l false .brk ho (by simp [collectS])

theorem rejects_continue_outside (cfg : Cfg) (imported : List Macro) (f : File) (h : HasContinueOutside f) :
    ∃ e, checkLocal cfg imported f false = .error e ∧ e ∈ documented := by
  obtain ⟨c, ho⟩ := h
  exact rejects_of_collect cfg imported f false c .cont ho (by simp [collectS])

theorem rejects_break_loop_outside (cfg : Cfg) (imported : List Macro) (f : File) (h : HasBreakLoopOutside f) :
    ∃ e, checkLocal cfg imported f false = .error e ∧ e ∈ documented := by
  obtain ⟨c, ho⟩ := h
  exact rejects_of_collect cfg imported f false c .brkLoop ho (by simp [collectS])

/-! ## switches -/
/-- a switch whose last case (or default) has no statements -/
def HasSwitchEndingEmpty (f : File) : Prop := ∃ l c cs, OccursIn f l c (.switch cs) ∧ cs.endsEmpty = true

theorem rejects_switch_ends_empty (cfg : Cfg) (imported : List Macro) (f : File) (h : HasSwitchEndingEmpty f) :
    ∃ e, checkLocal cfg imported f false = .error e ∧ e ∈ documented := by
  obtain ⟨l, c, cs, ho, he⟩ := h
  exact rejects_of_collect cfg imported f l c (.switch cs) ho (by simp [collectS, he])

/-- a switch or message switch with two `default`s -/
def HasTwoDefaults (f : File) : Prop :=
  ∃ l c cs, (OccursIn f l c (.switch cs) ∨ OccursIn f l c (.msgSwitch cs)) ∧ 2 ≤ cs.defaults

theorem rejects_two_defaults (cfg : Cfg) (imported : List Macro) (f : File) (h : HasTwoDefaults f) :
    ∃ e, checkLocal cfg imported f false = .error e ∧ e ∈ documented := by
  obtain ⟨l, c, cs, ho | ho, hd⟩ := h
  · exact rejects_of_add cfg imported f l c (.switch cs) ho (by simp [addOkS]; omega)
  · exact rejects_of_add cfg imported f l c (.msgSwitch cs) ho (by simp [addOkS]; omega)

def hasStmtCase : Cases → Bool
  | .nil => false
  | .cons _ _ isStr _ r => !isStr || hasStmtCase r

theorem msgOk_false_of_stmtCase : ∀ cs : Cases, hasStmtCase cs = true → cs.msgOk = false
  | .nil, h => by simp [hasStmtCase] at h
  | .cons d i s b r, h => by
    simp only [hasStmtCase, Bool.or_eq_true, Bool.not_eq_true'] at h
    rcases h with h | h
    · simp [Cases.msgOk, h]
    · simp [Cases.msgOk, msgOk_false_of_stmtCase r h]

/-- a message switch with a case (or default) that holds statements (possibly none) instead of one string -/
def HasStmtsInMessageSwitch (f : File) : Prop := ∃ l c cs, OccursIn f l c (.msgSwitch cs) ∧ hasStmtCase cs = true

theorem rejects_stmts_in_message_switch (cfg : Cfg) (imported : List Macro) (f : File) (h : HasStmtsInMessageSwitch f) :
    ∃ e, checkLocal cfg imported f false = .error e ∧ e ∈ documented := by
  obtain ⟨l, c, cs, ho, hs⟩ := h
  exact rejects_of_collect cfg imported f l c (.msgSwitch cs) ho (by simp [collectS, msgOk_false_of_stmtCase cs hs])

/-! ## with-blocks, bit tests -/
def HasLabelInWith (f : File) : Prop := ∃ l c n, OccursIn f l c (.with_ (.label n))

theorem rejects_label_in_with (cfg : Cfg) (imported : List Macro) (f : File) (h : HasLabelInWith f) :
    ∃ e, checkLocal cfg imported f false = .error e ∧ e ∈ documented := by
  obtain ⟨l, c, n, ho⟩ := h
  exact rejects_of_add cfg imported f l c _ ho (by simp [addOkS, Stmt.isLabel])

def branchesBadHdr (perf : String) : Branches → Bool
  | .nil => false
  | .cons _ hdrs _ r => !hdrsOk perf hdrs || branchesBadHdr perf r

/-- the statement carries, in an `if`/`elseif`/`while`/`for` header, `not v[i]` with `v` other than the
performance progress list -/
def notOnBit (perf : String) : Stmt → Bool
  | .ite bs _ => branchesBadHdr perf bs
  | .while_ h _ => !h.ok perf
  | .for_ _ h _ _ => !h.ok perf
  | _ => false

theorem hdr_bad_iff (perf : String) (h : Hdr) : h.ok perf = false ↔ ∃ v, h = .bit true v ∧ v ≠ perf := by
  cases h with
  | plain => simp [Hdr.ok]
  | bit neg var => cases neg <;> simp [Hdr.ok]

theorem pass1_fail_of_badHdr (env : Env) (l c : Bool) : ∀ bs : Branches, branchesBadHdr env.perf bs = true →
    (pass1 env l c bs).ok? = false
  | .nil, h => by simp [branchesBadHdr] at h
  | .cons neg hdrs body r, h => by
    simp only [branchesBadHdr, Bool.or_eq_true, Bool.not_eq_true'] at h
    rcases h with h | h
    · simp [pass1, h]
    · simp [pass1, pass1_fail_of_badHdr env l c r h]

def HasNotOnBit (perf : String) (f : File) : Prop := ∃ l c s, OccursIn f l c s ∧ notOnBit perf s = true

theorem rejects_not_on_bit (cfg : Cfg) (imported : List Macro) (f : File) (h : HasNotOnBit cfg.perfVar f) :
    ∃ e, checkLocal cfg imported f false = .error e ∧ e ∈ documented := by
  obtain ⟨l, c, s, ho, hn⟩ := h
  cases s with
  | ite bs els =>
    refine rejects_of_collect cfg imported f l c _ ho ?_
    have := pass1_fail_of_badHdr ⟨cfg.perfVar, imported ++ f.macros⟩ l c bs (by simpa [notOnBit] using hn)
    simp [collectS, this]
  | while_ h body =>
    refine rejects_of_add cfg imported f l c _ ho ?_
    have : h.ok cfg.perfVar = false := by simpa [notOnBit] using hn
    simp [addOkS, this]
  | for_ init h inc body =>
    refine rejects_of_add cfg imported f l c _ ho ?_
    have : h.ok cfg.perfVar = false := by simpa [notOnBit] using hn
    simp [addOkS, this]
  | _ => simp [notOnBit] at hn

/-! ## macros -/
theorem findMacro_none (ms : List Macro) (n : String) (h : ∀ m ∈ ms, m.name ≠ n) : findMacro ms n = none := by
  unfold findMacro
  rw [List.find?_eq_none]
  intro m hm
  simpa using h m (List.mem_reverse.mp hm)

/-- a call of a macro defined neither in the file nor by its imports -/
def HasUnknownMacro (imported : List Macro) (f : File) : Prop :=
  ∃ l c n k, OccursIn f l c (.macroCall n k) ∧ ∀ m ∈ imported ++ f.macros, m.name ≠ n

theorem rejects_unknown_macro (cfg : Cfg) (imported : List Macro) (f : File) (h : HasUnknownMacro imported f) :
    ∃ e, checkLocal cfg imported f false = .error e ∧ e ∈ documented := by
  obtain ⟨l, c, n, k, ho, hn⟩ := h
  exact rejects_of_collect cfg imported f l c _ ho (by simp [collectS, findMacro_none _ n hn])

/-- a call that leaves a variable of the macro without value -/
def HasTooFewArgs (imported : List Macro) (f : File) : Prop :=
  ∃ l c n k m, OccursIn f l c (.macroCall n k) ∧ findMacro (imported ++ f.macros) n = some m ∧ tooFew m.vars k = true

/-- fewer arguments than (pairwise different) variables is too few -/
theorem tooFew_of_lt (vars : List String) (k : Nat) (hk : k < vars.length) (hn : vars.Nodup) : tooFew vars k = true := by
  unfold tooFew
  rw [List.any_eq_true]
  refine ⟨vars[k], List.getElem_mem hk, ?_⟩
  simp only [Bool.not_eq_true', List.contains_eq_mem, decide_eq_false_iff_not]
  intro hmem
  obtain ⟨i, hi, heq⟩ := List.mem_iff_getElem.mp hmem
  simp only [List.length_take] at hi
  rw [List.getElem_take] at heq
  have hp := List.pairwise_iff_getElem.mp hn i k (by omega) hk (by omega)
  exact hp heq

theorem rejects_too_few_macro_args (cfg : Cfg) (imported : List Macro) (f : File) (h : HasTooFewArgs imported f) :
    ∃ e, checkLocal cfg imported f false = .error e ∧ e ∈ documented := by
  obtain ⟨l, c, n, k, m, ho, hm, ht⟩ := h
  exact rejects_of_collect cfg imported f l c _ ho (by simp [collectS, hm, ht])

/-- the arity rule in the usual words: a call that passes fewer arguments than the macro has (pairwise different)
parameters is rejected — whatever the body of the macro is, whether or not it uses the parameter that gets no value -/
theorem rejects_fewer_args_than_params (cfg : Cfg) (imported : List Macro) (f : File) (l c : Bool) (n : String) (k : Nat) (m : Macro)
    (ho : OccursIn f l c (.macroCall n k)) (hm : findMacro (imported ++ f.macros) n = some m) (hn : m.vars.Nodup)
    (hk : k < m.vars.length) : ∃ e, checkLocal cfg imported f false = .error e ∧ e ∈ documented :=
  rejects_too_few_macro_args cfg imported f ⟨l, c, n, k, m, ho, hm, tooFew_of_lt m.vars k hk hn⟩

/-- macro `a` of the file calls `b` -/
def Calls (ms : List Macro) (a b : String) : Prop := (∃ m ∈ ms, m.name = a) ∧ b ∈ callees ms a

/-- recursion among the macros of the file: a cyclic sequence of names, each calling the next, the last the first -/
def HasMacroCycle (f : File) : Prop :=
  ∃ cyc : List String, cyc ≠ [] ∧
    ∀ i, i < cyc.length → ∃ x y, cyc[i]? = some x ∧ cyc[(i + 1) % cyc.length]? = some y ∧ Calls f.macros x y

theorem closed_of_cycle (f : File) (h : HasMacroCycle f) : ∃ C, ClosedCycle f.macros C := by
  obtain ⟨cyc, hne, hc⟩ := h
  refine ⟨cyc, hne, ?_⟩
  intro x hx
  obtain ⟨i, hi, rfl⟩ := List.mem_iff_getElem.mp hx
  obtain ⟨x', y, hx', hy, hcall⟩ := hc i hi
  rw [List.getElem?_eq_getElem hi] at hx'
  cases hx'
  exact ⟨hcall.1, y, List.mem_of_getElem? hy, hcall.2⟩

theorem rejects_recursive_macros (cfg : Cfg) (imported : List Macro) (f : File) (mo : Bool) (h : HasMacroCycle f) :
    ∃ e, checkLocal cfg imported f mo = .error e ∧ e ∈ documented := by
  obtain ⟨C, hC⟩ := closed_of_cycle f h
  exact checkLocal_fail_of_cycle cfg imported f mo (macroCycle_of_closed f.macros C hC)

/-! ## labels -/
/-- a routine jumps to / calls a label that no routine of the file places (labels placed in macro bodies do not count) -/
def HasUndefinedJump (f : File) : Prop :=
  ∃ b ∈ f.routineBodies, ∃ l c n, ((l, c, Stmt.jump n) ∈ occs b ∨ (l, c, Stmt.call n) ∈ occs b) ∧
    ∀ b' ∈ f.routineBodies, ∀ l' c', (l', c', Stmt.label n) ∉ occs b'

theorem labelsBad_of_undefined (ms : List Macro) (f : File) (h : HasUndefinedJump f) : labelsBad ms f = true := by
  obtain ⟨b, hb, l, c, n, hj, hnd⟩ := h
  unfold labelsBad
  simp only [List.any_eq_true, Bool.or_eq_true]
  refine ⟨b, hb, Or.inl ⟨n, ?_, ?_⟩⟩
  · unfold usesOf
    rw [List.mem_filterMap]
    rcases hj with hj | hj
    · exact ⟨_, hj, rfl⟩
    · exact ⟨_, hj, rfl⟩
  · simp only [Bool.not_eq_true', List.contains_eq_mem, decide_eq_false_iff_not, List.mem_flatMap, not_exists, not_and]
    intro b' hb' hmem
    unfold defsOf at hmem
    rw [List.mem_filterMap] at hmem
    obtain ⟨⟨l', c', s⟩, ho, hs⟩ := hmem
    cases s <;> simp at hs
    subst hs
    exact hnd b' hb' l' c' ho

theorem rejects_jump_undefined (cfg : Cfg) (imported : List Macro) (f : File) (h : HasUndefinedJump f) :
    ∃ e, checkLocal cfg imported f false = .error e ∧ e ∈ documented :=
  checkLocal_fail_of_labels cfg imported f (labelsBad_of_undefined _ f h)

/-- the expansion of macro `a` carries, `k` calls deep, a jump to a label the macro holding it does not place -/
inductive ExpandsBad (ms : List Macro) : Nat → String → Prop
  | here {a m} : findMacro ms a = some m → unserved m.body = true → ExpandsBad ms 0 a
  | step {a b m k} : findMacro ms a = some m → b ∈ callsOf m.body → ExpandsBad ms k b → ExpandsBad ms (k + 1) a

theorem badMacro_of_expands (ms : List Macro) : ∀ {k a}, ExpandsBad ms k a → ∀ fuel, k < fuel → badMacro ms fuel a = true := by
  intro k a h
  induction h with
  | here hm hu =>
    intro fuel hf
    cases fuel with
    | zero => omega
    | succ n => simp [badMacro, hm, hu]
  | step hm hb _ ih =>
    intro fuel hf
    cases fuel with
    | zero => omega
    | succ n =>
      simp only [badMacro, hm, Bool.or_eq_true, List.any_eq_true]
      exact Or.inr ⟨_, hb, ih n (by omega)⟩

/-- a routine calls a macro whose expansion (at most as many calls deep as there are macros) holds an unserved jump -/
def HasUndefinedJumpInMacro (imported : List Macro) (f : File) : Prop :=
  ∃ b ∈ f.routineBodies, ∃ a ∈ callsOf b, ∃ k, k ≤ (imported ++ f.macros).length ∧ ExpandsBad (imported ++ f.macros) k a

theorem rejects_jump_undefined_in_macro (cfg : Cfg) (imported : List Macro) (f : File)
    (h : HasUndefinedJumpInMacro imported f) : ∃ e, checkLocal cfg imported f false = .error e ∧ e ∈ documented := by
  obtain ⟨b, hb, a, ha, k, hk, he⟩ := h
  refine checkLocal_fail_of_labels cfg imported f ?_
  unfold labelsBad
  simp only [List.any_eq_true, Bool.or_eq_true]
  exact ⟨b, hb, Or.inr ⟨a, ha, badMacro_of_expands _ he _ (by omega)⟩⟩

/-! ## routine headers (rejection sites added by the repairs of /repo) -/
/-- some routine is written with a negative id or an id that leaves a gap (ids count up from 0; a coroutine takes the
previous id + 1), given that the routines before it were accepted: stated on the first routine -/
theorem rejects_bad_first_routine_id (cfg : Cfg) (imported : List Macro) (f : File) (r : Routine) (rest : List Routine) (i : Int)
    (hr : f.routines = r :: rest) (hi : r.id = some i) (hbad : i ≠ 0) :
    ∃ e, checkLocal cfg imported f false = .error e ∧ e ∈ documented := by
  refine fail_doc (checkLocal_doc cfg imported f false) ?_
  unfold checkLocal checkRoutines
  simp [hr, routinesGo, Routine.newId, hi]
  intros; omega

/-- a decimal literal as the target of a routine -/
theorem rejects_fixed_routine_target (cfg : Cfg) (imported : List Macro) (f : File) (r : Routine) (hr : r ∈ f.routines)
    (hfix : r.fixedTarget = true) : ∃ e, checkLocal cfg imported f false = .error e ∧ e ∈ documented := by
  refine fail_doc (checkLocal_doc cfg imported f false) ?_
  have : ∀ (rs : List Routine) (a : Int) (n : Nat), r ∈ rs → (routinesGo ⟨cfg.perfVar, imported ++ f.macros⟩ a n rs).ok? = false := by
    intro rs
    induction rs with
    | nil => intro _ _ h; cases h
    | cons x rest ih =>
      intro a n hm
      rcases List.mem_cons.mp hm with rfl | hm
      · simp [routinesGo, hfix]
      · simp [routinesGo, ih _ _ hm]
  unfold checkLocal checkRoutines
  simp [this f.routines (-1) 0 hr]

/-! ## classes -/
/-- the compilation of a file fails with SsbCompilerError or ValueError only (full strength: every file, every set of
imported macros, both modes) -/
theorem error_kinds_documented (cfg : Cfg) (imported : List Macro) (f : File) (mo : Bool) (e : ErrKind)
    (h : checkLocal cfg imported f mo = .error e) : e ∈ documented :=
  checkLocal_doc cfg imported f mo e h

/-- the same including the import recursion -/
theorem world_error_kinds_documented (cfg : Cfg) (w : World) (root : String) (e : ErrKind)
    (h : checkWorld cfg w root = .error e) : e ∈ documented := by
  unfold checkWorld at h
  split at h
  · rename_i e' he'
    cases h
    exact checkFile_doc cfg w _ [] root false e he'
  · cases h

/-! ## the core AST (`Static.check : Src.Program → Except ErrKind Unit`) -/
theorem check_eq (p : Src.Program) : Static.check p = checkLocal {} [] (ofCore p) false := rfl

theorem core_rejects_break_outside (p : Src.Program) (h : HasBreakOutside (ofCore p)) :
    ∃ e, Static.check p = .error e ∧ e ∈ documented := rejects_break_outside {} [] _ h
theorem core_rejects_continue_outside (p : Src.Program) (h : HasContinueOutside (ofCore p)) :
    ∃ e, Static.check p = .error e ∧ e ∈ documented := rejects_continue_outside {} [] _ h
theorem core_rejects_break_loop_outside (p : Src.Program) (h : HasBreakLoopOutside (ofCore p)) :
    ∃ e, Static.check p = .error e ∧ e ∈ documented := rejects_break_loop_outside {} [] _ h
theorem core_rejects_switch_ends_empty (p : Src.Program) (h : HasSwitchEndingEmpty (ofCore p)) :
    ∃ e, Static.check p = .error e ∧ e ∈ documented := rejects_switch_ends_empty {} [] _ h
theorem core_rejects_two_defaults (p : Src.Program) (h : HasTwoDefaults (ofCore p)) :
    ∃ e, Static.check p = .error e ∧ e ∈ documented := rejects_two_defaults {} [] _ h
theorem core_rejects_label_in_with (p : Src.Program) (h : HasLabelInWith (ofCore p)) :
    ∃ e, Static.check p = .error e ∧ e ∈ documented := rejects_label_in_with {} [] _ h
theorem core_rejects_unknown_macro (p : Src.Program) (h : HasUnknownMacro [] (ofCore p)) :
    ∃ e, Static.check p = .error e ∧ e ∈ documented := rejects_unknown_macro {} [] _ h
theorem core_rejects_too_few_macro_args (p : Src.Program) (h : HasTooFewArgs [] (ofCore p)) :
    ∃ e, Static.check p = .error e ∧ e ∈ documented := rejects_too_few_macro_args {} [] _ h
theorem core_rejects_recursive_macros (p : Src.Program) (h : HasMacroCycle (ofCore p)) :
    ∃ e, Static.check p = .error e ∧ e ∈ documented := rejects_recursive_macros {} [] _ false h
theorem core_rejects_jump_undefined (p : Src.Program) (h : HasUndefinedJump (ofCore p)) :
    ∃ e, Static.check p = .error e ∧ e ∈ documented := rejects_jump_undefined {} [] _ h
theorem core_error_kinds_documented (p : Src.Program) (e : ErrKind) (h : Static.check p = .error e) : e ∈ documented :=
  error_kinds_documented {} [] _ false e h

/-! ## imports -/
theorem checkWorld_error {cfg : Cfg} {w : World} {root : String} {e : ErrKind}
    (h : checkFile cfg w (w.length + 1) [] root false = .error e) : checkWorld cfg w root = .error e := by
  simp [checkWorld, h]

/-! ### resolution of one import statement (`_resolve_imported_file`) -/
theorem resolve_direct_none (w : World) (c : String) : (Import.direct c).resolve w = none ↔ w.isFile c = false := by
  unfold Import.resolve; cases h : w.isFile c <;> simp [h]

/-- a lookup-style import is missing iff no lookup path has it — whatever was found for the imports before it -/
theorem resolve_lookup_none (w : World) (cs : List String) :
    (Import.lookup cs).resolve w = none ↔ ∀ c ∈ cs, w.isFile c = false := by
  unfold Import.resolve; simp [List.find?_eq_none]

/-- the first lookup path that has the file wins -/
theorem resolve_lookup_first (w : World) (pre post : List String) (c : String) (hpre : ∀ x ∈ pre, w.isFile x = false)
    (hc : w.isFile c = true) : (Import.lookup (pre ++ c :: post)).resolve w = some c := by
  unfold Import.resolve
  induction pre with
  | nil => simp [hc]
  | cons x r ih =>
    have hx := hpre x (List.mem_cons_self ..)
    simp only [List.cons_append, List.find?, hx]
    exact ih fun y hy => hpre y (List.mem_cons_of_mem _ hy)

theorem resolve_invalid (w : World) : Import.invalid.resolve w = none := rfl

/-- every import statement of a file is resolved on its own: the k-th resolution depends on the k-th statement only -/
theorem imports_resolved_independently (w : World) (f : File) (k : Nat) :
    (f.resolved w)[k]? = (f.imports[k]?).map (Import.resolve w) := by
  unfold File.resolved; simp

/-- an import statement of the compiled file that resolves to no file -/
theorem rejects_missing_import (cfg : Cfg) (w : World) (root : String) (f : File) (hf : w.get? root = some f)
    (hs : f.isSsbScript = false) (hm : ∃ i ∈ f.imports, i.resolve w = none) :
    ∃ e, checkWorld cfg w root = .error e ∧ e ∈ documented := by
  refine ⟨.ssbCompilerError, checkWorld_error ?_, by simp [documented]⟩
  obtain ⟨i, hi, hn⟩ := hm
  have : (f.resolved w).any Option.isNone = true :=
    List.any_eq_true.mpr ⟨none, List.mem_map.mpr ⟨i, hi, hn⟩, rfl⟩
  simp [checkFile, hf, hs, this]

/-- … at whatever position of the import list, after whatever imports that were found -/
theorem rejects_missing_import_at (cfg : Cfg) (w : World) (root : String) (f : File) (hf : w.get? root = some f)
    (hs : f.isSsbScript = false) (pre post : List Import) (i : Import) (hi : f.imports = pre ++ i :: post)
    (hn : i.resolve w = none) : ∃ e, checkWorld cfg w root = .error e ∧ e ∈ documented :=
  rejects_missing_import cfg w root f hf hs ⟨i, by simp [hi], hn⟩

/-- if the compilation of an imported file fails, so does the importing compilation, with a documented class -/
theorem rejects_failing_import (cfg : Cfg) (w : World) (root b : String) (hi : Imports w root b)
    (hb : ∃ e, checkFile cfg w w.length [root] b true = .error e) :
    ∃ e, checkWorld cfg w root = .error e ∧ e ∈ documented := by
  obtain ⟨f, hf, hs, hm⟩ := hi
  obtain ⟨e, he⟩ := importAll_fail (fun s => checkFile cfg w w.length ([] ++ [root]) s true) [] b (f.resolved w) [] hm (Or.inr hb)
  by_cases hn : (f.resolved w).any Option.isNone = true
  · exact ⟨.ssbCompilerError, checkWorld_error (by simp [checkFile, hf, hs, hn]), by simp [documented]⟩
  · refine ⟨e, checkWorld_error ?_, import_phase_doc cfg w w.length [] root (f.resolved w) e he⟩
    simp only [checkFile, hf, hs, Bool.false_eq_true, if_false, hn, he]

/-- cyclic imports: `root = k₀ imports k₁ imports … imports kₙ` and `kₙ` is one of `k₀ … kₙ₋₁` -/
def HasImportCycle (w : World) (root : String) : Prop :=
  ∃ b chain, IsImportChain w (root :: b :: chain) ∧
    (root :: b :: chain).getLast (by simp) ∈ (root :: b :: chain).dropLast

theorem rejects_cyclic_import (cfg : Cfg) (w : World) (root : String) (h : HasImportCycle w root) :
    ∃ e, checkWorld cfg w root = .error e ∧ e ∈ documented := by
  obtain ⟨b, chain, hc, hl⟩ := h
  obtain ⟨e, he, hd⟩ := checkFile_fail_of_chain cfg w chain (w.length + 1) [] root b false hc (by simpa using hl)
  exact ⟨e, checkWorld_error he, hd⟩

/-- a macros-only compilation (an imported file) of a file with routines, or of a file marked is-ssb-script, fails -/
theorem macrosOnly_fails_of_routines (cfg : Cfg) (w : World) (s : String) (g : File)
    (hg : w.get? s = some g) (hr : g.isSsbScript = true ∨ g.hasRoutines = true) :
    ∀ fuel rc, ∃ e, checkFile cfg w fuel rc s true = .error e
  | 0, rc => exists_error_of_doc (checkFile_zero ..)
  | fuel + 1, rc => by
    simp only [checkFile, hg]
    cases hs : g.isSsbScript
    · simp only [Bool.false_eq_true, if_false]
      have hr' : g.hasRoutines = true := by rcases hr with h | h; simp [hs] at h; exact h
      split
      · exact ⟨_, rfl⟩
      · split
        · exact ⟨_, rfl⟩
        · rename_i imported _
          obtain ⟨e, he, _⟩ := checkLocal_macrosOnly_fail_of_routines cfg imported g hr'
          simp [he]
    · exact ⟨.ssbCompilerError, by simp⟩

/-- routines in an imported file (resolved import `s` of the compiled file) -/
theorem rejects_routines_in_import (cfg : Cfg) (w : World) (root s : String)
    (g : File) (hi : Imports w root s) (hg : w.get? s = some g) (hr : g.hasRoutines = true) :
    ∃ e, checkWorld cfg w root = .error e ∧ e ∈ documented :=
  rejects_failing_import cfg w root s hi (macrosOnly_fails_of_routines cfg w s g hg (Or.inr hr) _ _)

/-- an imported file carrying the is-ssb-script attribute (it consists of routines) -/
theorem rejects_ssbscript_import (cfg : Cfg) (w : World) (root s : String)
    (g : File) (hi : Imports w root s) (hg : w.get? s = some g) (hr : g.isSsbScript = true) :
    ∃ e, checkWorld cfg w root = .error e ∧ e ∈ documented :=
  rejects_failing_import cfg w root s hi (macrosOnly_fails_of_routines cfg w s g hg (Or.inl hr) _ _)

def exWorldRoutinesInImport : World :=
  [("main.exps", { imports := [.direct "lib.exps"], routines := [rt (.cons (.macroCall "m" 0) .nil)] }),
   ("lib.exps", { macros := [⟨"m", [], .cons (.op false) .nil⟩], routines := [rt (.cons (.op false) .nil)] })]

def exWorldSsbScriptImport : World :=
  [("main.exps", { imports := [.direct "lib.exps"], routines := [rt (.cons (.op false) .nil)] }),
   ("lib.exps", { isSsbScript := true, routines := [rt (.cons (.op false) .nil)] })]

/-- a routine made of calls of label-only macros compiles (to an empty routine) since the repair of strip_last_label -/
def exLabelOnly : Src.Program :=
  { macros := [⟨"m", [], .cons (.label "x") .nil⟩], routines := [⟨some (.cons (.macroCall "m" []) .nil)⟩] }

/-! ## non-vacuity: every shape has a witness, and the model rejects it with the class the compiler uses -/
def file1 (body : Stmts) : File := { routines := [rt body] }
def one (s : Stmt) : Stmts := .cons s .nil

example : HasBreakOutside (file1 (one (.forever (one .brk)))) := ⟨true, _, List.mem_singleton.mpr rfl, by decide⟩
example : checkLocal {} [] (file1 (one (.forever (one .brk)))) false = .error .ssbCompilerError := by decide
-- break inside a loop inside a case is fine; `continue` as the init statement of a `for` is fine
example : checkLocal {} [] (file1 (one (.switch (.cons false true false (one (.forever (one .brk))) .nil)))) false = .ok () := by decide
example : checkLocal {} [] (file1 (one (.for_ .cont .plain .brkLoop (one (.op false))))) false = .ok () := by decide
example : HasContinueOutside (file1 (one (.switch (.cons false true false (one .cont) .nil)))) :=
  ⟨true, _, List.mem_singleton.mpr rfl, by decide⟩
example : HasBreakLoopOutside (file1 (one (.ite (.cons false [.plain] (one .brkLoop) .nil) .nil))) :=
  ⟨false, _, List.mem_singleton.mpr rfl, by decide⟩
-- a macro body starts with empty stacks even when the call sits in a case
def exMacroBreak : File :=
  { macros := [⟨"m", [], one .brk⟩], routines := [rt (one (.switch (.cons false true false (one (.macroCall "m" 0)) .nil)))] }
example : HasBreakOutside exMacroBreak := ⟨false, one .brk, by decide, by decide⟩
example : checkLocal {} [] exMacroBreak false = .error .ssbCompilerError := by decide
def exCasesEmptyEnd : Cases := .cons false true false (one (.op false)) (.cons true true false .nil .nil)
example : HasSwitchEndingEmpty (file1 (one (.switch exCasesEmptyEnd))) :=
  ⟨false, false, exCasesEmptyEnd, ⟨one (.switch exCasesEmptyEnd), List.mem_singleton.mpr rfl, by decide⟩, by decide⟩
example : checkLocal {} [] (file1 (one (.switch exCasesEmptyEnd))) false = .error .ssbCompilerError := by decide
def exCasesTwoDefaults : Cases := .cons true true false (one (.op false)) (.cons true true false (one (.op false)) .nil)
example : HasTwoDefaults (file1 (one (.switch exCasesTwoDefaults))) :=
  ⟨false, false, exCasesTwoDefaults, Or.inl ⟨one (.switch exCasesTwoDefaults), List.mem_singleton.mpr rfl, by decide⟩, by decide⟩
example : checkLocal {} [] (file1 (one (.switch exCasesTwoDefaults))) false = .error .ssbCompilerError := by decide
def exCasesStmt : Cases := .cons false true false (one (.op false)) .nil
example : HasStmtsInMessageSwitch (file1 (one (.msgSwitch exCasesStmt))) :=
  ⟨false, false, exCasesStmt, ⟨one (.msgSwitch exCasesStmt), List.mem_singleton.mpr rfl, by decide⟩, by decide⟩
example : checkLocal {} [] (file1 (one (.msgSwitch exCasesStmt))) false = .error .ssbCompilerError := by decide
example : checkLocal {} [] (file1 (one (.msgSwitch (.cons false true true .nil (.cons true true true .nil .nil))))) false = .ok () := by decide
example : HasLabelInWith (file1 (one (.with_ (.label "x")))) := ⟨false, false, "x", _, List.mem_singleton.mpr rfl, by decide⟩
def exWhileNotBit : Stmt := .while_ (.bit true "$X") (one (.op false))
example : HasNotOnBit "$P" (file1 (one exWhileNotBit)) :=
  ⟨false, false, exWhileNotBit, ⟨one exWhileNotBit, List.mem_singleton.mpr rfl, by decide⟩, by decide⟩
example : checkLocal { perfVar := "$P" } [] (file1 (one exWhileNotBit)) false = .error .ssbCompilerError := by decide
example : checkLocal { perfVar := "$P" } [] (file1 (one (.while_ (.bit true "$P") (one (.op false))))) false = .ok () := by decide
example : checkLocal { perfVar := "$P" } [] (file1 (one (.ite (.cons false [.plain, .bit true "$X"] (one (.op false)) .nil) .nil))) false
    = .error .ssbCompilerError := by decide
example : HasUnknownMacro [] (file1 (one (.macroCall "nope" 0))) :=
  ⟨false, false, "nope", 0, ⟨_, List.mem_singleton.mpr rfl, by decide⟩, by decide⟩
def exTooFew : File := { macros := [⟨"m", ["$a", "$b"], one (.op false)⟩], routines := [rt (one (.macroCall "m" 1))] }
example : HasTooFewArgs [] exTooFew :=
  ⟨false, false, "m", 1, ⟨"m", ["$a", "$b"], one (.op false)⟩, ⟨one (.macroCall "m" 1), by decide, by decide⟩, by decide, by decide⟩
example : checkLocal {} [] exTooFew false = .error .valueError := by decide
-- the parameter that gets no value is not used in the body (nor anywhere): rejected all the same
def exTooFewUnused : File :=
  { macros := [⟨"m", ["$a", "$b"], one (.op false)⟩, ⟨"outer", ["$x", "$y"], one (.macroCall "m" 2)⟩]
    routines := [rt (one (.macroCall "outer" 1))] }
example : checkLocal {} [] exTooFewUnused false = .error .valueError := by decide
def exCycle : File := { macros := [⟨"a", [], one (.macroCall "b" 0)⟩, ⟨"b", [], one (.macroCall "a" 0)⟩], routines := [rt (one (.op false))] }
example : HasMacroCycle exCycle := by
  refine ⟨["a", "b"], by simp, ?_⟩
  intro i hi
  have : i = 0 ∨ i = 1 := by simp at hi; omega
  rcases this with rfl | rfl
  · exact ⟨"a", "b", rfl, rfl, by decide, by decide⟩
  · exact ⟨"b", "a", rfl, rfl, by decide, by decide⟩
example : checkLocal {} [] exCycle false = .error .ssbCompilerError := by decide
-- a label placed only in a macro body does not serve a routine's jump, and vice versa
def exMacroLabel : File := { macros := [⟨"m", [], .cons (.label "x") (one (.op false))⟩], routines := [rt (.cons (.macroCall "m" 0) (one (.jump "x")))] }
example : HasUndefinedJump exMacroLabel := by
  refine ⟨_, List.mem_singleton.mpr rfl, false, false, "x", Or.inl (by decide), ?_⟩
  decide
example : checkLocal {} [] exMacroLabel false = .error .ssbCompilerError := by decide
def exMacroJump : File := { macros := [⟨"m", [], one (.jump "x")⟩], routines := [rt (.cons (.macroCall "m" 0) (one (.label "x")))] }
example : HasUndefinedJumpInMacro [] exMacroJump :=
  ⟨_, List.mem_singleton.mpr rfl, "m", by decide, 0, by decide, .here (m := ⟨"m", [], one (.jump "x")⟩) (by decide) (by decide)⟩
example : checkLocal {} [] exMacroJump false = .error .ssbCompilerError := by decide
-- a macro that is never expanded may hold an unserved jump
example : checkLocal {} [] { macros := [⟨"m", [], one (.jump "x")⟩], routines := [rt (one (.op false))] } false = .ok () := by decide
def exCycleWorld : World :=
  [("a", { imports := [.direct "b"], routines := [rt (one (.op false))] }), ("b", { imports := [.direct "a"] })]
example : HasImportCycle exCycleWorld "a" :=
  ⟨"b", ["a"], ⟨⟨_, rfl, rfl, by decide⟩, ⟨_, rfl, rfl, by decide⟩, trivial⟩, by decide⟩
example : checkWorld {} exCycleWorld "a" = .error .ssbCompilerError := by decide
example : checkWorld {} [("a", { imports := [.direct "a"] })] "a" = .error .ssbCompilerError := by decide
-- a lookup-style import that no lookup path has, AFTER an import that was found; first lookup path wins
def exWorldLookup : World :=
  [("main.exps", { imports := [.direct "a.exps", .lookup ["l1/nope.exps", "l2/nope.exps"]], routines := [rt (one (.op false))] }),
   ("a.exps", { macros := [⟨"a", [], one (.op false)⟩] })]
example : checkWorld {} exWorldLookup "main.exps" = .error .ssbCompilerError := by decide
example : checkWorld {} [("main.exps", { imports := [.lookup ["l1/b.exps", "l2/b.exps"]], routines := [rt (one (.macroCall "second" 0))] }),
    ("l1/b.exps", { macros := [⟨"first", [], one (.op false)⟩] }), ("l2/b.exps", { macros := [⟨"second", [], one (.op false)⟩] })] "main.exps"
    = .error .ssbCompilerError := by decide
example : checkWorld {} [("main.exps", { imports := [.lookup ["l1/b.exps", "l2/b.exps"]], routines := [rt (one (.macroCall "second" 0))] }),
    ("l2/b.exps", { macros := [⟨"second", [], one (.op false)⟩] })] "main.exps" = .ok () := by decide
example : checkWorld {} [("main.exps", { imports := [.lookup []] })] "main.exps" = .error .ssbCompilerError := by decide
example : checkWorld {} exWorldRoutinesInImport "main.exps" = .error .ssbCompilerError := by decide
example : checkWorld {} exWorldSsbScriptImport "main.exps" = .error .ssbCompilerError := by decide
example : checkWorld {} [("main.exps", { isSsbScript := true })] "main.exps" = .ok () := by decide
example : Static.check exLabelOnly = .ok () := by decide
-- routine ids: ascending from 0, a coroutine takes the next id; a gap, a negative id or a decimal target is rejected
example : checkLocal {} [] { routines := [rt (one (.op false)), { id := none, body := some (one (.op false)) }, { id := some 2, body := none }] } false = .ok () := by decide
example : checkLocal {} [] { routines := [rt (one (.op false)), { id := some 0, body := some (one (.op false)) }] } false = .ok () := by decide
example : checkLocal {} [] { routines := [{ id := some 1, body := some (one (.op false)) }] } false = .error .ssbCompilerError := by decide
example : checkLocal {} [] { routines := [rt (one (.op false)), { id := some 2, body := some (one (.op false)) }] } false = .error .ssbCompilerError := by decide
example : checkLocal {} [] { routines := [{ id := some (-1), body := some (one (.op false)) }] } false = .error .ssbCompilerError := by decide
example : checkLocal {} [] { routines := [{ id := some 0, fixedTarget := true, body := some (one (.op false)) }] } false = .error .ssbCompilerError := by decide

end ESV.C10
