import ESV.PosMark.Lemmas
import ESV.PosMark.Tokens
/-
C18 — the position-mark listing delimits every Position literal exactly.

What is proved (all texts, no bounds) is the SPAN / SPLICE algebra the property rests on, on `List Char` (code points):

  * `offset_position_inverse`, `position_offset_inverse` — the (line, column) ANTLR's input stream assigns to a character and
    `offsetOf` (walking the lines of the text) are inverse to each other;
  * `splice_local` — a literal whose first character is at `start` and whose LAST character is at `stop` (the listing's
    convention: start of the word `Position`, position of the closing `>`), replaced by `new`, gives `pre ++ new ++ post`:
    nothing before or after moves, whatever line breaks or non-ASCII characters the literal or its surroundings contain;
  * `printed_mark_tokens`, `splice_tokens`, `splice_printed_mark` — on the C16 lexer model, replacing the pieces of a
    Position literal by the printed form of an edited mark changes the token sequence exactly in the tokens of that literal;
  * `posmark_print_parse` — the printed form reads back as the mark (C04).

NOT proved: that `PositionMarkVisitor` reports the first and the last token of every `position_marker` context, in source
order, and that ANTLR's token positions are what `posOf` computes.  The visitor walks an ANTLR parse tree, which is not
modelled; these two facts are decided on generated programs by harness/props/c18.py (oracle a/b/c, ties `lex.positions`,
`lex.replace_span`).  MANIFEST category "other".
-/
namespace ESV.C18
open ESV ESV.Lit ESV.Lex
open ESV.PosMark hiding Str

/-! ## spans -/

/-- the position ANTLR gives to the character after `pre` leads `offsetOf` back to that character -/
theorem offset_position_inverse (pre : Str) (x : Char) (post : Str) (hx : x ≠ '\n') :
    offsetOf (pre ++ x :: post) (posOf pre).1 (posOf pre).2 = some pre.length :=
  offsetOf_posOf pre x post hx

/-- the character `offsetOf` finds for (line, column) has exactly that ANTLR position and lies inside the text -/
theorem position_offset_inverse (text : Str) (l c n : Nat) (h : offsetOf text l c = some n) :
    posOf (text.take n) = (l, c) ∧ n < text.length :=
  offsetOf_sound text l c n h

/-- replacing the delimited span (start = first character `p`, stop = last character `g`, inclusive) by `new` -/
theorem splice_local (pre mid post new : Str) (p g : Char) (hp : p ≠ '\n') (hg : g ≠ '\n') :
    replaceSpan (pre ++ (p :: mid ++ [g]) ++ post) (posOf pre) (posOf (pre ++ p :: mid)) new = some (pre ++ new ++ post) :=
  PosMark.splice_local pre mid post new p g hp hg

/-! ## tokens -/

theorem render_append (A B : List Piece) (tail : Str) : render (A ++ B) tail = render A (render B tail) := by
  induction A with
  | nil => rfl
  | cons p A ih => obtain ⟨t, us⟩ := p; simp [render, ih]

/-- two admissible renderings that differ in a middle part: the token sequences differ exactly in that part -/
theorem splice_tokens (A P P' B : List Piece) (tail : Str) (ht : ljSafe tail = true)
    (h : Admissible (A ++ P ++ B) tail) (h' : Admissible (A ++ P' ++ B) tail) :
    lex (render (A ++ P ++ B) tail) = A.map (fun p => tokOf p.1) ++ P.map (fun p => tokOf p.1) ++ (B.map (fun p => tokOf p.1) ++ lex tail) ∧
    lex (render (A ++ P' ++ B) tail) = A.map (fun p => tokOf p.1) ++ P'.map (fun p => tokOf p.1) ++ (B.map (fun p => tokOf p.1) ++ lex tail) := by
  rw [render_lex _ tail h ht, render_lex _ tail h' ht]
  simp

/-- the printed form of a mark whose name needs no escaping is the eight-token sequence `Position < 'name' , x , y >`,
every inner boundary safe; followed by what followed the old literal it is an admissible rendering -/
theorem printed_mark_tokens (p : PosMark) (us : List SepUnit) (B : List Piece) (tail : Str) (hn : NameOk p.name = true)
    (hus : ∀ u ∈ us, u.ok = true) (hlast : us ≠ [] ∨ safeBoundary ">".toList (render B tail) = true) (hB : Admissible B tail) :
    render (posPieces p us ++ B) tail = posMarkStr p ++ sepText us ++ render B tail ∧
    Admissible (posPieces p us ++ B) tail := by
  refine ⟨?_, posPieces_admissible p us B tail hn hus hlast hB⟩
  rw [render_append, render_posPieces]

theorem admissible_append_left (A B : List Piece) (tail : Str) (h : Admissible (A ++ B) tail) : Admissible B tail := by
  induction A with
  | nil => exact h
  | cons p A ih => obtain ⟨t, us⟩ := p; exact ih h.2.2.2

/-- a prefix of an admissible rendering stays admissible in front of another continuation that starts with the same token text -/
theorem admissible_swap (A : List Piece) (R' : Str) (tail tail' : Str) (B B' : List Piece)
    (hR' : R' = render B' tail') (h : Admissible (A ++ B) tail) (hB' : Admissible B' tail')
    (hsame : ∀ t us, A.getLast? = some (t, us) → us ≠ [] ∨ safeBoundary t R' = true) : Admissible (A ++ B') tail' := by
  induction A with
  | nil => exact hB'
  | cons p A ih =>
    obtain ⟨t, us⟩ := p
    obtain ⟨h1, h2, h3, h4⟩ := h
    refine ⟨h1, h2, ?_, ?_⟩
    · cases A with
      | nil =>
        have := hsame t us (by simp)
        rw [hR'] at this; exact this
      | cons q A' =>
        obtain ⟨t2, us2⟩ := q
        rcases h3 with h3 | h3
        · exact Or.inl h3
        · right
          -- the boundary only looks at the first character of what follows, which is the first character of t2
          obtain ⟨cls2, hc2⟩ := Option.isSome_iff_exists.mp h4.1
          obtain ⟨c, r, rfl, -, -⟩ := token_head t2 cls2 hc2
          have h3' : safeBoundary t (c :: (r ++ sepText us2 ++ render (A' ++ B) tail)) = true := by
            simpa [render] using h3
          show safeBoundary t (render (((c :: r, us2) :: A') ++ B') tail') = true
          have e : render (((c :: r, us2) :: A') ++ B') tail' = c :: (r ++ sepText us2 ++ render (A' ++ B') tail') := by
            simp [render]
          rw [e, safeBoundary_head]
          rw [safeBoundary_head] at h3'
          exact h3'
    · apply ih h4
      intro t' us' hl
      apply hsame t' us'
      cases A with
      | nil => simp at hl
      | cons q A' => simpa using hl

/-- **splice on tokens**: in an admissible rendering `A ++ P ++ B` the pieces `P` are a Position literal whose closing `>`
carries the separator `us`; replacing them by the printed form of the mark `m` (followed by the same separator) keeps the
rendering admissible when the token before the literal tolerates the word `Position` (it did before: `P` started with it)
— and then the token sequence is `tokens A ++ tokens (Position < 'name' , x , y >) ++ tokens B`. -/
theorem splice_printed_mark (A B : List Piece) (m : PosMark) (us : List SepUnit) (tail : Str) (ht : ljSafe tail = true)
    (hn : NameOk m.name = true) (hus : ∀ u ∈ us, u.ok = true)
    (hlast : us ≠ [] ∨ safeBoundary ">".toList (render B tail) = true)
    (hA : Admissible (A ++ B) tail)
    (hbefore : ∀ t ws, A.getLast? = some (t, ws) → ws ≠ [] ∨ safeBoundary t "Position".toList = true) :
    lex (render A (posMarkStr m ++ sepText us ++ render B tail)) =
      A.map (fun p => tokOf p.1) ++ (posPieces m us).map (fun p => tokOf p.1) ++ (B.map (fun p => tokOf p.1) ++ lex tail) := by
  have hB : Admissible B tail := admissible_append_left A B tail hA
  obtain ⟨hr, hadm⟩ := printed_mark_tokens m us B tail hn hus hlast hB
  have hadm' : Admissible (A ++ (posPieces m us ++ B)) tail := by
    apply admissible_swap A (render (posPieces m us ++ B) tail) tail tail B (posPieces m us ++ B) rfl hA hadm
    intro t ws hl
    rcases hbefore t ws hl with h | h
    · exact Or.inl h
    · right
      have : render (posPieces m us ++ B) tail = 'P' :: ("osition".toList ++ ("<".toList ++ render ((posPieces m us).drop 2 ++ B) tail)) := by
        simp [posPieces, render, sepText]
      rw [this, safeBoundary_head]
      have h2 : safeBoundary t "Position".toList = safeBoundary t ['P'] := safeBoundary_head t 'P' _
      rw [← h2]; exact h
  have := render_lex (A ++ (posPieces m us ++ B)) tail hadm' ht
  rw [render_append, hr] at this
  rw [this]
  simp

/-- the printed form reads back as the mark: name token, both coordinates (C04) -/
theorem posmark_print_parse (p : PosMark) :
    posMarkStr p = posPrefix ++ ([SQ] ++ p.name ++ [SQ]) ++ [',', SP] ++ posFinal p.xRel p.xOff ++ [',', SP] ++
        posFinal p.yRel p.yOff ++ ['>'] ∧
    (SQ ∉ p.name → NL ∉ p.name → GuardS SQ p.name = true →
      readSingle ([SQ] ++ p.name ++ [SQ]) = p.name ∧
      ∀ rest, tokSingle ([SQ] ++ p.name ++ [SQ] ++ rest) = some (p.name.length + 2)) ∧
    parsePosArg (posFinal p.xRel p.xOff) = .ok (p.xRel, if p.xOff > 1 then 2 else 0) ∧
    parsePosArg (posFinal p.yRel p.yOff) = .ok (p.yRel, if p.yOff > 1 then 2 else 0) :=
  C04.posmark_roundtrip p

/-! ## non-vacuity -/

/-- a literal spread over three lines after non-ASCII text; its span; the splice -/
theorem span_examples :
    posOf "a('é😀',\n  ".toList = (1, 2) ∧
    posOf "a('é😀',\n  Position<'n',\n 1,\n 2".toList = (3, 2) ∧
    replaceSpan "a('é😀',\n  Position<'n',\n 1,\n 2>, 3);".toList (1, 2) (3, 2) "Position<'e', 0.5, 7>".toList =
      some "a('é😀',\n  Position<'e', 0.5, 7>, 3);".toList ∧
    replaceSpan "a(Position<'n', 1, 2>);".toList (0, 2) (0, 40) [] = none ∧
    lex "a(Position<'e', 0.5, 7>, 3);".toList =
      ["a", "(", "Position", "<", "'e'", ",", "0.5", ",", "7", ">", ",", "3", ")", ";"].map (fun s => tokOf s.toList) := by
  decide +kernel

example : NameOk "e_1 é".toList = true ∧ NameOk "it's".toList = false ∧ NameOk "dir\\sub".toList = true ∧
    NameOk "a\\\\b".toList = true ∧ NameOk "ends\\".toList = false := by decide +kernel

end ESV.C18
