import ESV.Decomp.FuelPath
import ESV.Decomp.FuelExplore
/-
The three Python `while` loops the decompiler front model (ESV/Decomp/Model.lean) mirrors with a fuel argument
- the worklist of `_get_edges__add_edge`, the stack loop of `has_path_not_using_any_loop_edges`, the routine
search of `process_op_for_jump` - terminate within the fuel the model supplies: the fuel is never the reason for
an answer of the model.  Statements only.
-/
namespace ESV.DecompFront
open ESV.Beh ESV.Decomp
open ESV.Decomp.Fuel (budget unvisited)

/-! ## (a) `explore` / `baseGraph` -/

/-- the worklist never answers "fuel" as long as the fuel covers the queue plus three entries per item index
that was not visited yet -/
theorem explore_never_fuel (labels : List Lbl) (opt : Bool) (rid : Nat) (items : List Item)
    (fuel : Nat) (queue : List (Nat × Nat)) (visited : List Nat) (g : Graph)
    (h : queue.length + 3 * (unvisited items.length visited).length ≤ fuel) :
    explore labels opt rid items fuel queue visited g ≠ .error "fuel" :=
  ESV.Decomp.Fuel.explore_never_fuel labels opt rid items fuel queue visited g h

/-- **`baseGraph` never fails for lack of fuel** -/
theorem baseGraph_never_fuel (labels : List Lbl) (opt : Bool) (rid : Nat) (items : List Item) :
    baseGraph labels opt rid items ≠ .error "fuel" := by
  unfold baseGraph
  split
  · simp
  · apply ESV.Decomp.Fuel.explore_never_fuel
    have := Fuel.unvisited_le items.length []
    simp only [List.length_cons, List.length_nil]
    omega

/-! ## (b) `hasPathGo` / `hasPath` -/

/-- **`hasPathGo` does not depend on its fuel** once the fuel covers
`budget g stack seen = stack.length + #(edges whose source is not in seen) + 1` -/
theorem hasPathGo_fuel_stable (g : Graph) (v2 : Nat) (fuel extra : Nat) (stack : List Edge) (seen : List Nat)
    (h : budget g stack seen ≤ fuel) :
    hasPathGo g v2 (fuel + extra) stack seen = hasPathGo g v2 fuel stack seen :=
  ESV.Decomp.Fuel.hasPathGo_fuel_stable g v2 fuel extra stack seen h

/-- the initial call of `hasPath` is within the budget -/
theorem hasPath_budget (g : Graph) (v1 : Nat) :
    budget g ((outEdges g v1).map (·.2)).reverse [v1] ≤ 2 * g.es.length + 2 :=
  Fuel.budget_init g v1

/-- **`hasPath` with any additional fuel gives the same answer** -/
theorem hasPath_fuel_irrelevant (g : Graph) (v1 v2 : Nat) (extra : Nat) :
    hasPathGo g v2 (2 * g.es.length + 2 + extra) ((outEdges g v1).map (·.2)).reverse [v1] = hasPath g v1 v2 := by
  unfold hasPath
  exact ESV.Decomp.Fuel.hasPathGo_fuel_stable g v2 _ extra _ _ (Fuel.budget_init g v1)

/-! ## (c) `walkUp` / `processOp` -/

/-- **`walkUp` started at `r0 ≤ ends.length` gives the same answer for every fuel of at least
`ends.length + 1 - r0`**: the fuel-0 branch is not what produces the answer -/
theorem walkUp_never_fuel (ends : List Int) (target : Int) (r0 : Nat) (h : r0 ≤ ends.length) :
    ∀ fuel, ends.length + 1 - r0 ≤ fuel →
      walkUp ends target fuel r0 = walkUp ends target (ends.length + 1 - r0) r0 :=
  fun fuel hf => Fuel.walkUp_fuel_eq ends target fuel (ends.length + 1 - r0) r0 h hf (Nat.le_refl _)

/-- the call `processOp` makes: start `walkDown ends target rid ≤ rid`, fuel `ends.length + 1` -/
theorem processOp_walkUp_fuel (ends : List Int) (target : Int) (rid : Nat) (h : rid ≤ ends.length) (extra : Nat) :
    walkUp ends target (ends.length + 1 + extra) (walkDown ends target rid) =
      walkUp ends target (ends.length + 1) (walkDown ends target rid) := by
  have hle := Fuel.walkDown_le ends target rid
  exact Fuel.walkUp_fuel_eq ends target _ _ _ (by omega) (by omega) (by omega)

/-- `processOp` with the fuel of its `walkUp` call as a parameter (the same text otherwise) -/
def processOpFuel (fuel : Nat) (ends : List Int) (known : List Lbl) (rid : Nat) (o : MOp) :
    Except String (List Lbl × Item) :=
  match jumpIndex o.name with
  | none => .ok (known, .op o)
  | some idx =>
    if o.params.length < idx then .error "ValueError"
    else
      match o.params[idx]? with
      | none => .error "IndexError"
      | some (.int target) =>
        let root : MOp := ⟨o.off, o.name, o.params.eraseIdx idx⟩
        let call := o.name == ESV.Gen.op_call
        match known.find? fun l => l.off == target with
        | some l =>
          let known' := if rid != l.rtn then markForeign known target else known
          .ok (known', .ljump root l.id call)
        | none =>
          let id := nextLabelId known
          let r0 := walkDown ends target rid
          match walkUp ends target fuel r0 with
          | .error e => .error e
          | .ok r =>
            .ok (known ++ [⟨target, id, r, r != rid⟩], .ljump root id call)
      | some _ => .error "AssertionError"

theorem processOpFuel_model (ends : List Int) (known : List Lbl) (rid : Nat) (o : MOp) :
    processOpFuel (ends.length + 1) ends known rid o = processOp ends known rid o := rfl

/-- **`processOp` with any additional fuel gives the same answer** (`resolve` calls it with `rid < ends.length`) -/
theorem processOp_fuel_irrelevant (ends : List Int) (known : List Lbl) (rid : Nat) (o : MOp)
    (h : rid ≤ ends.length) (extra : Nat) :
    processOpFuel (ends.length + 1 + extra) ends known rid o = processOp ends known rid o := by
  rw [← processOpFuel_model]
  unfold processOpFuel
  split
  · rfl
  · split
    · rfl
    · split
      · rfl
      · simp only [processOp_walkUp_fuel ends _ rid h extra]
      · rfl

/-- the bounds are not vacuous: with less fuel the answers differ (a path of two edges, a search over two
routines) -/
example : hasPathGo ⟨[], [⟨0, 1, 0, false⟩, ⟨1, 2, 0, false⟩]⟩ 2 1 [⟨0, 1, 0, false⟩] [0] = false ∧
    hasPath ⟨[], [⟨0, 1, 0, false⟩, ⟨1, 2, 0, false⟩]⟩ 0 2 = true := by decide
example : walkUp [1, 5] 3 1 0 = .error "ValueError" ∧ walkUp [1, 5] 3 3 0 = .ok 1 := ⟨by simp [walkUp], by simp [walkUp]⟩

end ESV.DecompFront
