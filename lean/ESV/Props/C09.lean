import ESV.Writer.Model
/-
C09 — decompile-time source map: line accounting of the writer protocol.
Proved for ALL command sequences (K3): the line counter always equals 1 + the number of newlines written, and an
entry recorded right before a statement points at the line/column where that statement's text begins.
Which op a statement belongs to is decided by the (unmodelled) graph passes and validated per input by the harness.
-/
namespace ESV.C09
open ESV.Writer

theorem countNl_append (a b : List Char) : countNl (a ++ b) = countNl a + countNl b := by
  simp [countNl, List.count_append]

theorem countNl_spaces (n : Nat) : countNl (spaces n) = 0 := by
  simp [countNl, spaces, List.count_replicate]

def Inv (w : W) : Prop := w.line = 1 + countNl w.out

theorem inv_init : Inv init := by simp [Inv, init, countNl]

theorem inv_writeLine (w : W) (h : Inv w) : Inv (writeLine w) := by
  unfold Inv writeLine at *
  simp only
  rw [countNl_append]
  have : countNl ('\n' :: spaces (w.indent * ESV.Spec.spacesPerIndent)) = 1 := by
    have := countNl_spaces (w.indent * ESV.Spec.spacesPerIndent)
    simp [countNl] at this ⊢
    exact this
  omega

theorem inv_step (w : W) (c : Cmd) (h : Inv w) : Inv (step w c) := by
  cases c with
  | setIndent n => exact h
  | stmnt s nl =>
    unfold step writeStmnt
    cases nl with
    | false =>
      simp only [Bool.false_eq_true, if_false]
      unfold Inv at *; simp only; rw [countNl_append]; omega
    | true =>
      simp only [if_true]
      have h2 := inv_writeLine w h
      unfold Inv at *; simp only; rw [countNl_append]; omega
  | line => exact inv_writeLine w h
  | opcode off =>
    show Inv (addOpcode w off)
    unfold addOpcode
    split
    · exact h
    · exact h
  | opcodeInline off => exact h

/-- **Line accounting.** After any sequence of writer calls the line counter is one more than the number of
newlines in the text written so far — embedded newlines of multi-line strings and language strings included. -/
theorem writer_line_inv (cs : List Cmd) : Inv (runCmds cs) := by
  unfold runCmds
  suffices ∀ w, Inv w → Inv (cs.foldl step w) from this init inv_init
  induction cs with
  | nil => intro w h; exact h
  | cons c cs ih => intro w h; exact ih (step w c) (inv_step w c h)

/-- **Entry position (statement on a new line).** If an entry is recorded and the statement `s` is then written
with a newline, the text written before `s` ends in a newline followed by exactly `col` blanks, and it contains
exactly `line` newlines: in the final text `s` begins on 0-based line `line` at column `col`. -/
theorem writer_entry_pos (w : W) (h : Inv w) (off : Int) (hoff : ¬ off < 0) (s : List Char) :
    let w1 := addOpcode w off
    let w2 := writeStmnt w1 s true
    ∃ pre, w2.out = pre ++ s ∧
      pre = w.out ++ '\n' :: spaces (w.indent * ESV.Spec.spacesPerIndent) ∧
      w1.map.getLast? = some (off, countNl pre, w.indent * ESV.Spec.spacesPerIndent) := by
  refine ⟨w.out ++ '\n' :: spaces (w.indent * ESV.Spec.spacesPerIndent), ?_, rfl, ?_⟩
  · simp [writeStmnt, writeLine, addOpcode, hoff]
  · simp only [addOpcode, hoff, if_false, List.getLast?_append, List.getLast?_singleton, Option.some_or]
    rw [countNl_append]
    have : countNl ('\n' :: spaces (w.indent * ESV.Spec.spacesPerIndent)) = 1 := by
      have := countNl_spaces (w.indent * ESV.Spec.spacesPerIndent)
      simp [countNl] at this ⊢
      exact this
    unfold Inv at h
    rw [this, h, Nat.add_comm]

/-- **Entry position (statement continuing the line, e.g. an elseif header).** The entry names the current
0-based line and the column right behind one separating blank. -/
theorem writer_entry_inline_pos (w : W) (h : Inv w) (off : Int) :
    (addOpcodeInline w off).map.getLast? = some (off, countNl w.out, curCol w.out + 1) := by
  simp only [addOpcodeInline, List.getLast?_append, List.getLast?_singleton, Option.some_or]
  unfold Inv at h
  rw [h]
  simp

/-- the behaviour of the pinned code (entry recorded with `source_map_add_opcode` although the header continues the
current line) named the NEXT line: witness of the repaired defect -/
theorem writer_entry_inline_counterexample :
    let w := runCmds [.stmnt "if".toList true, .stmnt "}".toList true]
    (addOpcode w 7).map.getLast? = some (7, 3, 0) ∧ (addOpcodeInline w 7).map.getLast? = some (7, 2, 2) := by
  decide

example : (runCmds [.setIndent 1, .opcode 5, .stmnt "a('''\n  x\n''');".toList true, .opcode 6, .stmnt "b();".toList true]).map
    = [(5, 1, 4), (6, 4, 4)] := by decide

/-- statements written for a marker of the decompiler (offset -1) leave no entry -/
theorem writer_no_entry_for_markers (w : W) (off : Int) (h : off < 0) : (addOpcode w off).map = w.map := by
  simp [addOpcode, h]

end ESV.C09
