import ESV.Lex.NeedsSep
import ESV.Lex.Header
import ESV.Props.C04
/-
C16 — layout, comments and alternative spellings do not change the compiled ops.

What is proved here (all inputs, no bounds) is the LEXER and LITERAL part of the property, about the model
ESV/Lex/Model.lean of the token rules of ExplorerScript.g4 + SsbCommon.g4 and the literal readers of ESV/Lit (C04):

  * tokens  — `skip_insertion`, `separator_invisible`, `render_lex`, `layout_irrelevant_tokens`: whatever blanks, line
              breaks, line comments, block comments and line joinings stand between (before, after) the tokens, the
              non-skip token sequence is the same; `needs_sep_sound`: where no separator is written the harness
              printer's table guarantees the boundary is safe; `lexer_total`.
  * values  — `int_spelling_irrelevant`, `decimal_leading_zeros_irrelevant`, `quote_style_irrelevant`,
              `multiline_form_irrelevant`: alternative spellings of one literal read as the same value;
  * headers — `header_spelling_irrelevant`, `label_marker_irrelevant` (thin models of two handler methods).

NOT proved: that the ANTLR parser + compiler map equal token sequences with equal literal values to equal ops.  The parser
is not modelled; that step is the metamorphic oracle of harness/props/c16.py on the real compiler.  MANIFEST category "other".
-/
namespace ESV.C16
open ESV ESV.Lit ESV.Lex

/-! ## tokens -/

/-- the lexer never fails and always advances -/
theorem lexer_total (s : Str) (hs : s ≠ []) : ∃ ty n, lexOne s = some (ty, n) ∧ 0 < n ∧ n ≤ s.length := by
  have hne : cands s ≠ [] := by
    cases s with
    | nil => exact absurd rfl hs
    | cons c cs =>
      have := mem_cands (T_UNKNOWN, unknownLen) (rule_mem_other _ (by simp [otherRules])) (c :: cs) 1 rfl
      intro h; rw [h] at this; simp at this
  cases h : lexOne s with
  | none => exact absurd h (pick_ne_none _ hne)
  | some p => exact ⟨p.1, p.2, rfl, lexOne_bound s p.1 p.2 h⟩

theorem lexFuel_eq_filter (f : Nat) (s : Str) : lexFuel f s = (lexAllFuel f s).filter (fun t => decide (t.ty ≠ T_SKIP)) := by
  induction f generalizing s with
  | zero => rfl
  | succ f ih =>
    cases s with
    | nil => rfl
    | cons c cs =>
      simp only [lexFuel, lexAllFuel]
      cases h : lexOne (c :: cs) with
      | none => rfl
      | some p =>
        obtain ⟨ty, n⟩ := p
        simp only
        by_cases hty : ty = T_SKIP <;> simp [hty, ih]

/-- `lex` is the complete token sequence without its SKIP_ tokens (the differential channel compares the complete sequence's
offsets, the theorems speak about `lex`) -/
theorem lex_drops_skip_tokens (s : Str) : lex s = (lexAll s).filter (fun t => decide (t.ty ≠ T_SKIP)) :=
  lexFuel_eq_filter _ s

/-- a classified text is exactly one token, not a SKIP_ and not an UNKNOWN_CHAR token -/
theorem token_alone (t : Str) (cls : Cls) (hc : classify t = some cls) :
    lex t = [tokOf t] ∧ (tokOf t).text = t ∧ (tokOf t).ty < T_SKIP ∧ T_SKIP < T_UNKNOWN := by
  have h := lex_token_append t [] cls hc rfl
  simp only [List.append_nil] at h
  exact ⟨by rw [h]; rfl, (tokOf_ty t cls hc).2, (tokOf_ty t cls hc).1, types_ok.1⟩

/-- a token, then any separator made of blanks / comments / line joinings (or no separator at a safe boundary), then any
text: the token comes out first, the rest is lexed as if it stood alone.  `ljSafe rest`: the text does not go on with
blanks and a form feed (see `line_joining_swallows_form_feed`). -/
theorem skip_insertion (t : Str) (cls : Cls) (us : List SepUnit) (rest : Str)
    (hc : classify t = some cls) (hok : ∀ u ∈ us, u.ok = true) (hs : ljSafe rest = true)
    (hb : us ≠ [] ∨ safeBoundary t rest = true) :
    lex (t ++ sepText us ++ rest) = tokOf t :: lex rest :=
  Lex.skip_insertion t cls us rest hc hok hs hb

/-- without a separator: exactly the boundary condition -/
theorem safe_boundary_suffices (t rest : Str) (cls : Cls) (hc : classify t = some cls) (hb : safeBoundary t rest = true) :
    lex (t ++ rest) = tokOf t :: lex rest :=
  lex_token_append t rest cls hc hb

theorem separator_invisible (us : List SepUnit) (rest : Str) (hok : ∀ u ∈ us, u.ok = true) (hs : ljSafe rest = true) :
    lex (sepText us ++ rest) = lex rest :=
  lex_sep us rest hok hs

/-- a line comment or an unterminated block comment at the end of the text -/
theorem trailing_comment_invisible (b : Str) :
    (b.all notEol = true → lex ('/' :: '/' :: b) = []) ∧ (noClose b = true → lex ('/' :: '*' :: b) = []) :=
  ⟨lex_eof_lineComment b, lex_eof_blockComment b⟩

theorem render_lex (l : List Piece) (tail : Str) (h : Admissible l tail) (ht : ljSafe tail = true) :
    lex (render l tail) = l.map (fun p => tokOf p.1) ++ lex tail :=
  Lex.render_lex l tail h ht

theorem layout_irrelevant_tokens (lead₁ lead₂ : List SepUnit) (l₁ l₂ : List Piece) (tail₁ tail₂ : Str)
    (hl₁ : ∀ u ∈ lead₁, u.ok = true) (hl₂ : ∀ u ∈ lead₂, u.ok = true)
    (a₁ : Admissible l₁ tail₁) (a₂ : Admissible l₂ tail₂)
    (t₁ : ljSafe tail₁ = true) (t₂ : ljSafe tail₂ = true) (e₁ : lex tail₁ = []) (e₂ : lex tail₂ = [])
    (same : l₁.map (·.1) = l₂.map (·.1)) :
    lex (sepText lead₁ ++ render l₁ tail₁) = lex (sepText lead₂ ++ render l₂ tail₂) :=
  Lex.layout_irrelevant_tokens lead₁ lead₂ l₁ l₂ tail₁ tail₂ hl₁ hl₂ a₁ a₂ t₁ t₂ e₁ e₂ same

/-- the harness printer's `needs_sep` table (mirrored as `needsSep`, compared with the Python function on every run) is
sound: no separator demanded ⇒ safe boundary -/
theorem needs_sep_sound (a b rest : Str) (ca cb : Cls) (ha : classify a = some ca) (hb : classify b = some cb)
    (h : ∀ y r, b = y :: r → needsSep a y = false) : safeBoundary a (b ++ rest) = true :=
  needsSep_sound a b rest ca cb ha hb h

/-- why `ljSafe` is demanded: LINE_JOINING (`'\\' SPACES? ('\r'? '\n' | '\r' | '\f')`) takes the longest match, so after
`\`+newline it also swallows following blanks and a form feed, which on its own would be an UNKNOWN_CHAR token -/
theorem line_joining_swallows_form_feed :
    lex ['x', '\\', '\n', ' ', FF, 'y'] ≠ lex ['x', ' ', FF, 'y'] ∧ ljSafe [' ', FF, 'y'] = false := by
  decide +kernel

/-- safe and unsafe juxtapositions the table is about -/
theorem boundary_examples :
    safeBoundary "-".toList "5".toList = false ∧ safeBoundary "x".toList "(".toList = true ∧
    safeBoundary "&".toList "<".toList = false ∧ safeBoundary "<".toList "'a'".toList = true ∧
    safeBoundary "12".toList ".5".toList = false ∧ safeBoundary "message_SwitchTalk".toList "2".toList = false ∧
    safeBoundary "''".toList "'".toList = false ∧ safeBoundary "'a'".toList "'".toList = true ∧
    safeBoundary "/=".toList "/".toList = true ∧ safeBoundary "0".toList "x1".toList = false := by
  decide +kernel

/-! ## literal values -/

def sign (neg : Bool) : Str := if neg then ['-'] else []
def signed (neg : Bool) (n : Nat) : Int := if neg then -(n : Int) else (n : Int)

/-- every spelling of an integer — decimal, `0x`/`0X` (either digit case), `0o`/`0O`, `0b`/`0B`, signed or not — is an
INTEGER token of the lexer and reads (`exps_int`) as the same value as the plain decimal spelling -/
theorem int_spelling_irrelevant (x : Char) (b : Nat) (hx : basePrefix x b) (up neg : Bool) (n : Nat) :
    classify (sign neg ++ '0' :: x :: showBase b up n) = some .int ∧
    classify (showInt (signed neg n)) = some .int ∧
    expsInt (sign neg ++ '0' :: x :: showBase b up n) = expsInt (showInt (signed neg n)) := by
  have h1 := C04.int_bases x b hx up neg n
  have h2 := C04.int_roundtrip (signed neg n)
  refine ⟨?_, ?_, ?_⟩
  · exact classify_int _ (by simpa [sign] using h1.1)
  · exact classify_int _ h2.1
  · rw [h2.2]; simpa [sign, signed] using h1.2
where
  classify_int (t : Str) (h : isIntegerTok t = true) : classify t = some .int := by
    have hi := isInt_of_isIntegerTok t h
    have hnum : NumHead t := by
      simp only [isInt, Bool.and_eq_true, decide_eq_true_eq] at hi
      exact numHead_of_int t _ hi.2
    obtain ⟨c, r, rfl, hc⟩ := hnum
    have hnotsym : isSym (c :: r) = false := by
      cases hs : isSym (c :: r) with
      | false => rfl
      | true =>
        simp only [isSym, Bool.and_eq_true, List.any_eq_true, decide_eq_true_eq] at hs
        obtain ⟨⟨l0, hl0, he⟩, -⟩ := hs
        have := litRule_num l0.1 (lit_ok l0 hl0) (c :: r) ⟨c, r, rfl, hc⟩
        rw [he] at this
        simp [litRule] at this
    have hst : isIdStart c = false := by
      rcases hc with (h | h) | ⟨h, -⟩
      · cases hs : isIdStart c with
        | false => rfl
        | true => rw [idStart_not_digit c hs] at h; cases h
      · subst h; decide
      · subst h; decide
    have hsig : isSigil (c :: r) = false := by
      have : c ≠ '$' ∧ c ≠ '~' := by
        rcases hc with (h | h) | ⟨h, -⟩
        · constructor <;> (rintro rfl; revert h; decide)
        · subst h; exact ⟨by decide, by decide⟩
        · subst h; exact ⟨by decide, by decide⟩
      simp [isSigil, this.1, this.2]
    simp [classify, hnotsym, isWord, hst, hsig, hi]

/-- all-zero spellings (`0`, `000`, `-0`) are the integer 0 -/
theorem int_zero_spellings (k : Nat) (neg : Bool) :
    expsInt (sign neg ++ List.replicate (k + 1) '0') = expsInt ['0'] := by
  have := (C04.int_zeros k neg).2
  have h0 : expsInt ['0'] = some 0 := by decide
  rw [h0]
  simpa [sign] using this

/-- redundant leading zeros of the whole part of a decimal, positive (`neg = false`) or NEGATIVE (`neg = true`), do not change
the fixed-point value `from_str` builds (sign, digits and fraction kept; `wholeSpelling neg k n` = sign, `k` zeros, digits of `n`) -/
theorem decimal_leading_zeros_irrelevant (neg : Bool) (k k' n : Nat) (frac : Str) (hf : frac.all isDigit = true) :
    fixedFromStr (wholeSpelling neg k n ++ '.' :: frac) = fixedFromStr (wholeSpelling neg k' n ++ '.' :: frac) := by
  rw [C04.fixed_normal_form neg k n frac hf, C04.fixed_normal_form neg k' n frac hf]

/-- the negative case (`neg = true` above) spelled out: `-007.5`, `-0007.5` and `-7.5` are the fixed-point value `-7.5`,
`-010.5` is `-10.5` (a zero inside the digits is kept), while `-00.5` and `-.5` are the negative zero `-0.5` -/
theorem negative_decimal_examples :
    fixedFromStr "-007.5".toList = .ok "-7.5".toList ∧ fixedFromStr "-0007.5".toList = .ok "-7.5".toList ∧
    fixedFromStr "-7.5".toList = .ok "-7.5".toList ∧ fixedFromStr "-010.5".toList = .ok "-10.5".toList ∧
    fixedFromStr "-00.5".toList = .ok "-0.5".toList ∧ fixedFromStr "-.5".toList = .ok "-0.5".toList ∧
    wholeSpelling true 2 7 ++ '.' :: ['5'] = "-007.5".toList := by
  decide +kernel

/-- single-line strings: `'…'` and `"…"` (each with its own quote escaped) read as the same value -/
theorem quote_style_irrelevant (s : Str) (i j : Nat) (hnl : NL ∉ s) (h1 : GuardS SQ s = true) (h2 : GuardS DQ s = true) :
    readSingle (reprString s i true) = readSingle (reprString s j false) := by
  rw [C04.read_repr_single s i true hnl h1, C04.read_repr_single s j false hnl h2]

/-- multi-line strings: the triple-quoted form, with either delimiter and at any indentation, reads as the same value as
the single-line form with escaped newlines -/
theorem multiline_form_irrelevant (s : Str) (i j : Nat) (d₁ d₂ q : Char) (hq : q = SQ ∨ q = DQ)
    (g₁ : GuardM i s = true) (g₂ : GuardM j s = true)
    (h1 : noPair BS (otherQuote q) s = true) (h2 : noPair BS 'n' s = true) :
    readMulti (reprMultiline s i (tripleOf d₁)) = readMulti (reprMultiline s j (tripleOf d₂)) ∧
    readMulti (reprMultiline s i (tripleOf d₁)) = readSingle ([q] ++ enc (some q) true s ++ [q]) := by
  rw [readMulti_reprMultiline d₁ s i g₁, readMulti_reprMultiline d₂ s j g₂, readSingle_enc q hq true s h1 h2]
  exact ⟨rfl, rfl⟩

/-! ## routine headers and labels -/

/-- the words the deprecated header is lexed from are the lexer's FOR_TARGET alternatives -/
theorem for_target_words :
    forTargetLits = ["for_actor".toList, "for_object".toList, "for_performer".toList] := by decide

/-- `def N for_actor(X)` and `def N for actor X` (likewise object, performer) denote the same routine info -/
theorem header_spelling_irrelevant {α} (target : α) :
    routineInfo (legacyHeader "for_actor".toList) target = routineInfo (newHeader "actor".toList) target ∧
    routineInfo (legacyHeader "for_object".toList) target = routineInfo (newHeader "object".toList) target ∧
    routineInfo (legacyHeader "for_performer".toList) target = routineInfo (newHeader "performer".toList) target ∧
    targetType (newHeader "actor".toList) = some 3 ∧ targetType (newHeader "object".toList) = some 4 ∧
    targetType (newHeader "performer".toList) = some 5 := by
  refine ⟨?_, ?_, ?_, by decide, by decide, by decide⟩ <;>
    (simp only [routineInfo]; congr 1)

/-- any other word after `for` is an error in both spellings' handler (the deprecated form has only the three words) -/
theorem header_other_word (w : Str) (h1 : w ≠ "actor".toList) (h2 : w ≠ "object".toList) (h3 : w ≠ "performer".toList) :
    targetType (newHeader w) = none := by
  have e1 : "actor".toList = ['a', 'c', 't', 'o', 'r'] := by decide
  have e2 : "object".toList = ['o', 'b', 'j', 'e', 'c', 't'] := by decide
  have e3 : "performer".toList = ['p', 'e', 'r', 'f', 'o', 'r', 'm', 'e', 'r'] := by decide
  rw [e1] at h1; rw [e2] at h2; rw [e3] at h3
  simp [targetType, newHeader, pyStr, h1, h2, h3]

/-- `@name` and `§name` define the same label -/
theorem label_marker_irrelevant (m₁ m₂ : Nat) (name : Str) : labelName m₁ name = labelName m₂ name := rfl

/-! ## non-vacuity -/

/-- a rendering `def/**/0{x(-5,'a')}` with separators only where needed, and a spaced one with comments: same tokens -/
def demoA : List Piece :=
  [("def".toList, [.blockComment []]), ("0".toList, []), ("{".toList, []), ("x".toList, []), ("(".toList, []),
   ("-5".toList, []), (",".toList, []), ("'a'".toList, []), (")".toList, []), ("}".toList, [])]
def demoB : List Piece :=
  [("def".toList, [.spaces [' ']]), ("0".toList, [.lineJoin [' '] '\n']), ("{".toList, [.lineComment "c".toList '\n']),
   ("x".toList, [.spaces ['\t']]), ("(".toList, []), ("-5".toList, [.blockComment "*".toList]), (",".toList, []),
   ("'a'".toList, []), (")".toList, [.spaces ['\n', ' ']]), ("}".toList, [.spaces ['\n']])]

example : render demoA [] = "def/**/0{x(-5,'a')}".toList := by decide
example : Admissible demoA [] := by
  simp only [demoA, Admissible]
  decide +kernel
example : Admissible demoB "/* open".toList := by
  simp only [demoB, Admissible]
  decide +kernel
example : lex (render demoA []) = lex (render demoB "/* open".toList) := by decide +kernel
example : (lex (render demoA [])).length = 10 := by decide +kernel

end ESV.C16
