import ESV.Decomp.WrCounter
import ESV.Beh.Search
/-
The text writers of the ExplorerScript decompiler (`write_handlers/*`, the last step of `ExplorerScriptSsbDecompiler.convert()`),
modelled at the level of the STATEMENT TREE the text denotes (lean/ESV/Decomp/Writer*.lean: `writeRoutine`, `writeProgram`; tied
exactly to the real writers on every generated routine set of C02 / C06, harness/decomp_writer.py).  Statements only.

Meaning of the output: `astLts ss` - the statement list as the only routine of a core program under the language semantics
`Src.Program.graph` (lean/ESV/Src/Sem.lean), from `astEntry ss`; meaning of the input: the final graph under `stepL`
(lean/ESV/Decomp/SemL.lean) from vertex 0, the reading for which `front_through_graph_phase_preserve` shows that the graph handed
to the writers behaves like the resolver's item list.  Every hypothesis is a decidable predicate that the harness evaluates on
every real final graph.
-/
namespace ESV.DecompFront
open ESV.Beh ESV.Decomp ESV.Decomp.Wr

/-- **straight-line routines**: for a graph of plain ops - a chain, or whatever the edges are: a second out-edge makes the writers
raise, a cycle too - the statement list the writers produce (with the dummy `return;` behind a last op that does not end the
control flow) behaves like the graph -/
theorem writeRoutine_straightline (perf : String) (info : RInfo) (g : BGraph) (ss : Src.Stmts) (hg : straightGraph perf g = true)
    (hw : writeRoutine perf info g = .ok (some ss)) : Equivalent (astLts ss) g.ltsL (astEntry ss) (0 : Nat) := by
  unfold straightGraph at hg
  rw [Bool.and_eq_true] at hg
  exact writeRoutine_lf_equiv perf info g ss hg.1 hw

/-- **context ops and ifs** (the label-free fragment, `lfGraph`): plain ops as above, context ops in front of a simple op
(`Op<actor x>(…)`), ifs with `not` (`isNot`), `||` (multi-ifs) and elseif chains whose clauses denote their tests (`testIdOk`;
`writeRoutine_lowering_counterexample`), where an op that ends the control flow does not stand behind a context op
(`writeRoutine_context_counterexample`) - no label, jump, switch, loop or message switch.  Whenever the write handlers produce a
statement list for such a graph, it behaves like the graph: the same operations and tests for every outcome of every test, halting
preserved. -/
theorem writeRoutine_labelfree (perf : String) (info : RInfo) (g : BGraph) (ss : Src.Stmts) (hg : lfGraph perf g = true)
    (hw : writeRoutine perf info g = .ok (some ss)) : Equivalent (astLts ss) g.ltsL (astEntry ss) (0 : Nat) :=
  writeRoutine_lf_equiv perf info g ss hg hw

/-- the hypotheses are satisfiable by a non-trivial graph:
`Foo(1); if not ( $X > 3 || debug ) { Bar<actor 2>(); end; } elseif ( $Y[4] ) { $Z = 1; hold; } else { Baz(); return; }` -/
example : lfGraph perfName exLf = true ∧ ∃ ss, writeRoutine perfName generic exLf = .ok (some ss) := ⟨by decide, exLfAst, by decide +kernel⟩

/-- **ifs that join** (`jnGraph`): plain ops and context ops as above, ifs WITHOUT elseif chains (`noElseIf`: the else-edge of an
if does not lead to an if; `writeRoutine_elseif_counterexample`) and LABELS that end ifs (no switch end, loop start / end, fall-through
marker).  A block of the writer stops in front of the end label of its if, the statements behind the if start with the label
statement.  Whenever the write handlers produce for such a graph a statement list without `jump` / `call` statements (`noJumpL`:
every label is reached by running into it, it was not written before) whose labels are written once, it behaves like the graph.
(The two conditions on the OUTPUT are decidable and evaluated on every real text.) -/
theorem writeRoutine_joins (perf : String) (info : RInfo) (g : BGraph) (ss : Src.Stmts) (hg : jnGraph perf g = true)
    (hw : writeRoutine perf info g = .ok (some ss)) (hnj : noJumpL ss = true) (hnd : (Src.labelsOfStmts ss).Nodup) :
    Equivalent (astLts ss) g.ltsL (astEntry ss) (0 : Nat) :=
  writeRoutine_jn_equiv perf info g ss hg hw hnj hnd

/-- non-vacuity: `if ( $X == 1 ) { Foo(); } else { Bar<actor 2>(); } @label_3; Baz(); end;` -/
example : jnGraph perfName exJn = true ∧ writeRoutine perfName generic exJn = .ok (some exJnAst) ∧ noJumpL exJnAst = true ∧
    (Src.labelsOfStmts exJnAst).Nodup := ⟨by decide, by decide +kernel, by decide, by decide⟩

/-- **what a verdict `equiv` of the per-input validation means** (`decompwr.write` with `validate`, run on every real final graph,
switches, loops, jumps and calls included): when the proven checker accepts the statement list the writers produce for a graph
against the graph (`validate … = true`; the driver calls it with the same two step functions), the two are behaviourally equal. -/
theorem writeRoutine_checked (g : BGraph) (ss : Src.Stmts) (fuel budget : Nat)
    (h : (validate (routineProgram ss).graph.step g.stepL fuel budget (astEntry ss) 0).2 = true) :
    Equivalent (astLts ss) g.ltsL (astEntry ss) (0 : Nat) :=
  validate_sound _ _ fuel budget _ _ h

end ESV.DecompFront

namespace ESV.Decomp
open ESV.Beh ESV.Decomp.Wr

/-- `plainIdOk` is needed: `Return(1)` is written `return;` -/
theorem writeRoutine_params_counterexample :
    lfGraph perfName cexParams = false ∧ ∃ ss, writeRoutine perfName generic cexParams = .ok (some ss) ∧
      ¬ Equivalent (astLts ss) cexParams.ltsL (astEntry ss) (0 : Nat) := by
  refine ⟨by decide, cexParamsAst, by decide +kernel, ?_⟩
  exact wr_cex _ _ (fun _ => true) [.stop ⟨"Return", []⟩] [.stop ⟨"Return", [.int 1]⟩] cexParams_run (by decide +kernel) (by decide)

/-- `testIdOk` is needed: `BranchValue($X, ==, 1)` is written `if ( $X == 1 )`, which denotes `Branch($X, 1)` -/
theorem writeRoutine_lowering_counterexample :
    lfGraph perfName cexLowering = false ∧ ∃ ss, writeRoutine perfName generic cexLowering = .ok (some ss) ∧
      ¬ Equivalent (astLts ss) cexLowering.ltsL (astEntry ss) (0 : Nat) := by
  refine ⟨by decide, cexLoweringAst, by decide +kernel, ?_⟩
  exact wr_cex _ _ (fun _ => true) [.tst ⟨"Branch", [.const "$X", .int 1]⟩ true, .stop ⟨"End", []⟩]
    [.tst ⟨"BranchValue", [.const "$X", .int 2, .int 1]⟩ true, .stop ⟨"End", []⟩] cexLowering_run (by decide +kernel) (by decide)

/-- the clause "an op that ends the control flow does not stand behind a context op" is needed: an op that is reached both from an
if and from a context op never stops the routine under the graph's reading, the statement written in the if-branch does -/
theorem writeRoutine_context_counterexample :
    lfGraph perfName cexCtxShared = false ∧ ∃ ss, writeRoutine perfName generic cexCtxShared = .ok (some ss) ∧
      ¬ Equivalent (astLts ss) cexCtxShared.ltsL (astEntry ss) (0 : Nat) := by
  refine ⟨by decide, cexCtxSharedAst, by decide +kernel, ?_⟩
  exact wr_cex _ _ (fun _ => true) [.tst ⟨"Branch", [.const "$X", .int 1]⟩ true, .stop ⟨"Destroy", []⟩]
    [.tst ⟨"Branch", [.const "$X", .int 1]⟩ true, .op ⟨"Destroy", []⟩, .stop evReturn] cexCtxShared_run (by decide +kernel) (by decide)

/-- `noElseIf` is needed - and this is a shape on which the write handlers LOSE code: `if (a) { end; } elseif (b) { end; }` where the
else-edge of the inner if leads to the label that ends the INNER if.  `_build_else_if_chain` stops in front of that label ("next
vertex ends"), records it as a continuation and returns no else-edge; `write_content` then returns `_v_after_elseif_branches`,
which is None because the elseif-branch left by `end`: nothing continues at the label, `Baz(); end;` behind it is never written.
(All other hypotheses of `writeRoutine_joins` hold; real runs do not produce the shape: `build_branches` marks an end label only
where both branches of the if arrive.) -/
theorem writeRoutine_elseif_counterexample :
    jnGraph perfName cexElseIf = false ∧ writeRoutine perfName generic cexElseIf = .ok (some cexElseIfAst) ∧
      noJumpL cexElseIfAst = true ∧ (Src.labelsOfStmts cexElseIfAst).Nodup ∧
      ¬ Equivalent (astLts cexElseIfAst) cexElseIf.ltsL (astEntry cexElseIfAst) (0 : Nat) := by
  refine ⟨by decide, by decide +kernel, by decide, by decide, ?_⟩
  exact wr_cex _ _ (fun _ => false) [.tst ⟨"Branch", [.const "$X", .int 1]⟩ false, .tst ⟨"Branch", [.const "$Y", .int 2]⟩ false, .stop evReturn]
    [.tst ⟨"Branch", [.const "$X", .int 1]⟩ false, .tst ⟨"Branch", [.const "$Y", .int 2]⟩ false, .op ⟨"Baz", []⟩, .stop ⟨"End", []⟩]
    cexElseIf_run (by decide +kernel) (by decide)

end ESV.Decomp
