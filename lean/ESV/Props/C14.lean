import ESV.SourceMap.Lemmas
/-
C14 — Source maps survive storage and offset rewriting.  Property statements only; lemmas are in
ESV/SourceMap/Lemmas.lean, the model in ESV/SourceMap/Model.lean.
-/
namespace ESV.C14
open ESV ESV.SM

/-- Reading back what was serialised gives the identical map: op entries, macro entries (file, macro,
position, call site, return address, parameter mapping) and position marks. -/
theorem deser_ser (m : SourceMap) (h : m.WF) : SourceMap.deser m.ser = some m := by
  rw [SourceMap.deser_ser', Dict.ofItems_nodup _ h.1, Dict.ofItems_nodup _ h.2]

/-- Serialising again gives the same JSON value (hence the same text). -/
theorem ser_deser_ser (m : SourceMap) (h : m.WF) : (SourceMap.deser m.ser).map SourceMap.ser = some m.ser := by
  rw [deser_ser m h]; rfl

/-- The map read back compares equal (`SourceMap.__eq__`) to the original. -/
theorem eq_after_roundtrip (m : SourceMap) (h : m.WF) :
    ∃ m', SourceMap.deser m.ser = some m' ∧ m.pyEq m' = true := by
  refine ⟨m, deser_ser m h, ?_⟩
  simp [SourceMap.pyEq, dictEqv_refl m.mappings h.1]

/-- Every op entry moves to the new offset of the same op. -/
theorem rewrite_entry (m : SourceMap) (f : Dict Int Int) (hm : m.WF) (hf : Inj f) (k k' : Int) (v : Mapping)
    (h1 : Dict.get? m.mappings k = some v) (h2 : Dict.get? f k = some k') :
    Dict.get? (m.rewrite f).mappings k' = some v := by
  have := rekey_get m.mappings f hm.1 hf k k' v h1 h2
  unfold SourceMap.rewrite SourceMap.rewriteG
  simp only
  split <;> exact this

/-- Nothing else appears: an entry of the rewritten map is the image of an entry whose op is in the mapping
(so only entries whose op is absent from the mapping are removed — together with `rewrite_entry`). -/
theorem rewrite_entry_only (m : SourceMap) (f : Dict Int Int) (hm : m.WF) (hf : Inj f) (k' : Int) (v : Mapping)
    (h : Dict.get? (m.rewrite f).mappings k' = some v) :
    ∃ k, Dict.get? f k = some k' ∧ Dict.get? m.mappings k = some v := by
  apply rekey_only m.mappings f hm.1 hf k' v
  unfold SourceMap.rewrite SourceMap.rewriteG at h
  simp only at h
  split at h <;> exact h

theorem get?_map_snd {β γ : Type} (d : Dict Int β) (g : β → γ) (k : Int) :
    Dict.get? (d.map fun kv => (kv.1, g kv.2)) k = (Dict.get? d k).map g := by
  induction d with
  | nil => rfl
  | cons x xs ih =>
    obtain ⟨a, b⟩ := x
    simp only [List.map_cons, Dict.get?]
    split <;> simp [ih]

/-- Every macro entry moves to the new offset of the same op; all fields but the return address are unchanged,
and the return address is `newRet`. -/
theorem rewrite_macro_entry (m : SourceMap) (f : Dict Int Int) (hm : m.WF) (hf : Inj f) (k k' : Int)
    (v : MacroMapping) (h1 : Dict.get? m.macros k = some v) (h2 : Dict.get? f k = some k') :
    Dict.get? (m.rewrite f).macros k' =
      some (updRet false f (maxKey (Dict.keys f)) v) := by
  have hk := rekey_get m.macros f hm.2 hf k k' v h1 h2
  have hne : f.isEmpty = false := by
    cases f with
    | nil => simp [Dict.get?] at h2
    | cons _ _ => rfl
  unfold SourceMap.rewrite SourceMap.rewriteG
  simp only [hne]
  rw [if_neg (by simp)]
  simp only
  rw [get?_map_snd (rekey m.macros f) (updRet false f (maxKey (Dict.keys f))) k', hk]
  rfl

theorem rewrite_macro_entry_only (m : SourceMap) (f : Dict Int Int) (hm : m.WF) (hf : Inj f) (k' : Int)
    (v' : MacroMapping) (h : Dict.get? (m.rewrite f).macros k' = some v') :
    ∃ k v, Dict.get? f k = some k' ∧ Dict.get? m.macros k = some v := by
  unfold SourceMap.rewrite SourceMap.rewriteG at h
  simp only at h
  split at h
  · obtain ⟨k, a, b⟩ := rekey_only m.macros f hm.2 hf k' v' h
    exact ⟨k, v', a, b⟩
  · rw [get?_map_snd] at h
    cases hh : Dict.get? (rekey m.macros f) k' with
    | none => simp [hh] at h
    | some v =>
      obtain ⟨k, a, b⟩ := rekey_only m.macros f hm.2 hf k' v hh
      exact ⟨k, v, a, b⟩

/-- The new return address: the new offset of the least old offset `a ≥ r` that survives … -/
theorem rewrite_ret_next (f : Dict Int Int) (r a : Int)
    (h : walk f (maxKey (Dict.keys f)) (walkFuel (maxKey (Dict.keys f)) r) r = some a) :
    newRet false f (maxKey (Dict.keys f)) (some r) = Dict.get? f a ∧
    r ≤ a ∧ Dict.has f a = true ∧ ∀ j, r ≤ j → j < a → Dict.has f j = false := by
  refine ⟨?_, walk_some f _ _ r a h⟩
  simp [newRet, h]

/-- … and unchanged when no op at or after `r` survives. -/
theorem rewrite_ret_none (f : Dict Int Int) (r : Int)
    (h : walk f (maxKey (Dict.keys f)) (walkFuel (maxKey (Dict.keys f)) r) r = none) :
    newRet false f (maxKey (Dict.keys f)) (some r) = some r ∧ ∀ j, r ≤ j → Dict.has f j = false := by
  refine ⟨by simp [newRet, h], ?_⟩
  intro j hj
  by_cases hle : j ≤ maxKey (Dict.keys f)
  · exact walk_none f _ _ r (by left; unfold walkFuel; omega) h j hj hle
  · cases hh : Dict.has f j with
    | false => rfl
    | true => exact absurd (has_le_maxKey f j hh) hle

/-- when the op of the return address itself survives, the address is simply translated -/
theorem rewrite_ret_same (f : Dict Int Int) (r : Int) (h : Dict.has f r = true) :
    newRet false f (maxKey (Dict.keys f)) (some r) = Dict.get? f r := by
  simp [newRet, walkFuel, walk, h]

/-- The pinned code used `if m.return_addr:`; a return address 0 was then left untranslated. Kept as the
witness of the repaired defect (known_findings: fixed). -/
theorem rewrite_ret_truthy_counterexample :
    newRet true [(0, 5)] 0 (some 0) = some 0 ∧ newRet false [(0, 5)] 0 (some 0) = some 5 := by
  decide

/-! non-vacuity: a concrete map with macro entries meets the hypotheses and is moved as stated -/
def exMap : SourceMap :=
  { mappings := [(1, ⟨0, 4⟩), (2, ⟨1, 4⟩), (7, ⟨3, 0⟩)],
    posMarks := [⟨1, 2, 1, 30, "m", 0, 2, 5, 6⟩],
    macros := [(3, ⟨some "a/b.exps", "mac", 4, 8, some (none, 2, 4), some 6, [("$x", .int 3), ("$y", .str "K")]⟩),
               (4, ⟨none, "mac", 5, 8, none, some 6, []⟩)],
    posMarksMacro := [(none, "mac", ⟨4, 8, 4, 20, "q", 0, 0, 1, 1⟩)] }
def exF : Dict Int Int := [(1, 10), (3, 11), (4, 12), (7, 13)]

example : exMap.WF ∧ Inj exF := by
  refine ⟨⟨by decide, by decide⟩, by decide, by decide⟩
example : SourceMap.deser exMap.ser = some exMap := deser_ser exMap ⟨by decide, by decide⟩
example : (exMap.rewrite exF).macros =
    [(11, ⟨some "a/b.exps", "mac", 4, 8, some (none, 2, 4), some 13, [("$x", .int 3), ("$y", .str "K")]⟩),
     (12, ⟨none, "mac", 5, 8, none, some 13, []⟩)] := by decide
example : (exMap.rewrite exF).mappings = [(10, ⟨0, 4⟩), (13, ⟨3, 0⟩)] := by decide

end ESV.C14
