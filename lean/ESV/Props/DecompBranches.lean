import ESV.Decomp.BrInv
import ESV.Decomp.BrCounter
import ESV.Decomp.BrOptLd
import ESV.Props.DecompOpt
/-
`build_branches`, the second rewriting phase of the decompiler (marks ifs, by-passes and deletes the Jump in front
of an if's end label).  Its heuristic search `find_first_common_next_vertex_in_edges` is an oracle input of the model
(`lean/ESV/Decomp/Branches.lean`); the theorem holds for EVERY answer list whose answers satisfy the decidable
predicate `answerOk` on the graph at the time of the call.  Statements only.
-/
namespace ESV.DecompFront
open ESV.Beh ESV.Decomp

/-- **`build_branches` preserves behaviour**: for every graph in which edges of one source and flow level have one
target (`branchesStructOk` = `levelsDetermine`, part of `graphOk`; shown necessary by
`buildBranches_levels_counterexample`) and EVERY list of answers of the unmodelled search such that each answer the
phase acts on names a Jump that can be by-passed - it is not vertex 0, and either nothing leads to it or exactly one
edge does and the Jump goes to the end label (`answersOk`: `BGraph.answerOk` at the time of each call; every clause
shown necessary: `buildBranches_second_in_edge_counterexample`, `buildBranches_start_vertex_counterexample`,
`buildBranches_other_target_counterexample`) -: whenever the phase answers, the graph after it (markers, names and
else flags forgotten) behaves like the graph before it, edge-based reading, from the routine's first vertex.
No hypothesis about silent cycles is needed (the end label stays). -/
theorem buildBranches_preserves (answers : List (Option (Nat × Nat))) (g g' : BGraph)
    (hs : branchesStructOk g = true) (ha : answersOk answers g = true)
    (h : buildBranches answers g = .ok g') :
    Equivalent g.toGraph.ltsE g'.toGraph.ltsE (0 : Nat) (0 : Nat) :=
  ESV.Decomp.Br.buildBranches_preserves' answers g g' hs ha h

/-- the single-iteration form: one answer of the search, applied to a graph in the middle of the loop (`del` = the
vertices already marked for deletion: Jumps other than vertex 0 to which nothing leads any more) -/
theorem buildBranches_one_answer (g : BGraph) (del : List Nat) (id : Nat) (a : Option (Nat × Nat)) (g2 : BGraph)
    (del2 : List Nat) (hinv : ESV.Decomp.Br.Inv g.toGraph del) (hok : g.answerOk a = true)
    (h : g.applyAnswer del id a = .ok (g2, del2)) :
    ESV.Decomp.Br.Inv g2.toGraph del2 ∧ Equivalent g.toGraph.ltsE g2.toGraph.ltsE (0 : Nat) (0 : Nat) :=
  ESV.Decomp.Br.applyAnswer_step g del id a g2 del2 hinv hok h

theorem toGraph_ofGraph (names : List (Option Nat)) (g : Graph) : (BGraph.ofGraph names g).toGraph = g := by
  unfold BGraph.ofGraph BGraph.toGraph
  simp only [List.map_map]
  have h1 : ((fun x : BVertex => x.op) ∘ fun p : VOp × Nat => (⟨(names[p.2]?).join, p.1, none, [], [], false, none, [], false, false, none, [], none, none, false⟩ : BVertex)) =
      Prod.fst := rfl
  have h2 : (BEdge.toEdge ∘ BEdge.ofEdge) = id := rfl
  rw [h1, h2, List.map_id, List.zipIdx_map_fst]

/-- the structure hypothesis of `buildBranches_preserves` holds for every graph that leaves `optimize_paths`, whatever
the vertex names -/
theorem optimizePaths_branchesStructOk (labels : List Lbl) (g g' : Graph) (names : List (Option Nat))
    (hok : graphOk g = true) (hns : noSilentCycle g = true) (h : optimizePaths labels g = .ok g') :
    branchesStructOk (BGraph.ofGraph names g') = true := by
  unfold branchesStructOk
  rw [toGraph_ofGraph]
  exact ESV.Decomp.Br.optimizePaths_levelsDetermine labels g g' hok hns h

/-- **The modelled front of the decompiler through `build_branches`** (one routine in isolation): the graph that
leaves `build_branches` behaves like the routine's item list the resolver produced - whenever all phases answer,
under the guards of `front_phases_preserve`, for every answer list of the search that satisfies `answersOk`. -/
theorem front_through_branches_preserve (labels : List Lbl) (opt : Bool) (rid : Nat) (items : List Item)
    (g g' : Graph) (names : List (Option Nat)) (answers : List (Option (Nat × Nat))) (b : BGraph)
    (hg : baseGraph labels opt rid items = .ok g) (hguard : ctxGuard items = true)
    (hnames : namesGuard items = true) (hns : noSilentCycle g = true)
    (ho : optimizePaths labels g = .ok g')
    (ha : answersOk answers (BGraph.ofGraph names g') = true)
    (hb : buildBranches answers (BGraph.ofGraph names g') = .ok b) :
    Equivalent (RMachine.lts ⟨labels, rid, items⟩) b.toGraph.ltsE (0 : Nat) (0 : Nat) := by
  have h1 := front_phases_preserve labels opt rid items g g' hg hguard hnames hns ho
  have hs := optimizePaths_branchesStructOk labels g g' names (baseGraph_ok labels opt rid items g hg) hns ho
  have h2 := buildBranches_preserves answers _ b hs ha hb
  rw [toGraph_ofGraph] at h2
  exact Equivalent.trans h1 h2

/-- non-vacuity: `if (Branch) { Bar } else { Foo; Jump @end } §end: Baz` - the hypotheses hold, the phase answers,
the Jump (vertex 2) is by-passed and deleted, the end label carries `IfEnd(0)` -/
def exIfElse : BGraph :=
  { vs := [⟨some 0, .item (.ljump ⟨0, "Branch", []⟩ 1 false), none, [], [], false, none, [], false, false, none, [], none, none, false⟩, ⟨some 1, .item (.op ⟨1, "Foo", []⟩), none, [], [], false, none, [], false, false, none, [], none, none, false⟩,
           ⟨some 2, .item (.ljump ⟨2, "Jump", []⟩ 2 false), none, [], [], false, none, [], false, false, none, [], none, none, false⟩, ⟨some 3, .item (.label 1), none, [], [], false, none, [], false, false, none, [], none, none, false⟩,
           ⟨some 4, .item (.op ⟨3, "Bar", []⟩), none, [], [], false, none, [], false, false, none, [], none, none, false⟩, ⟨some 5, .item (.label 2), none, [], [], false, none, [], false, false, none, [], none, none, false⟩,
           ⟨some 6, .item (.op ⟨4, "Baz", []⟩), none, [], [], false, none, [], false, false, none, [], none, none, false⟩],
    es := [⟨0, 1, 0, false, false, []⟩, ⟨0, 3, 1, false, false, []⟩, ⟨1, 2, 0, false, false, []⟩, ⟨2, 5, 1, false, false, []⟩,
           ⟨3, 4, 0, false, false, []⟩, ⟨4, 5, 0, false, false, []⟩, ⟨5, 6, 0, false, false, []⟩] }
example : branchesStructOk exIfElse = true := by decide
example : answersOk [some (5, 3)] exIfElse = true := by decide
example : (match buildBranches [some (5, 3)] exIfElse with
    | .ok g' => (g'.vs.length, g'.es.map fun e => (e.src, e.dst, e.isElse), g'.vs.map (·.ifEnds))
    | .error _ => (0, [], [])) =
    (6, [(0, 1, true), (0, 2, false), (2, 3, false), (3, 4, false), (4, 5, false), (1, 4, false)],
      [[], [], [], [], [0], []]) := by decide

end ESV.DecompFront

